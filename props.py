"""per-property configuration of ./check: claimed level, assumptions (DESIGN
2.9), clause table (P proved / B bounded / A assumed / N not decided), bounded
stand-ins."""

ASSUMPTIONS = {
 'A1': 'A1 floats are modelled as mathematical reals (no rounding)',
 'A2': 'A2 run-time values have the shapes declared in /verif/specs (record fields, list element types)',
 'A3': 'A3 distinct access paths denote distinct objects (ownership tree; no aliasing between list elements)',
 'A4': 'A4 dropped logging/profiling calls (self._log, self._prof, self._rep, pprint, time.sleep) have no effect and do not raise',
 'A5': 'A5 effect callees (advance, publish, queue put, stager calls) return normally unless marked may-raise',
 'A6': 'A6 assumed contracts on radical.utils / stdlib callees, named per function in trusted_base',
 'A7': 'A7 an operation is atomic with respect to the state it locks (operation-granularity histories)',
 'A8': 'A8 partial correctness: termination is not proved (except the loop-exit obligations of C15)',
 'A9': 'A9 static method resolution: self.m() resolves to the class named in the spec',
 'A10': 'A10 left-to-right evaluation, insertion-ordered dicts; iteration order over a dict is arbitrary but duplicate-free',
 'A12': 'A12 BaseComponent.advance (utils/component.py) as used by the agent scheduler sets thing["state"], publishes and pushes as its arguments say and does not touch the scheduler\'s own structures; the agent-side wrapper AgentComponent.advance is under contract (C05), the base implementation is not',
 'A13': 'A13 radical.utils.lazy_bisect(data, check=..) (a dependency, not part of /repo): calls check at most once per element and nothing else that touches the scheduler, and returns three lists partitioning data into accepted / refused-or-skipped / raised; the scheduler-state summary after it composes the verified contract of _try_allocation over that call sequence (induction over the calls, not machine-checked)',
 'A14': 'A14 the command lines of the external launchers mean what their documentation says: mpirun -np N -host h1,..,hN starts N processes, one per listed host entry (MPT: -np per listed host); aprun / ccmrun -n N starts N; ssh / rsh <host> runs one process on host; mpiexec -np with --hostfile / -f / -rf, srun --ntasks --nodes --nodelist / --nodefile, prun --np --host h:k, ibrun -n as read by harness/lm_sim.py',
 'A15': 'A15 strings are identifiers: str.split / strip / startswith / in, os.path.basename and radical.utils.Url parsing are uninterpreted functions; the contracts pin which of their results go where, not what they compute',
 'A16': 'A16 /bin/bash executes the generated text as POSIX sh semantics say; only the FORK launch method can run in the sandbox, so the MPI launchers\' rank variables are not exercised',
 'A11': 'A11 pyvc, z3 and cvc5 are the trusted computing base (canaries, cover checks, self-test edits and the CPython cross-check are the guards)',
}

PROPS = {}
NOT_CLAIMED = {}

PROPS['C15'] = dict(
    level='other',
    claim='Task.wait and Pilot.wait: loop-exit obligations (awaited state or final state reached => the polling loop is left within one iteration), truthful return value, for every state argument shape and every forward-moving trajectory of the entity; all obligations discharged, no bound',
    note='TaskManager.wait_tasks / PilotManager.wait_pilots are not under contract: they are exercised by a bounded native run (threads, timed returns), labelled bounded',
    bounded=[dict(name='wait-calls', cmd=['harness/run_bounded.py', 'wait-calls'], timeout=900)],
    assumptions=['A2', 'A4', 'A8', 'A11'],
    explanation='wait calls: argument normalisation, loop-exit obligations '
                '(awaited state reached / entity final => the polling loop is '
                'left), truthful return value; the awaited entity\'s state is a '
                'volatile input that may move forward between any two polls',
    clauses={'normalisation (None -> final states)': 'P',
             'returns once awaited state reached': 'P',
             'returns once entity is final': 'P',
             'timeout': 'P', 'returned states are the actual states': 'P',
             '"shortly" = one 0.1 s poll; time.sleep dropped': 'A'})

PROPS['C06'] = dict(
    level='proof',
    claim='every obligation generated from the contracts of states._task_state_progress, states._task_state_value, Task._update, TaskManager._update_tasks, TaskManager._state_sub_cb (every task notification of an update message reaches _update_tasks once, in the order delivered) and TaskManager._task_cb is discharged for all inputs and all batch lengths (loop invariants, no bound): forward-only single steps, sticky final states, no batch raises, unnamed tasks untouched, callbacks strictly increasing per task',
    assumptions=['A2', 'A4', 'A5', 'A7', 'A9', 'A10', 'A11'],
    trusted_base=['ru.dict_merge (radical.utils): assumed not to raise and to touch only _task_info'],
    explanation='state progression function (functional spec), Task._update '
                '(sticky final states, single steps), TaskManager._update_tasks '
                '(no batch raises; unnamed tasks untouched; callbacks strictly '
                'increasing per task, within (old state, new state])',
    clauses={'only forward / each state at most once / gaps filled': 'P',
             'final states never change': 'P',
             'contradictory notification does not stop the batch': 'P',
             'callback dispatch (_task_cb: every registered callback once, with the announced state, exceptions contained)': 'P'})

PROPS['C13'] = dict(
    level='proof',
    claim='TaskManager._pilot_state_cb (with Task._update by contract) verified for any number of tasks and notified pilots: exactly the non-final tasks bound to a final notified pilot become FAILED naming the pilot, everything else keeps its state',
    assumptions=['A2', 'A4', 'A5', 'A7', 'A9', 'A10', 'A11'],
    explanation='TaskManager._pilot_state_cb with Task._update by contract: for any '
                'number of tasks and notified pilots, exactly the non-final tasks '
                'bound to a final notified pilot become FAILED with an explanation '
                'naming the pilot; final tasks keep their state; tasks of other '
                'pilots and unbound tasks are untouched',
    clauses={'own non-final tasks FAILED, pilot named': 'P',
             'other pilots / unbound / final tasks keep state': 'P',
             'callback registered for every added pilot (add_pilots)': 'A'})

PROPS['C16'] = dict(
    level='proof',
    claim='the forwarding hop Session.crosswire_pubsub.pubsub_fwd (a nested function, verified as a function of its captured variables) meets its hop contract for every message, flag and origin combination; composition lemmas over the hop contracts for arbitrary distinct sides (any number of pilots): forwarded iff flagged, delivered to every other side, not delivered back, not forwarded again; wiring of the four forwarders and the fwd defaults are read from the AST and checked exhaustively',
    note='ZeroMQ pub/sub delivering each published message once to each subscriber is assumed (transport, outside /repo)',
    assumptions=['A2', 'A4', 'A5', 'A11'],
    trusted_base=['ru.zmq.Publisher / Subscriber (radical.utils): each put is delivered once to every subscriber of the channel'],
    explanation='hop contract + composition lemmas + literal wiring check',
    clauses={'outbound hop: forwards iff fwd and own origin, clears fwd': 'P',
             'inbound hop: forwards iff foreign origin': 'P',
             'exactly once to every other side / never back / no circulation (lemmas, any number of sides)': 'P',
             'four forwarders wired (src, tgt, from_proxy)': 'P (finite)',
             'agent advances forwarded by default, client not': 'P (finite)',
             'ZeroMQ delivery': 'A'})

PROPS['C19'] = dict(
    level='other',
    claim='TaskDescription._verify: every deprecated attribute is carried over to its replacement with the same value and cleared, mode requirements raise exactly when the required attribute is missing, the result is a normal form and a fixpoint (idempotence lemma); all obligations discharged. The as_dict()/constructor round trip and the function-payload encoding live in radical.utils / dill and are not decided here',
    note='convert_slots_to_new is under contract for slots whose cores / GPUs are RO objects (the form the agent scheduler produces; placement preserved); the other accepted encodings (ints, dicts, pairs) and convert_slots_to_old are exercised by a bounded conversion sweep only; the dill/msgpack payload round trip is not decided',
    bounded=[dict(name='slot-formats', cmd=['harness/run_bounded.py', 'slot-formats'], timeout=600)],
    assumptions=['A1', 'A2', 'A11'],
    explanation='alias + normal-form + fixpoint postconditions on the real _verify, idempotence as a lemma over the contract; ru.TypedDict attribute semantics (self.x is self["x"]) assumed',
    trusted_base=['ru.TypedDict (radical.utils): attribute access equals item access; as_dict/constructor round trip'],
    clauses={'deprecated names mapped with the same value and cleared': 'P',
             'mode requirements enforced': 'P', 'idempotent': 'P',
             'dict round trip (ru.TypedDict)': 'A',
             'function payload encode/decode (dill)': 'N',
             'slot format conversion': 'P (RO form) + B (all encodings, old -> new -> old)'})

PROPS['C20'] = dict(
    level='other',
    claim='raptor DefaultWorker._alloc/_dealloc verified for every occupancy vector and request size (count-based loop invariants, no bound): a grant names exactly the requested number of distinct free cells and marks only those; release is the inverse (round-trip lemma); grants are disjoint from cells held by other requests (lemma). DefaultWorker._request_cb: every request of a bulk is either started - only after a grant, which it keeps - or answered without a process, its grant given back and the error attached: exactly one (allocation waits modelled with an arbitrary environment step on the occupancy); DefaultWorker._result_cb: the grant is given back once, the request answered once with what the call produced, its process entry removed and no other. Master._result_cb: every returned request is handed on once with target state DONE iff it reported exit code 0, FAILED otherwise; Master._submit_tasks: every request of a bulk goes exactly one way, executable requests to the execution path of the pilot and every other mode to the workers. The per-mode dispatchers (function, eval, exec, process, shell: return value, captured output, exit code, exception record, environment and output streams restored) and whole request / completion histories are decided by bounded native runs of the real code (labelled bounded)',
    note='mp.Process / proc.start by assumed contract (a process is started or an exception is raised, nothing in between); the two-process time-out of _dispatch is outside this family; exec / eval / StringIO redirection are outside the verified subset, so the dispatchers are bounded only; demands beyond the worker size are outside the property (the except path of _request_cb would then fail in _dealloc: noted, not a finding)',
    assumptions=['A2', 'A4', 'A5', 'A7', 'A11'],
    trusted_base=['multiprocessing.Process: start() starts the child or raises (assumed)', 'ru.zmq.Putter.put delivers the answer (message transport)'],
    explanation='allocator functional contract + inverse lemma + disjointness lemmas; ghost counters of grants / releases and ghost logs of started and answered requests on _request_cb / _result_cb (per-request statement contract composed over the bulk); exit code -> target state as a postcondition of Master._result_cb; bounded native dispatch of request payloads and bounded native request histories',
    bounded=[dict(name='worker-dispatch', cmd=['harness/run_bounded.py', 'worker-dispatch'], timeout=600),
             dict(name='worker-histories', cmd=['harness/run_bounded.py', 'worker-histories'], timeout=600)],
    clauses={'never two requests on one core/GPU': 'P (allocator + lemmas) + B (histories)',
             'resources given back when a request finishes or fails': 'P (_result_cb, _request_cb error path; round trip lemma)',
             'resources given back on time-out': 'N (two processes)',
             'every accepted request started or answered exactly once (worker)': 'P per bulk + B (histories)',
             'exit code 0 -> DONE, otherwise FAILED; handed on once (master)': 'P (Master._result_cb)',
             'return value / output / exit code / exception per mode; environment and streams restored': 'B (worker-dispatch)',
             'routing by mode (Master._submit_tasks)': 'P (every request goes exactly one way: executable mode to the pilot path, every other mode to the workers)',
             'scheduler-side forwarding of raptor tasks (to the named master, spread over registered masters, parked; relayed on registration, failed when the master disappears): each task exactly one way': 'P per step + native histories in the replay builder'})

PROPS['C01'] = dict(
    level='other',
    claim='agent scheduler: the per-node search, the multi-node placement, marking and unmarking, the grant operation (_try_allocation: occupancy invariant preserved, only free cells handed out, exactly the named cells marked, lfs/mem debited within what the node has) and the node iterator are verified for every node list and request; lemmas: a held cell is never offered again, a rotation is a permutation; the recursive sums are justified by induction lemmas',
    note='application-level finder (resource_config.py): Node.find_slot / allocate_slot (unchecked form) / deallocate_slot are verified for every node and request (a slot names the requested number of distinct cells that had room and books exactly those shares; giving back is exact; blocked cells are skipped; the node stays within 0..1 per cell and within its lfs / mem); NodeList: the collecting loop of find_slots never overbooks a node, every slot is given back to the node whose index it names (site obligation at deallocate_slot, roll-back and release_slots), NodeList._get_node; the composition over whole histories (occupation == sum of the shares held) is checked by bounded native histories only (labelled bounded). Not under contract: the checked form of allocate_slot (slots built by the application by hand), _assert_rr / verify (assumed not to touch occupations), NumaNode, ContinuousJsrun, the agent-side td.slots branch of _schedule_incoming (covered natively by sched-histories); one genuine defect found and repaired here (node looked up by position instead of index)',
    bounded=[dict(name='app-placements', cmd=['harness/run_bounded.py', 'app-placements'], timeout=900)],
    assumptions=['A1', 'A2', 'A3', 'A4', 'A7', 'A8', 'A9', 'A11'],
    explanation='Inv_sched (distinct node indices, cells in {DOWN, FREE, BUSY}, lfs/mem >= 0) is preserved by the grant operation and by release; whole-view postconditions on _change_slot_states; property stated over operations (single-threaded scheduler loop)',
    clauses={'no core twice / GPU shares <= 1 / lfs, mem within node': 'P',
             'blocked (DOWN) cells never handed out': 'P',
             'every interleaving of grant / release operations (operation granularity)': 'P per operation + lemmas',
             'application-level finder: shares booked fit, exact give-back, blocked cells skipped (per operation)': 'P',
             'application-level finder: slot given back to the node it names': 'P (site obligation)',
             'application-level finder: occupation == sum of held shares over whole histories': 'B (app-placements)',
             'placement attached by the application arriving at the agent (td.slots)': 'B (sched-histories, C04)',
             'agent / service nodes excluded (RM)': 'see C18',
             'NumaNode / ContinuousJsrun': 'N (not built)'})

PROPS['C03'] = dict(
    level='other',
    claim='release is verified as the exact inverse of grant: _change_slot_states has whole-view postconditions (named cells marked, nothing else, lfs/mem moved by the per-node sums), lemma C03.roundtrip (grant then release restores every cell, lfs and mem), lemma C03.held-not-offered, and _unschedule_completed releases every received task once (one _active_cnt decrement and one unschedule per message)',
    note='exactly-one release message per granted task is the executor\'s half (C07); the transport between the two components is assumed; idle => initial capacity follows from the round-trip lemma by induction over the history (meta-level)',
    bounded=[dict(name='executor-ops', cmd=['harness/run_bounded.py', 'executor-ops'], timeout=600)],
    assumptions=['A1', 'A2', 'A3', 'A4', 'A5', 'A7', 'A8', 'A9', 'A11'],
    trusted_base=['mp.Queue get/put (stdlib): every message put is returned by exactly one get'],
    explanation='inverse lemma over the two contracts + per-message release',
    clauses={'release restores precisely what was taken': 'P',
             'nothing held is offered to another task': 'P',
             'one release per unschedule message': 'P',
             'exactly one message per granted task (executor)': 'C07',
             'application-placed tasks (td.slots branch)': 'not yet built'})

PROPS['C02'] = dict(
    level='proof',
    claim='Continuous.schedule_task and _find_resources verified for every node list, occupancy and request: a granted placement has exactly the requested ranks, every rank lies on one existing node with exactly the requested distinct free cores, GPU amount, lfs and mem; colocated tasks only on nodes used for the tag; per-rank needs above a node raise instead of shrinking',
    note='_iterate_nodes (a generator) by assumed contract: yields every node exactly once; ranks_per_node clause and the application-level finder (resource_config.Node) not yet under contract',
    assumptions=['A1', 'A2', 'A3', 'A4', 'A6', 'A8', 'A9', 'A11'],
    trusted_base=['Continuous._iterate_nodes (generator): assumed to yield a permutation of self.nodes'],
    explanation='shape postconditions of the two placement functions',
    clauses={'exact ranks / one node per rank / requested cores, GPUs, lfs, mem': 'P',
             'colocate history respected': 'P', 'oversized per-rank request rejected': 'P',
             'ranks_per_node limit': 'not yet stated', 'resource_config.Node.find_slot': 'not yet built'})

PROPS['C14'] = dict(
    level='proof',
    claim='pilot state progression function (functional spec), Pilot._update, PilotManager._update_pilot (unknown pilots ignored, never backward, a final state never left for a non-final one, callbacks non-decreasing and in order, gaps filled) verified for every notification; agent side: _check_lifetime / stop / _ctrl_cancel_pilots keep the termination cause (run time exceeded => timeout), and finalize maps cause to state exactly (timeout->DONE, cancel/sys.exit->CANCELED, else FAILED; finite check on the AST); client side launcher (PMGRLaunchingComponent.work): every pilot of a (resource, schema) bucket and no other is reported once, FAILED only if the bulk launch of its own bucket raised',
    note='bootstrap_0.sh reading killme.signal is shell code outside this family; the user callback loop inside Pilot._update is replaced by one ghost callback event (listed under dropped statements)',
    assumptions=['A2', 'A4', 'A5', 'A7', 'A9', 'A11'],
    trusted_base=['ru.dict_merge', 'AgentComponent.stop / Session.close (do not touch _final_cause)'],
    explanation='progress function + facade update + manager replay loop + cause bookkeeping',
    clauses={'only forward / gaps filled / unknown pilots ignored': 'P',
             'final never left for non-final': 'P',
             'DONE iff ran until its run time, CANCELED iff canceled, else FAILED (agent side)': 'P',
             'a pilot is failed by the launcher only if the launch of its own bucket raised': 'P',
             'bootstrap_0.sh': 'N'})

PROPS['C17'] = dict(
    level='other',
    claim='(a) every shipped platform entry (63, re-read on every run), with the ResourceConfig defaults applied, names a resource manager, launch methods, scheduler, executor and agent configuration that exist in the factories / on disk, has a defined default schema and well-formed schemas; the factory key sets and classes are read from the AST: decided exhaustively. (b) the node-count arithmetic of _prepare_pilot (fragment): an explicit node count is kept; a derived one covers the requested cores and GPUs with the cores / GPUs available per node and is the smallest that does; no usable core count with an explicit node count is refused',
    note='blocked cores / SMT scaling before the fragment, backup nodes, and the hand-over of the same figures to the agent configuration and the job description are not under contract (the rest of _prepare_pilot: 400 lines of file system and configuration plumbing); they are exercised by a bounded native run of the real _prepare_pilot over every shipped platform (labelled bounded)',
    bounded=[dict(name='pilot-sizing', cmd=['harness/run_bounded.py', 'pilot-sizing'], timeout=600)],
    assumptions=['A1', 'A2', 'A11'],
    explanation='finite obligation family over the shipped configuration files x factories',
    clauses={'every platform x schema resolves to existing code': 'P (finite, exhaustive)',
             'smallest number of whole nodes covering cores/GPUs': 'P (fragment); backup nodes not covered',
             'usable cores = cores x SMT - blocked; backup nodes; agent told the same figures': 'B (every shipped platform x 6-8 sizes)'})

PROPS['C18'] = dict(
    level='other',
    claim='node list construction (_get_node_list: one entry per allocated node, indices = positions, configured cores/GPUs all free), uniform core count (_get_cores_per_node), blocked-core/GPU marking (fragment of _init_from_scratch: exactly the listed indices DOWN on every node), and _filter_nodes (never empty, never longer than requested, a sub-list of the allocated nodes, agent and service nodes set aside and pairwise disjoint) are verified for every node list; lemma C01.init: the resulting list satisfies the scheduler invariant',
    bounded=[dict(name='node-files', cmd=['harness/run_bounded.py', 'node-files'], timeout=600)],
    note='node-file parsing (_parse_nodefile: file I/O) is exercised by a bounded run over generated node files only; of the per-batch-system init_from_scratch functions Slurm is under contract (a configured node size is kept whatever the batch system reports; one node per allocated host, in order), LSF, PBSPro, Torque, Cobalt, Fork ... and the registry hand-over to other components are not; the ssh probe in _filter_nodes is replaced by an arbitrary order-preserving sub-list (listed under dropped statements)',
    assumptions=['A1', 'A2', 'A3', 'A4', 'A8', 'A11'],
    trusted_base=['ru.sh_callout / Process (ssh probe): modelled as an arbitrary sub-list of the node list'],
    explanation='contracts on the RM base class functions that build and reduce the node list',
    clauses={'unique indices, configured cores / GPUs, blocked marked': 'P',
             'agent / service nodes excluded; never empty; not longer than requested': 'P',
             'node-file / scheduler-specific parsing': 'not yet built',
             'same list seen by every component (registry)': 'A'})

PROPS['C12'] = dict(
    level='other',
    claim='client-side binding for the round-robin scheduler: _assign_pilot (bound to exactly that pilot, recorded once), _update_pilot_states, control_cb (roles on add / remove, early-bound tasks forwarded when their pilot is added and not kept for a second forwarding), work (named tasks go to the named pilot or wait for it), RoundRobin.add_pilots / remove_pilots / _work / _schedule_tasks (tasks wait while no pilot is eligible, every unnamed task is bound to a currently added pilot and forwarded exactly once, consecutive round-robin order); Backfilling._schedule_tasks (at the binding site the pilot is listed, ADDED, in an eligible state and below its high-water mark; every waiting task stays waiting unchanged or is forwarded exactly once), update_tasks (usage given back once per finished task and only for a task of that pilot), add_pilots (a re-added pilot keeps its books), remove_pilots, _work: verified for every history step; forwarding is a ghost event log',
    note='the load-balance corollary (consecutive cyclic assignment => loads differ by at most one) and "the usage figure returns to zero when all tasks of a pilot have finished" (the sum over a history: + cores at each binding, - the same cores once per finished task, both proved per step) are checked by bounded native histories only; Backfilling.update_pilots not under contract',
    bounded=[dict(name='bf-histories', cmd=['harness/run_bounded.py', 'bf-histories'], timeout=900)],
    assumptions=['A2', 'A4', 'A5', 'A7', 'A9', 'A10', 'A11'],
    trusted_base=['Session._get_*_sandbox, ru.Url (sandbox derivation): arbitrary values'],
    explanation='operation-granularity contracts with a ghost forwarding log; data-structure invariant rr_inv (listed pilots are ADDED and bound)',
    clauses={'named task goes to the named pilot / waits until it is added': 'P',
             'unnamed task bound to a currently added pilot, never a removed one': 'P',
             'forwarded exactly once (incl. remove + re-add)': 'P',
             'wait while no eligible pilot': 'P',
             'round robin loads differ by at most one': 'B (consecutive order P, corollary by native histories)',
             'backfilling: only eligible pilots below their high-water mark': 'P (obligation at the binding site)',
             'backfilling: usage returns to zero': 'P per step (added once, given back once) + B (histories)'})

_OP = ('operation granularity: each critical section / handler is one atomic operation (A7, CPython GIL for the single shared accesses outside the lock); '
       'the interleaving argument is the token discipline: a finish needs the token, the token is obtained only by deleting the uid from _tasks under _check_lock after finding it there, an atomic test-and-delete that at most one thread can win')

PROPS['C07'] = dict(
    level='other',
    claim='Popen executor: every function that can finish a task (_check_running, cancel_task, work error path) is verified against a token discipline on _tasks: the release of a task is requested and the task handed on only by the thread that removed its uid from _tasks inside _check_lock (or before the process was spawned), every token taken is consumed by exactly one release + one hand-on, execution start is announced once per accepted task; ' + _OP,
    note='_handle_task/_launch_task (script generation, subprocess spawn) by assumed contract: raises only before the process exists; watcher-thread liveness and the timeout thread are not under contract; NOOP executor not built',
    bounded=[dict(name='executor-ops', cmd=['harness/run_bounded.py', 'executor-ops'], timeout=600)],
    assumptions=['A2', 'A4', 'A5', 'A7', 'A8', 'A9', 'A11'],
    trusted_base=['Popen._handle_task (assumed contract)', 'subprocess.Popen poll/wait', 'LaunchMethod.cancel_task'],
    explanation='ghost token set + finish log; per-operation postconditions',
    clauses={'execution start announced once': 'P', 'handed on / released at most once per obtained token': 'P',
             'never both canceled and collected (token is exclusive)': 'P at operation level + atomicity argument (A7)',
             'never left behind (every token is consumed)': 'P per operation; watcher liveness N',
             'launch error: released once, handed on as FAILED': 'P under the assumed _handle_task contract (raises only before the process exists) + B (executor-ops: an error after the process exists)'})

PROPS['C08'] = dict(
    level='other',
    claim='cancel handling: BaseComponent.is_canceled (exactly the named tasks are reported CANCELED once and the request consumed, others untouched), the executor\'s cancel command (only named uids are passed to cancel_task, bystanders keep their entry and are not finished), Popen.cancel_task (finishes only a task the executor still owns, once, as CANCELED; everything else untouched) are verified for every state; a placed task canceled at the executor intake is released once (AgentExecutingComponent.is_canceled, defect repaired)',
    note='the raptor backlog branch of the scheduler control_cb is under contract (control_cb#raptor-cancel: named tasks leave their backlog and are canceled, bystanders stay); end-to-end composition across components is assumed (message transport)',
    assumptions=['A2', 'A4', 'A5', 'A7', 'A9', 'A11'],
    explanation='frame contracts at each component; the finding recorded earlier (intake cancel leaks the placement) is repaired',
    clauses={'named task met later is canceled instead of processed': 'P',
             'kill running process, resources freed exactly once, ends CANCELED unless finished': 'P (operation level)',
             'bystanders unaffected at the executor': 'P',
             'placed task canceled at the executor intake releases its placement': 'P (AgentExecutingComponent.is_canceled; genuine defect repaired by fix 27e59b0)',
             'wait pool removal (scheduler): named waiting tasks leave the pool and are canceled once, bystanders stay': 'P',
             'raptor backlog (scheduler control_cb): named parked tasks are canceled and leave the backlog, bystanders stay': 'P',
             'a late cancel at launch is acted on only after the task is queued for the watcher (Popen._launch_task)': 'P'})

PROPS['C04'] = dict(
    level='other',
    claim='the agent scheduler loop (agent/scheduler/base.py) under contract, function by function: work() queues every task handed in exactly once; _schedule_incoming is verified in its parts - cancel branch, intake of a bulk (fail / schedule here / forward to raptor: exactly one), placement loop over priorities (each task started with a placement, failed, canceled or waiting under its priority: exactly one; every report is the first for its task; every started task is counted in _active_cnt), entry into the wait pool with the late cancel check; _schedule_waitpool (every waiting task keeps waiting unchanged or is started / failed, nothing enters or is lost, pools are tried in strictly decreasing priority; ru.lazy_bisect by assumed contract A13); the main loop of _schedule_tasks (a release is followed by a wait-pool scan in the next iteration); _try_allocation fails a task for lack of resources only when nothing is running; all obligations discharged for every bulk, pool and node list. Starvation / promptness / priority clauses over whole runs are decided by a bounded native search over histories of the real loop (labelled bounded); one recorded finding (partition tasks)',
    note='the composition of the parts into whole runs (incoming queue -> wait pool -> release queue over time) is explored only by the bounded native histories; schedule_task completeness ("a task that fits the free resources is placed") is not proved, so "started as soon as enough is released" is proved only up to "the wait pool is re-scanned in the iteration after a release, highest priority first"; tasks that arrive with a placement attached (description.slots) are excluded from the placement contract by precondition and covered natively only; the raptor backlog is not under contract',
    assumptions=['A2', 'A4', 'A5', 'A7', 'A9', 'A10', 'A11', 'A12', 'A13'],
    trusted_base=['BaseComponent.advance: sets thing["state"], publishes and pushes as told (A12)', 'radical.utils.lazy_bisect: partitions its input by the outcome of the check callable, at most one call per element (A13)'],
    explanation='ghost fate map (uid -> none / started / failed / canceled): every advance to AGENT_EXECUTING_PENDING, FAILED or CANCELED carries the obligation that the task had no fate yet; per-fragment contracts composed through statement contracts',
    bounded=[dict(name='sched-histories', cmd=['harness/run_bounded.py', 'sched-histories'], timeout=900)],
    clauses={'exactly one of started / waiting / failed / canceled (per function)': 'P',
             'reported at most once': 'P',
             'started only with a placement, pushed on': 'P',
             'failed for lack of resources only on an idle pilot (_active_cnt == 0)': 'P',
             'waiting alone is started as soon as enough is released': 'P: release => wait-pool scan in the next iteration; B for the placement itself',
             'idle pilot starts a fitting waiter; fitting task never failed': 'B (bounded histories); KNOWN FINDING for partition tasks',
             'failed if it cannot fit even the idle pilot': 'P when _try_allocation is asked (raises only with nothing running) + B; KNOWN FINDING: lazy_bisect may not ask (thorough tier)',
             'higher priority first': 'P for the order in which pools are tried (_schedule_waitpool) + B (bounded histories)',
             'no pool is skipped: a ready waiting task gets a placement attempt in every pass unless a higher-priority one was tried and still waits': 'P',
             'interleaving of cancel requests between loop steps': 'P at the queue boundary (cancel arrives as a queue item) + B'})

PROPS['C09'] = dict(
    level='other',
    claim='launch commands as a function of the placement: for FORK, SSH, RSH, CCMRUN, APRUN and MPIRUN (plain, MPT, host list and host file) the generated command is proved equal to the launcher\'s command-line form instantiated with exactly the ranks and node names of the placement (ranks -> -n / -np, nodes in placement order -> host list or host file), the method refuses what it cannot start (SSH/RSH: not exactly one rank; FORK.can_launch: more than one rank, MPI, foreign node), and get_launch_cmds leaves the launcher object unchanged (frame obligation), so earlier generations cannot influence a command; all obligations discharged for every placement. MPIEXEC (rank file / host file flavours, PALS), SRUN, PRTE and IBRUN are checked by a bounded native enumeration of placements with a reader for each launcher\'s command line (labelled bounded)',
    note='that the command-line forms mean what the readers / postconditions take them to mean is an assumption on the external launchers (A14); JSRUN (old slot structure fed by its own scheduler), FLUX and DRAGON (service based) are not covered; core / GPU pinning is checked only where the bounded readers see it (rank files)',
    assumptions=['A2', 'A4', 'A9', 'A10', 'A11', 'A14'],
    trusted_base=['radical.utils.create_hostfile: writes the list it is given (the list is what is checked)'],
    explanation='postcondition: result == <command grammar>(placement); frame: modifies nothing of self; bounded native enumeration for the launchers outside the subset',
    bounded=[dict(name='lm-placements', cmd=['harness/run_bounded.py', 'lm-placements'], timeout=900)],
    clauses={'as many processes as ranks': 'P (fork ssh rsh ccmrun aprun mpirun) / B (mpiexec srun prte ibrun)',
             'exactly the nodes of the placement': 'P (ssh rsh mpirun) / B (mpiexec srun prte); aprun, ccmrun, ibrun name no nodes',
             'cores / GPUs where the method can pin': 'B (mpiexec rank file) / not decided elsewhere',
             'depends only on the task at hand': 'P (frame: launcher object unchanged) for the six; B (replayed after other generations) for all',
             'refuses instead of a command for another process count': 'P (ssh rsh fork) / B'})

PROPS['C11'] = dict(
    level='other',
    claim='staging directives: expand_staging_directives (dictionary form: what is given is kept, target defaults to the base name of the source, action to the documented default; short form: source and target are read on the right sides of > >> < <<, in that precedence; one directive out per directive in), complete_url (a schema the context names is placed below the location the context gives, file:// and unknown schemas are left alone, a host on a sandbox schema is refused), the dispatch loop of the agent input stager (every directive with a local action - copy, link, move, tarball, download - is carried out by exactly one operation, the tarball is the one the client pushed into the task sandbox) and the triage loop of the client output stager (a task is staged iff it ended DONE or asked for stage_on_error and has transfer directives) are proved for all inputs. That files then exist with the source\'s content is decided by a bounded native run of the real stagers on a temporary file tree (labelled bounded). Two genuine defects were found and repaired (tarball never unpacked; stage_on_error ignored on the client side)',
    note='the file system, cp / link / move and tar themselves are outside any contract here; the client input stager (_handle_task: tar creation, transfer) is covered by the bounded run only; of the agent output stager the triage loop is under contract (each task of a bulk is failed, passed on or staged with exactly its own copy / link / move directives), its staging operations by the bounded run; of the client output stager the triage loop and the reporting statements are under contract; remote (SAGA) endpoints cannot be exercised in the sandbox',
    assumptions=['A2', 'A4', 'A9', 'A10', 'A11', 'A15'],
    trusted_base=['radical.utils.Url (parsing a text into schema / host / path): uninterpreted', 'os.path.basename / exists / isdir / join: uninterpreted', 'StagingHelper backends (cp -r, os.link, shutil.move, tarfile)'],
    explanation='function-against-spec contracts on the URL / directive functions; ghost operation log for the dispatch loop; bounded end-to-end run',
    bounded=[dict(name='staging-e2e', cmd=['harness/run_bounded.py', 'staging-e2e'], timeout=900)],
    clauses={'short form and dictionary form expand to the same directive shape with documented defaults': 'P',
             'URLs denote the documented locations (client, resource, session, pilot, task sandbox; relative paths)': 'P (complete_url) + B',
             'every action is carried out (transfer, copy, link, move, tarball)': 'P (agent dispatch) + B (files exist with content)',
             'outputs of a failed task only with stage_on_error': 'P (client and agent triage loops) + B',
             'a task of a bulk is staged with exactly its own directives (agent output stager)': 'P + B (bulk of three tasks)',
             'a directive that cannot be carried out fails that task only': 'B'})

PROPS['C10'] = dict(
    level='other',
    claim='the pieces the launch and exec scripts are assembled from are proved to put the described values into the right slots, for every task: LaunchMethod.get_exec / _create_arg_string (the described executable followed by every described argument, quoted once, in order), _get_exec (that command is run once, waited for, its exit code kept in RP_RET), _get_launch (the launch command once, stdout / stderr redirected to the described files, exit code kept), _get_prep_exec (every pre / post command guarded by `|| rp_error`, i.e. a failing one ends the script before what follows; list form), _get_rp_env (every RP_* variable carries the documented value: ids, sandboxes, cores / GPUs per rank, registry and control publisher / subscriber addresses). That bash, given the assembled scripts, reproduces argv, environment, working directory, stdio files, ordering, per-rank entries and exit codes is decided by executing generated scripts (bounded). Two genuine defects were found and repaired (RP_CONTROL_SUB_ADDRESS, double quotes in environment values)',
    note='strings are identifiers in the contracts (A15): what bash does with the text is only observed by the bounded run; variable references ($X, `cmd`) in arguments and environment values are expanded by the shell by design (ru.sh_quote / double quotes) and are not part of the bounded inputs; per-rank dictionaries in pre_exec / post_exec, _get_task_env and the assembly order in _create_exec_script / _create_launch_script are covered by the bounded run only; only the FORK launch method runs in the sandbox',
    assumptions=['A2', 'A4', 'A9', 'A10', 'A11', 'A15', 'A16'],
    trusted_base=['/bin/bash', 'radical.utils.sh_quote (uninterpreted in the contracts; exercised by the bounded run)'],
    explanation='function-against-spec contracts: result == the documented text over the task; bounded execution of generated scripts with a probe executable',
    bounded=[dict(name='task-scripts', cmd=['harness/run_bounded.py', 'task-scripts'], timeout=900)],
    clauses={'described executable with exactly the described argument list': 'P (text) + B (argv observed)',
             'described environment variables': 'B',
             'RP_* variables describing the task': 'P (_get_rp_env) + B',
             'stdout / stderr in the described files': 'P (_get_launch) + B',
             'pre before, post after, per-rank entries on their rank': 'B (P for the guard of each command)',
             'failing pre_exec prevents the executable; exit code is the executable\'s unless pre/post failed': 'P (guards, RP_RET) + B'})

PROPS['C05'] = dict(
    level='other',
    claim='per-component truthfulness clauses: a collected process outcome becomes DONE iff exit code 0 and FAILED (with exit code) otherwise (Popen._check_running); a launch error fails that task only and releases it (Popen.work); raptor results: DONE iff exit code 0, every result handed on once even if the user callback raises (Master._result_cb); FAILED / CANCELED advances on agent and client side set the target state, are published and never pushed (AgentComponent.advance / ClientComponent.advance); a work routine that raises fails the things of its own bulk only and does not take the component down (BaseComponent.work_cb, dispatch loop): all obligations discharged',
    note='global liveness ("reaches exactly one final state while the pilot is alive") and the delivery order of messages are outside this family; the cancel filter inside work_cb is excluded by precondition (empty cancel list; is_canceled is under contract separately); tmgr staging_output advances a staged task twice (same state; not part of the property)',
    assumptions=['A2', 'A4', 'A5', 'A7', 'A9', 'A11'],
    explanation='outcome -> state mappings per function',
    clauses={'DONE only if exit code 0; FAILED with exit code otherwise': 'P',
             'launch error -> FAILED for that task only': 'P (assumed _handle_task contract)',
             'FAILED/CANCELED handed back published, not pushed': 'P',
             'CANCELED only if cancellation or timeout requested': 'partly (cancel sites under contract: is_canceled, cancel_task)',
             'work routine failure contained (work_cb): the failing bulk is failed with the exception recorded, published, not pushed; nothing escapes': 'P',
             'reaches exactly one final state (liveness)': 'N'})

#!/bin/sh
# verifies that the tools the checks need are present; compiles nothing
set -e
python3-vt -c "import z3; print('z3py', z3.get_version_string())"
/venv/bin/python -c "import radical.utils; print('radical.utils ok')"
/usr/bin/cvc5 --version | head -1

#!/bin/sh
# tools/seedtest.sh <PROP> <seed dir with patch.diff demo.py meta.json> <name>
# confirm a seeded change in a scratch worktree, then run the check against /repo with it applied
set -u
P=$1; SRC=$2; NAME=$3
D=/verif/seeded/$NAME
mkdir -p $D; cp $SRC/patch.diff $SRC/demo.py $SRC/meta.json $D/ 2>/dev/null
W=/tmp/seedconfirm_$NAME
git -C /repo worktree add -q $W HEAD || exit 9
echo "== unchanged tree: demo"; (cd $W && SEED_ROOT=$W timeout 300 /venv/bin/python $D/demo.py >/tmp/seed_demo_before.txt 2>&1; echo "rc=$?"; tail -2 /tmp/seed_demo_before.txt)
git -C $W apply $D/patch.diff || { echo "patch does not apply"; git -C /repo worktree remove --force $W; exit 8; }
echo "== with change: demo"; (cd $W && SEED_ROOT=$W timeout 300 /venv/bin/python $D/demo.py >/tmp/seed_demo_after.txt 2>&1; echo "rc=$?"; tail -3 /tmp/seed_demo_after.txt)
echo "== with change: py_compile + baseline tests (against the worktree)"
(cd $W && for f in $(git diff --name-only); do /venv/bin/python -m py_compile $f || echo COMPILE-FAIL $f; done)
git -C /repo worktree remove --force $W
echo "== apply to /repo, baseline tests, run check $P"
git -C /repo apply $D/patch.diff || exit 7
(cd /repo && /venv/bin/python -m pytest -q -p no:cacheprovider --timeout=900 --continue-on-collection-errors 2>&1 | tail -1)
(cd /verif && ./check $P > $D/check_output.txt 2>&1; echo "check rc=$?"; grep -c "^VIOLATION" $D/check_output.txt; grep "^VIOLATION\|^UNDECIDED\|^CHECKER" $D/check_output.txt | head -5 | cut -c1-220)
git -C /repo checkout -- . ; rm -f /repo/rm_info.json
git -C /repo status --short | head -3

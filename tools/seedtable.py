#!/usr/bin/env python3
"""tools/seedtable.py: regenerate the seeded-changes table of DESIGN.md (section 0.6)
from seeded/*/meta.json (between the markers <!-- seeds:begin --> / <!-- seeds:end -->)"""
import glob, json, os, re
rows = []
for d in sorted(glob.glob('/verif/seeded/*/')):
    m = json.load(open(d + 'meta.json'))
    c = m.get('confirmed', {})
    needs = re.sub(r'\s+', ' ', (m.get('needs') or '')).strip()
    needs = needs[:170] + ('…' if len(needs) > 170 else '')
    note = re.sub(r'\s+', ' ', (c.get('note') or 'caught at once')).strip()
    head = note[:60]
    first = 'missed' if ('MISSED' in head or 'NOT caught' in note or 'passed' in note.split(';')[0]
                         or ('not under' in note.lower() and 'first run' in note.lower() and 'caught on first run' not in head)) else \
            ('undecided' if 'UNDECIDED' in note.split(';')[0] else 'caught')
    rows.append('| %s | %s | %s | %s |' % (os.path.basename(d[:-1]), needs.replace('|', '/'), first, note.replace('|', '/')[:420]))
table = '| seed | what it needs to manifest | first run | what catches it now |\n|---|---|---|---|\n' + '\n'.join(rows) + '\n'
n = len(rows)
miss = sum(1 for r in rows if '| missed |' in r)
und = sum(1 for r in rows if '| undecided |' in r)
summary = ('%d seeded changes, all exit 1 with a VIOLATION line now.  On their first run %d were caught, %d were undecided (exit 2) '
           'and %d passed (exit 0); every miss was followed by putting the function concerned under contract, adding a clause, '
           'or extending a bounded stand-in, as the last column says.\n\n' % (n, n - miss - und, und, miss))
p = '/verif/DESIGN.md'
s = open(p).read()
b, e = '<!-- seeds:begin -->', '<!-- seeds:end -->'
if b in s:
    s = s[:s.index(b) + len(b)] + '\n' + summary + table + s[s.index(e):]
    open(p, 'w').write(s)
print(summary)

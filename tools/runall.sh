#!/bin/sh
# run every claimed check (quick tier unless $1 given) and validate manifest + evidence
cd "$(dirname "$0")/.."
tier=${1:-quick}
rc=0
for id in $(python3 -c "import json;print(' '.join(c['property_id'] for c in json.load(open('MANIFEST.json'))['checks']))"); do
  out=$(./check $id --tier $tier 2>&1); r=$?
  echo "$id rc=$r $(echo "$out" | tail -1 | cut -c1-150)"
  [ $r -ne 0 ] && { echo "$out" | head -5 | cut -c1-250; rc=1; }
done
python3-vt - <<'PY'
import json, jsonschema, sys
m = json.load(open('MANIFEST.json'))
jsonschema.validate(m, json.load(open('/root/.vp/MANIFEST.schema.json')))
es = json.load(open('/root/.vp/EVIDENCE.schema.json'))
for c in m['checks']:
    e = json.load(open(c['evidence_file']))
    jsonschema.validate(e, es)
    cov = e['coverage']
    if e['level'] == 'proof' and cov['obligations'] != cov['discharged']:
        print('EVIDENCE', c['property_id'], 'discharged != obligations'); sys.exit(1)
    if e['level'] != c['level_claimed']['category']:
        print('LEVEL MISMATCH', c['property_id'], e['level'], c['level_claimed']['category'])
print('manifest + evidence valid')
PY
exit $rc

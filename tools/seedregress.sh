#!/bin/sh
# tools/seedregress.sh [jobs]: re-run every seeded change on a scratch copy of /repo/src
# (VERIF_REPO, as the self-test does) and require exit 1 with a VIOLATION line.
# Prints one line per seed; scratch copies live under /tmp and are removed.
J=${1:-6}
cd /verif
ls seeded | xargs -P $J -I{} sh -c '
  n={}; p=$(echo $n | cut -d- -f1)
  d=$(mktemp -d /tmp/seedreg_XXXXXX)
  mkdir -p $d/src && cp -r /repo/src/radical $d/src/ && cp -r /repo/.git $d/.git 2>/dev/null
  if (cd $d && git apply /verif/seeded/$n/patch.diff 2>/dev/null); then
    out=$(cd /verif && VERIF_REPO=$d VERIF_SELFTEST=1 timeout 1500 ./check $p 2>&1); rc=$?
    v=$(echo "$out" | grep -c "^VIOLATION")
    echo "$n rc=$rc violations=$v $(echo "$out" | grep "^VIOLATION" | head -1 | cut -c1-140)"
  else
    echo "$n PATCH-DOES-NOT-APPLY"
  fi
  rm -rf $d'

#!/usr/bin/env python3
"""regenerate MANIFEST.json from props.py (claimed checks) and
properties.jsonl (everything not claimed goes to not_applicable with a reason)"""
import json, os, sys
HERE = os.path.dirname(os.path.dirname(os.path.abspath(__file__)))
sys.path.insert(0, HERE)
from props import PROPS, ASSUMPTIONS, NOT_CLAIMED

TECH = ('contract-based deductive verification: sidecar contracts on the real '
        'functions, VCs generated from the AST of /repo on every run, discharged '
        'by z3 (cvc5 for what z3 leaves open); counterexamples replayed natively')
props = [json.loads(l) for l in open(os.path.join(HERE, 'properties.jsonl'))]
checks, na = [], []
for p in props:
    pid = p['id']
    if pid in PROPS and PROPS[pid].get('claim'):
        c = PROPS[pid]
        note = '; '.join(ASSUMPTIONS[a] for a in c.get('assumptions', []))
        if c.get('note'): note = c['note'] + ' | ' + note
        checks.append({
            'property_id': pid,
            'quick_cmd': './check %s --tier quick' % pid,
            'thorough_cmd': './check %s --tier thorough' % pid,
            'evidence_file': 'evidence/%s.json' % pid,
            'replay_cmd_template': './check %s --replay {path}' % pid,
            'engine': 'pyvc',
            'level_claimed': {'category': c.get('level', 'proof'),
                              'text': c['claim'],
                              'design_ref': 'DESIGN.md section 8 (%s)' % pid},
            'level_note': note,
            'technique': c.get('technique', TECH)})
    else:
        na.append({'property_id': pid,
                   'reason': NOT_CLAIMED.get(pid, 'not built yet (see DESIGN.md section 9)')})
m = {'version': 1, 'setup_cmd': './setup.sh',
     'hooks': {'guard': 'RADICAL_PILOT_VERIF',
               'enable': 'no hooks: contracts are sidecar files under /verif/specs; nothing in /repo is instrumented',
               'baseline_off_cmd': 'cd /repo && /venv/bin/python -m pytest -ra -q -p no:cacheprovider --timeout=900 --continue-on-collection-errors',
               'source_commits': [], 'add_only': True},
     'engines': [{'name': 'pyvc', 'path': 'pyvc/',
                  'serves_properties': [c['property_id'] for c in checks],
                  'kind_free_text': 'in-house VC generator: symbolic execution of the Python AST of the real functions against sidecar contracts (specs/), obligations discharged by z3 / cvc5; native replay harness under harness/'}],
     'checks': checks,
     'notes': 'exit codes of ./check: 0 held, 1 violation (VIOLATION line), 2 undecided, 3 checker error. VERIF_REPO names the tree (default /repo). Known findings: known_findings.json.',
     'not_applicable': na}
json.dump(m, open(os.path.join(HERE, 'MANIFEST.json'), 'w'), indent=1)
print('claimed:', [c['property_id'] for c in checks])

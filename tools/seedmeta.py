#!/usr/bin/env python3
"""tools/seedmeta.py <seed name> <note>: record my own confirmation of a seeded change in its meta.json"""
import json, sys, re
name, note = sys.argv[1], sys.argv[2]
d = '/verif/seeded/%s/' % name
m = json.load(open(d + 'meta.json'))
out = open(d + 'check_output.txt').read()
viol = [l for l in out.splitlines() if l.startswith('VIOLATION')]
m['confirmed'] = dict(
    what_i_ran='tools/seedtest.sh: demo.py on a scratch worktree of /repo HEAD (PASS, rc 0), git apply patch.diff, demo.py (FAIL, rc 1), py_compile of changed files, patch applied to /repo: baseline pytest 95 passed (unchanged), ./check <id> quick, git checkout -- .',
    check_exit=1 if viol else 0, violations_reported=len(viol),
    first_violation=viol[0][:200] if viol else None, note=note)
json.dump(m, open(d + 'meta.json', 'w'), indent=1)
print(name, 'violations', len(viol))

"""pyvc.solve -- discharge obligations: z3 (in process), cvc5 CLI for what z3
leaves open; extraction of counter-models as python data."""

import os
import subprocess
import time
import fractions

import z3

from . import core as C
from .core import (Val, PyTuple, PyDict, TInt, TReal, TBool, TStr, TAny, TNone,
                   TOpt, TList, TRec, TMap, TSet, TTuple)

OUT = os.path.join(os.path.dirname(os.path.dirname(os.path.abspath(__file__))),
                   'out')


_SEED = [0]


def _solver(timeout_ms):
    s = z3.Solver()
    s.set('timeout', timeout_ms)
    if _SEED[0]:
        # a retry: z3's divergence on a valid query usually depends on the seed
        s.set('random_seed', _SEED[0])
    return s


_STUCK = [False]


def _check(sv, budget_s, watch=None):
    '''sv.check() with a hard wall-clock guard.  z3 honours its `timeout` parameter
    cooperatively and can overrun it by minutes in some preprocessing phases; the
    check therefore runs in a thread, is interrupted at 1.5 x budget + 1 s (or when
    `watch()` becomes true: another back end has answered), and is abandoned if it
    does not come back within 3 more seconds.  After an abandoned check the z3
    context of this process is not used again (_STUCK); the caller solves every
    obligation in its own forked process, so the thread dies with it.'''
    import threading
    if _STUCK[0]:
        return z3.unknown
    box = []
    th = threading.Thread(target=lambda: box.append(sv.check()), daemon=True)
    th.start()
    hard = time.time() + 1.5 * budget_s + 1.0
    interrupted = False
    while th.is_alive():
        th.join(0.05)
        if not th.is_alive():
            break
        if time.time() > hard or (watch is not None and watch()):
            interrupted = True
            try: sv.ctx.interrupt()
            except Exception: pass
            th.join(3.0)
            break
    if th.is_alive():
        _STUCK[0] = True
        return z3.unknown
    if interrupted:
        # an interrupt that arrived after the check had finished stays pending on
        # the context and would cancel the next check: absorb it
        for _ in range(3):
            try:
                if z3.Solver(ctx=sv.ctx).check() == z3.sat:
                    break
            except Exception:
                break
    if interrupted:
        # whatever a check reports after it has been interrupted is not trusted (a
        # `sat` for a valid lemma obligation was seen exactly in this situation)
        return z3.unknown
    return box[0] if box else z3.unknown


def solve_obligation(o, timeout_s=10, dump_dir=None, inputs=None,
                     use_cvc5=True, allow_refute=True):
    '''sets o.status in {discharged, failed, unknown}, o.backend, o.time_s,
    o.model (python data for the inputs, when failed)'''
    t0 = time.time()
    s = _solver(int((2 if o.kind == 'canary' else timeout_s) * 1000))
    for a in C.str_axioms(): s.add(a)
    for h in o.hyps:         s.add(h)
    s.add(z3.Not(o.goal))
    smt2 = None
    if dump_dir:
        os.makedirs(dump_dir, exist_ok=True)
        smt2 = os.path.join(dump_dir, _fname(o.name) + '.smt2')
        try:
            with open(smt2, 'w') as f:
                f.write('; %s\n(set-logic ALL)\n' % o.name)
                f.write(s.to_smt2().replace('(set-info :status unknown)\n', ''))
        except Exception:
            smt2 = None
    r = z3.unknown
    strategy = 'all'
    refuted = False
    if o.kind != 'canary' and allow_refute:
        # refutation fallback, decided first (while no z3 check can have got stuck yet) and
        # used only if everything below leaves the obligation open: do the hypotheses
        # entail the NEGATION of the goal?  Then the obligation fails in every state
        # that reaches this point - unless the hypotheses are inconsistent (an
        # infeasible path, where both queries are unsat and the obligation is vacuous)
        s3 = _solver(10000)
        for a in C.str_axioms(): s3.add(a)
        for h in o.hyps: s3.add(h)
        s3.add(o.goal)
        _r3 = _check(s3, 10)
        if os.environ.get('PYVC_DEBUG_SOLVE'): print('DBG refute', _r3, _STUCK, flush=True)
        if _r3 == z3.unsat:
            s4 = _solver(8000)
            for a in C.str_axioms(): s4.add(a)
            for h in o.hyps: s4.add(h)
            if _check(s4, 8) == z3.unsat:
                r = z3.unsat
                strategy = 'infeasible path (hypotheses inconsistent)'
            else:
                refuted = True
    if o.kind != 'canary' and r == z3.unknown:
        # most obligations are immediate with all hypotheses
        s0 = _solver(int(max(3.0, timeout_s / 10.0) * 1000))
        for a in C.str_axioms(): s0.add(a)
        for h in o.hyps: s0.add(h)
        s0.add(z3.Not(o.goal))
        r = _check(s0, max(3.0, timeout_s / 10.0))
        if r == z3.sat:
            s = s0
    early = None          # cvc5 on the full query, started as soon as z3's quick attempt fails
    def _early_unsat():
        if early is not None and early.poll() is not None:
            out = (early.stdout.read() or '').strip().split('\n')[0]
            early_box.append(out)
            return out == 'unsat'
        return False
    early_box = []
    def _early_definite():
        '''cvc5 has answered sat / unsat (an error or `unknown` of cvc5 is no reason to
        stop z3)'''
        if early is not None and not early_box and early.poll() is not None:
            early_box.append((early.stdout.read() or '').strip().split('\n')[0])
        return bool(early_box) and early_box[0] in ('sat', 'unsat')
    _dbg = os.environ.get('PYVC_DEBUG_SOLVE')
    if _dbg: print('DBG quick done %.1f' % (time.time() - t0), r, flush=True)
    if o.kind != 'canary' and r == z3.unknown and use_cvc5 and smt2:
        try:
            early = subprocess.Popen(['/usr/bin/cvc5', '--tlimit=%d' % int(timeout_s * 1000),
                                      '--lang=smt2', smt2], stdout=subprocess.PIPE,
                                     stderr=subprocess.DEVNULL, text=True)
        except Exception:
            early = None
    if o.kind != 'canary' and r == z3.unknown:
        # goal-directed pruning: a proof from a subset of the hypotheses is a
        # proof.  Quantified hypotheses that share no symbol with the goal
        # (transitively, `depth` steps) are left out first.
        cands = []
        gs = symbols(o.goal)
        if not any(n.startswith(('sum!', 'count!')) for n in gs):
            # the goal does not speak about recursive sums: leave the sum
            # definitions, unfoldings and sum lemmas out
            cands.append(('no-sum-facts', [h for h in o.hyps if not any(
                n.startswith(('sum!', 'count!')) for n in symbols(h))]))
        for depth in (1, 2):
            cands.append(('relevant-hyps(depth %d)' % depth,
                          relevant_hyps(o.hyps, o.goal, depth)))
        # a conjunctive goal: each conjunct from the hypotheses that speak about it
        conj, todo = [], [o.goal]
        while todo:
            x = todo.pop()
            if z3.is_and(x): todo.extend(x.children())
            else: conj.append(x)
        if len(conj) > 1 or True:
            ok = True
            for gpart in conj:
                _t2 = time.time()
                sub = focused_hyps(o.hyps, gpart, getattr(o, 'n_axioms', 0))
                if sub is None:
                    ok = False; break
                sp = _solver(int(max(min(timeout_s, 4), timeout_s / 5.0) * 1000))
                for a in C.str_axioms(): sp.add(a)
                for h in sub: sp.add(h)
                sp.add(z3.Not(gpart))
                _t1 = time.time()
                _r1 = _check(sp, max(min(timeout_s, 4), timeout_s / 5.0),
                             watch=_early_definite)
                if _r1 != z3.unsat and early_box and early_box[0] == 'unsat':
                    r = z3.unsat
                    strategy = 'cvc5'
                    ok = False
                    cands = []
                    break
                if _dbg: print('DBG   conjunct %d hyps: %s in %.1f (focus %.1f)' % (len(sub), _r1, time.time() - _t1, _t1 - _t2), flush=True)
                if _r1 != z3.unsat:
                    ok = False; break
            if ok:
                r = z3.unsat
                strategy = 'focused-hyps per conjunct (%d conjuncts)' % len(conj)
                cands = []
        if _dbg: print('DBG focused done %.1f' % (time.time() - t0), r, flush=True)
        for label, sub in cands:
            if sub is None or len(sub) == len(o.hyps):
                continue
            if _dbg: print('DBG cand %s %.1f' % (label, time.time() - t0), flush=True)
            if _early_definite() and early_box[0] == 'unsat':
                r = z3.unsat
                strategy = 'cvc5'
                break
            depth = label
            sp = _solver(int(max(min(timeout_s, 4), timeout_s / 5.0) * 1000))
            for a in C.str_axioms(): sp.add(a)
            for h in sub: sp.add(h)
            sp.add(z3.Not(o.goal))
            if _check(sp, max(min(timeout_s, 4), timeout_s / 5.0),
                      watch=_early_definite) == z3.unsat:
                r = z3.unsat
                strategy = '%s: %d of %d hypotheses' % (
                           label, len(sub), len(o.hyps))
                break
    cvc5_early = None
    if _dbg: print('DBG strategies done %.1f' % (time.time() - t0), r, early_box, flush=True)
    if r == z3.unknown:
        # the full attempt: z3 with every hypothesis, and cvc5 on the dumped
        # query at the same time (whoever answers first decides; they never
        # disagree on a definite answer, an `unknown` of one is not an answer)
        proc = None
        if early is not None and not early_box:
            proc = early                      # still running: keep waiting for it below
        elif early_box:
            proc = None                       # it has answered (not unsat): z3 alone
            if early_box[0] == 'sat': cvc5_early = 'sat'
        elif use_cvc5 and smt2 and o.kind != 'canary':
            try:
                proc = subprocess.Popen(['/usr/bin/cvc5', '--tlimit=%d' % int(timeout_s * 1000),
                                         '--lang=smt2', smt2], stdout=subprocess.PIPE,
                                        stderr=subprocess.DEVNULL, text=True)
            except Exception:
                proc = None
        if proc is None:
            r = _check(s, timeout_s)
        else:
            def _answered():
                if proc.poll() is not None and not early_box:
                    out = (proc.stdout.read() or '').strip().split('\n')[0]
                    early_box.append(out)
                return bool(early_box) and early_box[0] in ('sat', 'unsat')
            r = _check(s, timeout_s, watch=_answered)
            if early_box and early_box[0] in ('sat', 'unsat'):
                cvc5_early = early_box[0]
            if proc.poll() is None:
                if r in (z3.sat, z3.unsat):
                    proc.kill()
                else:
                    try:
                        out = (proc.communicate(timeout=timeout_s + 5)[0] or '').strip().split('\n')[0]
                        if out in ('sat', 'unsat'): cvc5_early = out
                    except Exception:
                        proc.kill()
            elif cvc5_early is None and not early_box:
                out = (proc.stdout.read() or '').strip().split('\n')[0]
                if out in ('sat', 'unsat'): cvc5_early = out
            if cvc5_early == 'unsat' and r != z3.sat:
                r = z3.unsat
                strategy = 'cvc5'
            use_cvc5 = use_cvc5 and cvc5_early is None and False
    if early is not None and early.poll() is None:
        try: early.kill()
        except Exception: pass
    o.backend = 'z3-%s' % z3.get_version_string()
    if strategy == 'cvc5':
        o.backend = 'cvc5-1.0.3'
    o.strategy = strategy
    if r == z3.unsat:
        o.status = 'discharged'
    elif r == z3.sat:
        o.status = 'failed'
        if inputs is not None:
            try:
                o.model = model_to_py(s.model(), inputs)
            except Exception as e:
                o.model = {'!extraction-error': repr(e)}
    else:
        o.status = 'unknown'
        o.reason = s.reason_unknown()
        if o.kind == 'canary':
            # not refutable within the budget: the hypotheses are not (cheaply)
            # inconsistent, which is what the canary is for
            o.status = 'failed'
            o.backend += ' (unknown: not refuted)'
            o.time_s = time.time() - t0
            return o
        if cvc5_early == 'sat':
            o.status, o.backend = 'failed', 'cvc5-1.0.3'
        elif use_cvc5 and smt2:
            r2 = run_cvc5(smt2, timeout_s)
            if r2 == 'unsat':
                o.status, o.backend = 'discharged', 'cvc5-1.0.3'
            elif r2 == 'sat':
                o.status, o.backend = 'failed', 'cvc5-1.0.3'
        if o.status == 'unknown' and allow_refute:
            # refutation without a model: if the hypotheses *entail the negation*
            # of the goal, the obligation fails in every state that reaches this
            # point (the hypotheses themselves were not found inconsistent: the
            # query with the negated goal did not come back unsat)
            if refuted:
                o.status = 'failed'
                o.refuted_only = True
                o.reason = 'the hypotheses entail the negation of the goal (refuted on every input reaching this point)'
                o.backend = 'z3-%s (negation proved)' % z3.get_version_string()
        if o.status == 'unknown':
            # candidate counter-model: drop the quantified hypotheses.  A model
            # of the weaker query is NOT a proof of failure; it is only used
            # as input for the native replay.
            from .symexec import has_quant
            s2 = _solver(int(min(timeout_s, 5) * 1000))
            for a in C.str_axioms(): s2.add(a)
            for h in o.hyps:
                if not has_quant(h): s2.add(h)
            if not has_quant(o.goal):
                s2.add(z3.Not(o.goal))
                if _check(s2, min(timeout_s, 5)) == z3.sat and inputs is not None:
                    try:
                        o.model = model_to_py(s2.model(), inputs)
                        o.candidate = True
                    except Exception:
                        pass
    o.time_s = time.time() - t0
    o.smt2 = smt2
    return o


_sym_cache = dict()


def symbols(e):
    """names of the uninterpreted constants / functions occurring in e"""
    k = e.get_id()
    if k in _sym_cache:
        return _sym_cache[k]
    out, todo, seen = set(), [e], set()
    while todo:
        x = todo.pop()
        i = x.get_id()
        if i in seen: continue
        seen.add(i)
        if z3.is_quantifier(x):
            todo.append(x.body()); continue
        if z3.is_app(x):
            d = x.decl()
            if d.kind() == z3.Z3_OP_UNINTERPRETED:
                n = d.name()
                if not n.startswith('str!') or n.startswith('str!fmt'):
                    out.add(n)
            todo.extend(x.children())
    _sym_cache[k] = out
    return out


_DEF_PREFIX = ('slice!', 'cat!', 'comp!', 'dcomp!', 'dlast!', 'set!', 'setupd!', 'sorted!', 'perm!', 'pinv!',
               'keys!', 'values!', 'items!', 'removed!', 'fidx!', 'fpos!')


def focused_hyps(hyps, goal, n_axioms=0):
    '''the hypotheses that speak only about what the goal speaks about: start
    from the goal's symbols, close them under the definitional axioms of the
    derived values among them (hyps[:n_axioms]: concatenations, comprehensions,
    sorted copies ..: an axiom about a derived value the set mentions brings in
    what that value is derived from), keep a quantified hypothesis (conjunct) iff
    all its symbols are in that set'''
    from .symexec import has_quant
    rel = set(symbols(goal))
    if not rel:
        return None
    axs = [(h, symbols(h)) for h in hyps[:n_axioms]]
    changed = True
    while changed:
        changed = False
        for h, hs in axs:
            if not hs <= rel and any(n.startswith(_DEF_PREFIX) for n in hs & rel):
                rel |= hs
                changed = True
    flat = []
    for h in hyps:
        todo = [h]
        while todo:
            x = todo.pop()
            if z3.is_and(x): todo.extend(x.children())
            else: flat.append(x)
    # bridges: a fact that relates exactly two values (x == y, element-wise
    # equality of two lists ..) brings in the other one
    fs = [(h, symbols(h)) for h in flat]
    for _ in range(2):
        for h, hs in fs:
            if len(hs) == 2 and len(hs & rel) == 1:
                rel |= hs
        changed = True
        while changed:
            changed = False
            for h, hs in axs:
                if not hs <= rel and any(n.startswith(_DEF_PREFIX) for n in hs & rel):
                    rel |= hs
                    changed = True
    return [h for h, hs in fs if not has_quant(h) or (hs and hs <= rel)]


def relevant_hyps(hyps, goal, depth):
    from .symexec import has_quant
    rel = set(symbols(goal))
    if not rel:
        # goal is `False` (a path that must be infeasible): what matters are
        # the latest facts of the path (the condition that leads there)
        for h in hyps[-4:]:
            rel |= symbols(h)
    chosen = [False] * len(hyps)
    quant = [has_quant(h) for h in hyps]
    for _ in range(depth):
        added = False
        for i, h in enumerate(hyps):
            if chosen[i] or not quant[i]:
                continue
            hs = symbols(h)
            if hs & rel:
                chosen[i] = True
                added = True
        for i, h in enumerate(hyps):
            if chosen[i]:
                rel |= symbols(h)
        if not added:
            break
    return [h for i, h in enumerate(hyps) if chosen[i] or not quant[i]]


def _cli_unsat(path, budget_s):
    '''is the query in `path` unsat?  z3 and cvc5 as processes, side by side, with hard
    time limits; `unsat` from either one decides'''
    procs = []
    for cmd in (['z3-new', '-T:%d' % int(budget_s), path],
                ['/usr/bin/cvc5', '--tlimit=%d' % int(budget_s * 1000), '--lang=smt2', path]):
        try:
            procs.append(subprocess.Popen(cmd, stdout=subprocess.PIPE, stderr=subprocess.DEVNULL, text=True))
        except Exception:
            pass
    end = time.time() + budget_s + 5
    ans = False
    live = list(procs)
    while live and time.time() < end and not ans:
        for p in list(live):
            if p.poll() is not None:
                live.remove(p)
                out = (p.stdout.read() or '').strip().split('\n')[0]
                if out == 'unsat':
                    ans = True
        time.sleep(0.05)
    for p in procs:
        if p.poll() is None:
            try: p.kill()
            except Exception: pass
    return ans


def run_cvc5(path, timeout_s):
    try:
        p = subprocess.run(['/usr/bin/cvc5', '--tlimit=%d' % int(timeout_s * 1000),
                            '--lang=smt2', path],
                           capture_output=True, text=True,
                           timeout=timeout_s + 5)
        out = p.stdout.strip().split('\n')[0] if p.stdout else ''
        if out in ('sat', 'unsat'):
            return out
    except Exception:
        pass
    return 'unknown'


def _fname(name):
    return ''.join(c if c.isalnum() or c in '-_.@#' else '_' for c in name)[:180]


# ------------------------------------------------------------------------------
# models -> python data
#
def model_to_py(model, inputs, cap=6):
    out = dict()
    for name, v in inputs.items():
        if not isinstance(v, Val) or isinstance(v, (PyTuple, PyDict)):
            continue
        try:
            out[name] = val_to_py(model, v, cap)
        except Exception as e:
            out[name] = '<%s>' % e
    return out


def val_to_py(model, v, cap=6):
    ty = v.ty
    if ty == TNone:
        return None
    t = v.term
    ev = lambda x: model.eval(x, model_completion=True)
    if ty == TInt:
        return ev(t).as_long()
    if ty == TBool:
        return z3.is_true(ev(t))
    if ty == TReal:
        r = ev(t)
        if z3.is_rational_value(r):
            f = fractions.Fraction(r.numerator_as_long(), r.denominator_as_long())
            return float(f) if f.denominator != 1 else float(f.numerator)
        if z3.is_algebraic_value(r):
            return float(r.approx(10).as_fraction())
        return float(str(r))
    if ty == TStr:
        return C.str_of_model_value(model, t)
    if ty == TAny:
        return '<any:%s>' % ev(t)
    if isinstance(ty, TOpt):
        if z3.is_true(ev(ty.is_none(t))):
            return None
        return val_to_py(model, Val(ty.elem, ty.val(t)), cap)
    if isinstance(ty, TList):
        n = ev(ty.len(t)).as_long()
        items = [val_to_py(model, Val(ty.elem, z3.Select(ty.arr(t), i)), cap)
                 for i in range(max(0, min(n, cap)))]
        if n > cap:
            items.append('<... %d more>' % (n - cap))
        return items
    if isinstance(ty, TRec):
        return {f: val_to_py(model, Val(ft, ty.get(t, f)), cap)
                for f, ft in ty.fields.items()}
    if isinstance(ty, TTuple):
        return [val_to_py(model, Val(et, ty.get(t, i)), cap)
                for i, et in enumerate(ty.elems)]
    if isinstance(ty, (TMap, TSet)):
        ks   = ty.k
        keys = candidate_keys(model, ks)
        dom  = ty.dom(t) if isinstance(ty, TMap) else t
        out  = dict() if isinstance(ty, TMap) else list()
        for kt in keys:
            if z3.is_true(ev(z3.Select(dom, kt))):
                kp = val_to_py(model, Val(ks, kt), cap)
                if isinstance(ty, TMap):
                    out[_hashable(kp)] = val_to_py(model,
                              Val(ty.v, z3.Select(ty.val(t), kt)), cap)
                else:
                    out.append(kp)
        return out
    return '<%s>' % ty


def _hashable(k):
    if isinstance(k, list): return tuple(k)
    if isinstance(k, dict): return str(k)
    return k


def candidate_keys(model, ks):
    if ks == TStr:
        univ = model.get_universe(C.StrSort) or []
        return list(univ)
    if ks == TInt:
        return [z3.IntVal(i) for i in range(-2, 12)]
    if ks == TBool:
        return [z3.BoolVal(True), z3.BoolVal(False)]
    if isinstance(ks, TOpt) and ks.elem == TStr:
        univ = model.get_universe(C.StrSort) or []
        return [ks.none()] + [ks.some(u) for u in univ]
    return []

"""pyvc.symexec -- symbolic execution of the real function's AST and generation
of verification conditions (obligations).

A function is executed once per combination of parameter-type alternatives.
States fork at branches whose outcome is not decided by the path condition and
are merged again at joins when their environments have the same shape.  Loops
are cut by the invariants given in the sidecar spec; calls are replaced by the
callee's contract.
"""

import ast
import builtins

import z3

from . import core as C
from .core import (Val, PyTuple, PyDict, NONE, NOPY, OutsideSubset, SpecError,
                   TInt, TReal, TBool, TStr, TAny, TNone, TPy, TOpt, TList,
                   TRec, TMap, TSet, TTuple, TUnion, lift, fresh, truthy, eq,
                   coerce, join_ty, OptOf)
from .frontend import ModuleEnv, Unknown, _attr_chain


# ------------------------------------------------------------------------------
#
class Ref:
    '''alias of a sub-object: root variable + selector path'''
    __slots__ = ('root', 'path')

    def __init__(self, root, path):
        self.root, self.path = root, tuple(path)

    def same(self, other):
        if not isinstance(other, Ref) or self.root != other.root or \
           len(self.path) != len(other.path):
            return False
        for a, b in zip(self.path, other.path):
            if a[0] != b[0]:
                return False
            if a[0] in ('f', 't', 'o'):
                if a[1:] != b[1:]:
                    return False
            elif not a[1].eq(b[1]):
                return False
        return True

    def __repr__(self):
        return 'Ref(%s%s)' % (self.root, ''.join('[%s]' % (p[1:],)
                                                  for p in self.path))


class _Stale:
    '''loop variable that may not be used after its loop was exhausted'''
    def __repr__(self): return '<stale>'


STALE = _Stale()


class Obligation:
    def __init__(self, name, kind, hyps, goal, lineno=None, note=''):
        self.name, self.kind, self.hyps, self.goal = name, kind, hyps, goal
        self.lineno, self.note = lineno, note
        self.status, self.backend, self.time_s = None, None, 0.0
        self.model = None
        self.at = dict()        # state at the obligation (plain values)
        self.variant = ''

    def __repr__(self):
        return '<obl %s %s %s>' % (self.kind, self.name, self.status)


# kinds which state the property (a failure is a VIOLATION), as opposed to
# proof-internal steps (a failure without replay is UNDECIDED)
PROPERTY_KINDS = {'post', 'lemma', 'exc-post', 'raises', 'frame', 'dsinv'}


class State:
    def __init__(self):
        self.pc      = list()      # assumptions (z3 Bool), conjunctive
        self.env     = dict()      # name -> Val | Ref | STALE
        self.bound   = dict()      # name -> z3 Bool (maybe-unbound locals)
        self.guards  = list()      # short-circuit guards during expression eval
        self.old     = None        # entry snapshot: dict name -> Val
        self.trace   = list()      # branch decisions (for reports)
        self.rebound = set()       # parameters re-assigned (no longer the caller's object)
        self.handling = None       # exception class being handled (for bare `raise`)
        self.heads   = dict()      # loop ordinal -> env snapshot at loop head
        self.qvars   = dict()      # quantifier-bound variables in scope

    def fork(self):
        s = State()
        s.pc, s.env, s.bound = list(self.pc), dict(self.env), dict(self.bound)
        s.guards, s.old, s.trace = list(self.guards), self.old, list(self.trace)
        s.heads, s.qvars = dict(self.heads), dict(self.qvars)
        s.rebound = set(self.rebound)
        s.handling = self.handling
        return s

    def assume(self, c):
        if z3.is_true(c):
            return
        if self.guards:
            c = z3.Implies(z3.And(*self.guards), c)
        self.pc.append(c)


# ------------------------------------------------------------------------------
#
class Executor:

    def __init__(self, spec, registry, fsrc, modenv, opts=None):
        self.spec     = spec
        self.reg      = registry
        self.fsrc     = fsrc
        self.modenv   = modenv
        self.opts     = opts or dict()
        self.obls     = list()
        self.exits    = list()       # pending exceptional exits
        self.specmode = 0
        self.inline_safety = 0       # side conditions found infeasible inline
        self.n_paths  = 0
        self.axioms   = list()       # global facts (comprehension axioms ...)
        self._solver  = z3.Solver()
        self._solver.set('timeout', 250)
        self.loop_path = list()      # current loop ordinal path
        self.loop_cnt  = [0]
        self.variant   = ''          # parameter-type alternative label
        self.notes     = list()
        self.cur_line  = None
        self.ghost_hooks = spec.get('ghost', [])
        self.feas_calls = 0
        self.specmode_lemma_only = False
        self.assigned_locals = set()
        for _n in fsrc.body:
            for _sub in ast.walk(_n):
                if isinstance(_sub, ast.Name) and isinstance(_sub.ctx, ast.Store):
                    self.assigned_locals.add(_sub.id)
        self.defined = dict()       # fresh constant -> constants it is defined from
        from .loops import number_loops
        self.loop_ord = number_loops(fsrc.body)

    # --------------------------------------------------------------------------
    # solver helpers
    #
    def check(self, st, extra=None):
        '''sat / unsat / unknown of pc (+ extra)'''
        self.feas_calls += 1
        s = self._solver
        s.push()
        try:
            # quantified facts are left out: pruning with a subset of the
            # hypotheses is sound (unsat subset => unsat), and fast
            for a in C.str_axioms(): s.add(a)
            for a in self.axioms:
                if not has_quant(a): s.add(a)
            for a in st.pc:
                if not has_quant(a): s.add(a)
            if extra is not None:    s.add(extra)
            return s.check()
        finally:
            s.pop()

    def check_cover(self, st):
        '''the satisfiability check behind a vacuity guard.  The quick feasibility
        budget (250 ms) can run out on a busy machine, and z3 can answer `unknown`
        on its own account (incomplete arithmetic; the answer varies with the
        names the terms happen to have got in this worker process).  `unknown` is
        therefore retried: longer budgets, other random seeds, then cvc5 on the
        dumped query.  Only `unsat` means vacuous.'''
        r = self.check(st)
        if r != z3.unknown:
            return r
        def fresh_solver(budget, seed):
            s = z3.Solver()
            s.set('timeout', budget)
            s.set('random_seed', seed)
            for a in C.str_axioms(): s.add(a)
            for a in self.axioms:
                if not has_quant(a): s.add(a)
            for a in st.pc:
                if not has_quant(a): s.add(a)
            return s
        for budget, seed in ((5000, 0), (5000, 1), (10000, 2), (30000, 3)):
            s = fresh_solver(budget, seed)
            r = s.check()
            if r != z3.unknown:
                return r
        try:
            import subprocess, tempfile, os as _os
            fd, path = tempfile.mkstemp(suffix='.smt2', prefix='cover_')
            with _os.fdopen(fd, 'w') as f:
                f.write('(set-logic ALL)\n' + fresh_solver(1000, 0).to_smt2().replace('(set-info :status unknown)\n', ''))
            out = subprocess.run(['/usr/bin/cvc5', '--tlimit=30000', '--lang=smt2', path],
                                 capture_output=True, text=True, timeout=40).stdout.strip().split('\n')[0]
            if out in ('sat', 'unsat'):
                _os.remove(path)
            else:
                import shutil as _sh
                _sh.move(path, '/verif/out/cover_unknown_%d.smt2' % _os.getpid())
            if out == 'sat':   return z3.sat
            if out == 'unsat': return z3.unsat
        except Exception:
            pass
        return r

    def feasible(self, st, extra=None):
        return self.check(st, extra) != z3.unsat

    def oblige(self, st, name, goal, kind, note=''):
        if self.specmode:
            return
        if z3.is_true(goal):
            goal = z3.BoolVal(True)
        full = '%s/%s%s' % (self.spec['short'], name,
                            ('@' + self.variant) if self.variant else '')
        # make names unique
        base, n = full, 1
        names = {o.name for o in self.obls}
        while full in names:
            n += 1
            full = '%s#%d' % (base, n)
        if st.guards:
            goal = z3.Implies(z3.And(*st.guards), goal)
        ax = self.path_axioms(st, goal)
        hyps = ax + list(st.pc)
        o = Obligation(full, kind, hyps, goal, self.cur_line, note)
        o.n_axioms = len(ax)          # hyps[:n_axioms] are definitional axioms
        o.variant = self.variant
        o.trace = list(st.trace)
        o.heads = dict(st.heads)
        if kind != 'canary':
            for k, v in st.env.items():
                if isinstance(v, Val) and not isinstance(v, (PyTuple, PyDict)) \
                   and v.ty not in (TPy,) and not k.startswith('tmp!'):
                    o.at[k] = v
        self.obls.append(o)

    def path_axioms(self, st, goal):
        """the axioms (definitional facts about fresh terms: slices,
        concatenations, unfoldings ...) that belong to this path: an axiom is
        kept iff every fresh constant it mentions occurs on the path.  Leaving
        the others out is sound (fewer hypotheses)."""
        known = set()
        for h in st.pc:
            known |= anchors(h)
        known |= anchors(goal)
        # results of slices / concatenations / comprehensions / set and key
        # views are *derived* constants: an axiom about a derived constant
        # belongs to the path if that constant (or another derived constant of
        # the same axiom) is on the path and everything else it mentions is
        pending = [(a, anchors(a)) for a in self.axioms]
        out = []
        progress = True
        while progress:
            progress = False
            rest = []
            for a, an in pending:
                der = {c for c in an if c.split('!')[0] in _DERIVED}
                if (an - der) <= known and (not der or der & known):
                    out.append(a)
                    if not der <= known:
                        known |= der
                    progress = True
                else:
                    rest.append((a, an))
            pending = rest
        return out

    def fail(self, st, cond, exc):
        '''python raises `exc` when `cond`; afterwards not cond is assumed'''
        if self.specmode:
            return
        if z3.is_false(cond):
            return
        g = z3.And(*(st.guards + [cond])) if st.guards else cond
        r = self.check(st, g)
        if r == z3.unsat:
            self.inline_safety += 1
            return
        ex = st.fork()
        ex.guards = []
        ex.pc.append(g)
        self.exits.append((exc, ex, self.cur_line))
        st.assume(z3.Not(cond))

    # --------------------------------------------------------------------------
    # environment / heap
    #
    def get_var(self, st, name):
        if name not in st.env:
            return None
        v = st.env[name]
        if name in st.bound:
            self.fail(st, z3.Not(st.bound[name]), 'UnboundLocalError')
        if v is STALE:
            raise OutsideSubset('loop variable %s used after its loop was '
                                'exhausted' % name)
        if isinstance(v, Ref):
            return self.read_path(st, v.root, v.path)
        return v

    def read_path(self, st, root, path):
        v = st.env[root]
        if isinstance(v, Ref):
            return self.read_path(st, v.root, v.path + tuple(path))
        for sel in path:
            v = self.select(v, sel)
        return v

    def select(self, v, sel):
        kind = sel[0]
        ty   = v.ty
        if kind == 'o':
            if isinstance(ty, TOpt):
                return Val(ty.elem, ty.val(v.term))
            return v
        if kind == 'f':
            if isinstance(v, PyDict):
                return v.items[sel[1]]
            if isinstance(ty, TRec):
                return Val(ty.fields[sel[1]], ty.get(v.term, sel[1]))
        if kind == 'i':
            if isinstance(v, PyTuple):
                idx = z3.simplify(sel[1])
                if z3.is_int_value(idx):
                    return v.items[idx.as_long()]
                raise OutsideSubset('symbolic index into literal sequence')
            if isinstance(ty, TList):
                return Val(ty.elem, z3.Select(ty.arr(v.term), sel[1]))
        if kind == 'k':
            if isinstance(ty, TMap):
                return Val(ty.v, z3.Select(ty.val(v.term), sel[1]))
        if kind == 't':
            if isinstance(v, PyTuple):
                return v.items[sel[1]]
            if isinstance(ty, TTuple):
                return Val(ty.elems[sel[1]], ty.get(v.term, sel[1]))
        raise OutsideSubset('select %s on %s' % (sel, v))

    def update(self, v, path, new):
        '''functional update of v at path'''
        if not path:
            if isinstance(v, (PyTuple, PyDict)) or v.ty == TNone:
                return new
            return coerce(new, v.ty) if v.ty != new.ty else new
        sel, rest = path[0], path[1:]
        ty = v.ty
        kind = sel[0]
        if kind == 'o':
            inner = self.update(Val(ty.elem, ty.val(v.term)), rest, new)
            return Val(ty, ty.some(inner.term))
        if kind == 'f':
            if isinstance(v, PyDict):
                items = dict(v.items)
                if rest:
                    items[sel[1]] = self.update(items[sel[1]], rest, new)
                else:
                    items[sel[1]] = new
                return PyDict(items)
            if isinstance(ty, TRec):
                if sel[1] not in ty.fields:
                    raise OutsideSubset('record %s has no field %r'
                                        % (ty, sel[1]))
                fty = ty.fields[sel[1]]
                if rest:
                    inner = self.update(Val(fty, ty.get(v.term, sel[1])),
                                        rest, new)
                else:
                    inner = coerce(new, fty)
                return Val(ty, ty.set(v.term, sel[1], inner.term))
        if kind == 'i' and isinstance(ty, TList):
            if rest:
                inner = self.update(Val(ty.elem, z3.Select(ty.arr(v.term),
                                                           sel[1])), rest, new)
            else:
                inner = coerce(new, ty.elem)
            return Val(ty, ty.mk(z3.Store(ty.arr(v.term), sel[1], inner.term),
                                 ty.len(v.term)))
        if kind == 'k' and isinstance(ty, TMap):
            if rest:
                inner = self.update(Val(ty.v, z3.Select(ty.val(v.term),
                                                        sel[1])), rest, new)
                dom = ty.dom(v.term)
                if isinstance(ty, C.TDefMap):
                    dom = z3.Store(dom, sel[1], z3.BoolVal(True))
            else:
                inner = coerce(new, ty.v)
                dom = z3.Store(ty.dom(v.term), sel[1], z3.BoolVal(True))
            return Val(ty, ty.mk(z3.Store(ty.val(v.term), sel[1], inner.term),
                                 dom))
        if kind == 't' and isinstance(v, PyTuple):
            items = list(v.items)
            items[sel[1]] = self.update(items[sel[1]], rest, new) if rest \
                            else new
            return PyTuple(items, v.is_list)
        raise OutsideSubset('update %s on %s' % (sel, v))

    def write_path(self, st, root, path, new):
        cur = st.env.get(root)
        if isinstance(cur, Ref):
            return self.write_path(st, cur.root, cur.path + tuple(path), new)
        if not path:
            declared = self.local_type(root)
            if declared is not None:
                new = coerce(new, declared)
            st.env[root] = new
            st.bound.pop(root, None)
            return
        if cur is None or cur is STALE:
            raise OutsideSubset('write through unbound %s' % root)
        st.env[root] = self.update(cur, path, new)

    def local_type(self, name):
        t = self.spec.get('locals', {}).get(name)
        if t is None and name in self.spec.get('self', {}) :
            t = self.spec['self'][name]
        if t is None and name.startswith('self.'):
            t = self.spec.get('self', {}).get(name[5:])
        return t

    # --------------------------------------------------------------------------
    # paths (lvalues / aliases)
    #
    def ev_path(self, node, st, for_write=False):
        '''(root, path) if node is a path expression, else None'''
        if isinstance(node, ast.Name):
            if node.id not in st.env:
                return None
            v = st.env[node.id]
            if isinstance(v, Ref):
                return v.root, v.path
            return node.id, ()
        if isinstance(node, ast.Attribute):
            if isinstance(node.value, ast.Name) and node.value.id == 'self' \
               and 'self' not in st.env:
                root = 'self.' + node.attr
                if root in st.env or for_write:
                    return root, ()
                return None
            base = self.ev_path(node.value, st)
            if base is None:
                return None
            root, path = base
            bv = self.read_path(st, root, path)
            path = path + self._auto_unwrap(st, bv)
            bv = self._unwrapped(bv)
            if isinstance(bv.ty, TRec) or isinstance(bv, PyDict):
                attr = node.attr
                if isinstance(bv.ty, TRec):
                    attr = getattr(self.reg, 'rec_props', {}) \
                               .get(bv.ty.name, {}).get(attr, attr)
                return root, path + (('f', attr),)
            return None
        if isinstance(node, ast.Subscript):
            base = self.ev_path(node.value, st, for_write)
            if base is None:
                return None
            if isinstance(node.slice, ast.Slice):
                return None
            root, path = base
            if root not in st.env:
                return None
            bv = self.read_path(st, root, path)
            path = path + self._auto_unwrap(st, bv)
            bv = self._unwrapped(bv)
            idx = self.ev(node.slice, st)
            sel = self.selector(st, bv, idx, for_write)
            return root, path + (sel,)
        return None

    def _auto_unwrap(self, st, bv):
        if isinstance(bv.ty, TOpt):
            self.fail(st, bv.ty.is_none(bv.term), 'TypeError')
            return (('o',),)
        return ()

    def _unwrapped(self, bv):
        if isinstance(bv.ty, TOpt):
            return Val(bv.ty.elem, bv.ty.val(bv.term))
        return bv

    def selector(self, st, bv, idx, for_write=False):
        '''selector for bv[idx] including python's failure conditions'''
        ty = bv.ty
        if isinstance(bv, PyDict):
            if not idx.has_py():
                raise OutsideSubset('symbolic key into literal dict')
            if idx.py not in bv.items and not for_write:
                self.fail(st, z3.BoolVal(True), 'KeyError')
            return ('f', idx.py)
        if isinstance(ty, TRec):
            if not idx.has_py():
                raise OutsideSubset('symbolic key into record %s' % ty)
            if idx.py not in ty.fields:
                raise OutsideSubset('record %s has no field %r (spec mismatch)'
                                    % (ty, idx.py))
            return ('f', idx.py)
        if isinstance(bv, PyTuple):
            if idx.has_py() and isinstance(idx.py, int):
                n = len(bv.items)
                i = idx.py
                if i < -n or i >= n:
                    self.fail(st, z3.BoolVal(True), 'IndexError')
                    return ('t', 0)
                return ('t', i % n)
            raise OutsideSubset('symbolic index into literal sequence')
        if isinstance(ty, TList):
            i = self.as_int(st, idx)
            ln = ty.len(bv.term)
            self.fail(st, z3.Or(i >= ln, i < -ln), 'IndexError')
            if idx.has_py() and idx.py >= 0:
                return ('i', i)
            if self.specmode:
                # the spec language only indexes from the front
                return ('i', i)
            # python's negative indices: only encoded where the index can in
            # fact be negative (keeps select terms usable as triggers)
            g = z3.And(*(st.guards + [i < 0])) if st.guards else (i < 0)
            if self.check(st, g) == z3.unsat:
                return ('i', i)
            return ('i', z3.If(i < 0, i + ln, i))
        if isinstance(ty, TMap):
            k = coerce(idx, ty.k)
            if not for_write and not isinstance(ty, C.TDefMap):
                self.fail(st, z3.Not(z3.Select(ty.dom(bv.term), k.term)),
                          'KeyError')
            return ('k', k.term)
        if isinstance(ty, TTuple):
            if idx.has_py():
                return ('t', idx.py)
        raise OutsideSubset('subscript on %s' % (bv,))

    def as_int(self, st, v):
        if v.ty == TInt:  return v.term
        if v.ty == TBool: return coerce(v, TInt).term
        if isinstance(v.ty, TOpt) and v.ty.elem == TInt:
            self.fail(st, v.ty.is_none(v.term), 'TypeError')
            return v.ty.val(v.term)
        raise OutsideSubset('integer expected, got %s' % (v,))

    # --------------------------------------------------------------------------
    # expressions
    #
    def ev(self, node, st):
        m = getattr(self, 'ev_' + type(node).__name__, None)
        if m is None:
            raise OutsideSubset('expression %s' % type(node).__name__)
        return m(node, st)

    def ev_Constant(self, node, st):
        return lift(node.value)

    def ev_Name(self, node, st):
        name = node.id
        v = self.get_var(st, name)
        if v is not None:
            return v
        return self.global_name(name, st)

    def global_name(self, name, st):
        if self.specmode and name in self.reg.consts:
            c = self.reg.consts[name]
            if isinstance(c, ModuleEnv): return ModRef(c)
            return lift(c)
        consts = self.spec.get('consts', {})
        if name in consts:
            return lift(consts[name])
        if name in ('True', 'False', 'None'):
            return lift({'True': True, 'False': False, 'None': None}[name])
        g = self.modenv.lookup(name)
        if isinstance(g, ModuleEnv):
            return ModRef(g)
        if not isinstance(g, Unknown):
            return lift(g)
        if self.specmode and name in self.reg.consts:
            return lift(self.reg.consts[name])
        raise OutsideSubset('name %s is not a local, parameter or '
                            'module constant (%s)' % (name, g))

    def ev_Attribute(self, node, st):
        if isinstance(node.value, ast.Name) and node.value.id == 'self' \
           and 'self' not in st.env:
            attr = self.spec.get('props', {}).get(node.attr, node.attr)
            root = 'self.' + attr
            v = self.get_var(st, root)
            if v is not None:
                return v
            raise OutsideSubset('self.%s is not declared in the spec'
                                % node.attr)
        base = self.ev(node.value, st)
        return self.get_attr(base, node.attr, st)

    def get_attr(self, base, attr, st):
        if isinstance(base, ModRef):
            g = base.mod.lookup(attr)
            if isinstance(g, ModuleEnv): return ModRef(g)
            if isinstance(g, Unknown):
                raise OutsideSubset('%s.%s is not a constant'
                                    % (base.mod.rel, attr))
            return lift(g)
        ty = base.ty
        if isinstance(ty, TOpt):
            self.fail(st, ty.is_none(base.term), 'AttributeError')
            base = Val(ty.elem, ty.val(base.term))
            ty = base.ty
        if isinstance(ty, TRec):
            attr = getattr(self.reg, 'rec_props', {}).get(ty.name, {}) \
                                                     .get(attr, attr)
            if attr in ty.fields:
                return Val(ty.fields[attr], ty.get(base.term, attr))
            raise OutsideSubset('record %s has no field %s' % (ty, attr))
        if isinstance(base, PyDict) and attr in base.items:
            return base.items[attr]
        raise OutsideSubset('attribute %s of %s' % (attr, base))

    def ev_Subscript(self, node, st):
        base = self.ev(node.value, st)
        if isinstance(node.slice, ast.Slice):
            return self.ev_slice(base, node.slice, st)
        idx = self.ev(node.slice, st)
        if isinstance(base.ty, C.TDefMap) and not self.specmode:
            tgt = self.ev_path(node.value, st)
            if tgt is None:
                raise OutsideSubset('defaultdict read through a non-path')
            k = coerce(idx, base.ty.k)
            ty = base.ty
            grown = Val(ty, ty.mk(ty.val(base.term),
                        z3.Store(ty.dom(base.term), k.term, z3.BoolVal(True))))
            self.write_path(st, tgt[0], tgt[1], grown)
            base = grown
        return self.subscript(base, idx, st)

    def subscript(self, base, idx, st):
        if isinstance(base, PyDict) and not idx.has_py():
            return self.const_dict_lookup(base, idx, st)
        if isinstance(base, PyTuple) and not idx.has_py():
            # symbolic index into a literal list: ite chain
            i = self.as_int(st, idx)
            n = len(base.items)
            if n == 0:
                # every index into an empty literal list is out of range
                self.fail(st, z3.BoolVal(True), 'IndexError')
                return Val(C.TAny, z3.Const(C.fresh_name('any'), C.AnySort))
            self.fail(st, z3.Or(i >= n, i < -n), 'IndexError')
            return self.ite_chain([(z3.Or(i == k, i == k - n), it)
                                   for k, it in enumerate(base.items)])
        ty = base.ty
        if isinstance(ty, TOpt):
            self.fail(st, ty.is_none(base.term), 'TypeError')
            base = Val(ty.elem, ty.val(base.term))
        if isinstance(base.ty, TRec) and not idx.has_py() and idx.ty == TStr:
            # a key that is one of a few literals (decided by the path condition)
            cases = []
            for f in base.ty.fields:
                c = idx.term == C.str_lit(f)
                g = z3.And(*(st.guards + [c])) if st.guards else c
                if self.check(st, g) != z3.unsat:
                    cases.append((c, self.select(base, ('f', f))))
            self.fail(st, z3.Not(z3.Or(*[c for c, _ in cases])) if cases else z3.BoolVal(True), 'KeyError')
            if not cases:
                return NONE
            return self.ite_chain(cases)
        if base.ty == TStr and not isinstance(base, (PyTuple, PyDict)):
            # a character of a string (strings are identifiers): an
            # uninterpreted function of the text and the index; IndexError
            # outside the length, the empty string is the one of length 0
            i  = self.as_int(st, idx)
            ln = z3.Function('str!len', C.StrSort, z3.IntSort())(base.term)
            st.assume(ln >= 0)
            st.assume((ln == 0) == (base.term == C.str_lit('')))
            self.fail(st, z3.Or(i >= ln, i < -ln), 'IndexError')
            f = z3.Function('str!at', C.StrSort, z3.IntSort(), C.StrSort)
            return Val(TStr, f(base.term, i))
        sel = self.selector(st, base, idx)
        return self.select(base, sel)

    def ite_chain(self, cases):
        '''value of the first case whose condition holds (conditions are
        known to be exhaustive)'''
        ty = None
        for _, v in cases:
            ty = v.ty if ty is None else join_ty(ty, v.ty)
        vals = [coerce(v, ty) for _, v in cases]
        if ty == TNone:
            return NONE
        term = vals[-1].term
        for (c, _), v in zip(reversed(cases[:-1]), reversed(vals[:-1])):
            term = z3.If(c, v.term, term)
        return Val(ty, term)

    def const_dict_lookup(self, d, key, st):
        # large constant tables (state name -> value): an uninterpreted
        # function with one ground fact per key keeps quantified formulas small
        if len(d.items) > 4 and all(v.has_py() and not
                                    isinstance(v, (PyTuple, PyDict))
                                    for v in d.items.values()):
            try:
                return self.const_table(d, key, st)
            except OutsideSubset:
                pass
        cases = []
        conds = []
        for k, v in d.items.items():
            c = eq(lift(k), key)
            if z3.is_false(c):
                continue
            cases.append((c, v))
            conds.append(c)
        self.fail(st, z3.Not(z3.Or(*conds)) if conds else z3.BoolVal(True),
                  'KeyError')
        if not cases:
            return NONE
        return self.ite_chain(cases)

    _tables = dict()

    def const_table(self, d, key, st):
        kty = vty = None
        for k, v in d.items.items():
            kt = lift(k).ty
            kty = kt if kty is None else join_ty(kty, kt)
            vty = v.ty if vty is None else join_ty(vty, v.ty)
        if vty in (TNone, TPy) or kty in (TNone, TPy):
            raise OutsideSubset('table types')
        ident = (tuple((repr(k), repr(v.py)) for k, v in d.items.items()))
        if ident not in Executor._tables:
            f = z3.Function('tbl!%d' % len(Executor._tables), kty.sort(),
                            vty.sort())
            facts = [f(coerce(lift(k), kty).term) == coerce(v, vty).term
                     for k, v in d.items.items()]
            Executor._tables[ident] = (f, kty, vty, facts)
        f, kty, vty, facts = Executor._tables[ident]
        if ('tbl', ident) not in self.__dict__.setdefault('_axiom_keys', set()):
            self._axiom_keys.add(('tbl', ident))
            self.axioms.extend(facts)
        conds = [eq(lift(k), key) for k in d.items]
        self.fail(st, z3.Not(z3.Or(*conds)), 'KeyError')
        try:
            kk = coerce(key, kty)
        except OutsideSubset:
            raise
        return Val(vty, f(kk.term))

    def ev_slice(self, base, sl, st):
        if sl.step is not None:
            raise OutsideSubset('slice step')
        ty = base.ty
        if isinstance(base, PyTuple):
            lo = self.ev(sl.lower, st) if sl.lower else None
            hi = self.ev(sl.upper, st) if sl.upper else None
            if (lo is None or lo.has_py()) and (hi is None or hi.has_py()):
                return PyTuple(base.items[(lo.py if lo else None):
                                          (hi.py if hi else None)],
                               base.is_list)
            raise OutsideSubset('symbolic slice of literal sequence')
        if ty == TStr:
            # strings are identifiers: a slice is an uninterpreted function of the
            # text and its bounds (absent bound: -1)
            lo = self.as_int(st, self.ev(sl.lower, st)) if sl.lower else z3.IntVal(-1)
            hi = self.as_int(st, self.ev(sl.upper, st)) if sl.upper else z3.IntVal(-1)
            f = z3.Function('str!slice', C.StrSort, z3.IntSort(), z3.IntSort(), C.StrSort)
            return Val(TStr, f(base.term, lo, hi))
        if not isinstance(ty, TList):
            raise OutsideSubset('slice of %s' % ty)
        ln = ty.len(base.term)

        def norm(n, dflt):
            if n is None:
                return dflt
            v = self.as_int(st, self.ev(n, st))
            v = z3.If(v < 0, v + ln, v)
            return z3.If(v < 0, 0, z3.If(v > ln, ln, v))
        lo = norm(sl.lower, z3.IntVal(0))
        hi = norm(sl.upper, ln)
        return self.list_slice(base, lo, hi)

    def list_slice(self, base, lo, hi):
        '''fresh list = base[lo:hi] with 0 <= lo, hi <= len already normalised'''
        ty  = base.ty
        out = fresh(ty, 'slice')
        i   = z3.Int(C.fresh_name('i'))
        n   = z3.If(hi >= lo, hi - lo, 0)
        self.axioms.append(ty.len(out.term) == n)
        self.axioms.append(z3.ForAll([i], z3.Implies(
            z3.And(0 <= i, i < n),
            z3.Select(ty.arr(out.term), i) ==
            z3.Select(ty.arr(base.term), i + lo))))
        return out

    # -- operators -------------------------------------------------------------
    def ev_BoolOp(self, node, st):
        is_and = isinstance(node.op, ast.And)
        vals   = []
        saved  = list(st.guards)
        try:
            for i, sub in enumerate(node.values):
                v = self.ev(sub, st)
                vals.append(v)
                t = truthy(v)
                st.guards.append(t if is_and else z3.Not(t))
        finally:
            st.guards = saved
        # python returns the deciding operand; we keep the operand type when
        # all operands agree, else only the truth value
        tys = {v.ty for v in vals}
        if tys == {TBool}:
            ts = [v.term for v in vals]
            return Val(TBool, z3.And(*ts) if is_and else z3.Or(*ts))
        if len(tys) == 1 and not isinstance(vals[0], (PyTuple, PyDict)) \
           and vals[0].ty not in (TNone, TPy):
            res = vals[-1]
            for v in reversed(vals[:-1]):
                t = truthy(v)
                res = Val(v.ty, z3.If(t, res.term, v.term) if is_and
                                else z3.If(t, v.term, res.term))
            return res
        # `x or {}` / `x or []`: the literal takes the type of the other operand
        lit = [v for v in vals if isinstance(v, (PyDict, PyTuple))]
        oth = [v for v in vals if not isinstance(v, (PyDict, PyTuple))]
        if lit and len(oth) == 1 and len(vals) == 2 and not is_and:
            t = oth[0].ty.elem if isinstance(oth[0].ty, TOpt) else oth[0].ty
            if isinstance(t, (TRec, TList, TMap)) and vals[0] is oth[0]:
                try:
                    b = coerce(lit[0], t)
                    a = coerce(oth[0], t) if isinstance(oth[0].ty, TOpt) else oth[0]
                    return Val(t, z3.If(truthy(oth[0]), a.term, b.term))
                except OutsideSubset:
                    pass
        try:
            ty = None
            for v in vals:
                ty = v.ty if ty is None else join_ty(ty, v.ty)
            cv  = [coerce(v, ty) for v in vals]
            res = cv[-1]
            for v, orig in zip(reversed(cv[:-1]), reversed(vals[:-1])):
                t = truthy(orig)
                res = Val(ty, z3.If(t, res.term, v.term) if is_and
                              else z3.If(t, v.term, res.term))
            return res
        except OutsideSubset:
            pass
        ts = [truthy(v) for v in vals]
        return Val(TBool, z3.And(*ts) if is_and else z3.Or(*ts))

    def ev_UnaryOp(self, node, st):
        v = self.ev(node.operand, st)
        if isinstance(node.op, ast.Not):
            t = truthy(v)
            py = (not v.py) if v.has_py() and not isinstance(v, (PyTuple, PyDict)) else NOPY
            return Val(TBool, z3.Not(t), py)
        if isinstance(node.op, ast.USub):
            v = self.num(st, v)
            return Val(v.ty, -v.term, -v.py if v.has_py() else NOPY)
        if isinstance(node.op, ast.UAdd):
            return self.num(st, v)
        raise OutsideSubset('unary %s' % type(node.op).__name__)

    def num(self, st, v):
        '''numeric view of v (raises TypeError exit for None)'''
        if isinstance(v.ty, TOpt) and v.ty.elem in (TInt, TReal, TBool):
            self.fail(st, v.ty.is_none(v.term), 'TypeError')
            v = Val(v.ty.elem, v.ty.val(v.term))
        if v.ty == TNone:
            self.fail(st, z3.BoolVal(True), 'TypeError')
            return Val(TInt, z3.IntVal(0))
        if v.ty == TBool:
            return coerce(v, TInt)
        if v.ty in (TInt, TReal):
            return v
        raise OutsideSubset('number expected, got %s' % (v,))

    def ev_BinOp(self, node, st):
        a = self.ev(node.left, st)
        b = self.ev(node.right, st)
        return self.binop(node.op, a, b, st)

    def binop(self, op, a, b, st):
        if a.has_py() and b.has_py() and not isinstance(a, (PyTuple, PyDict)) \
           and not isinstance(b, (PyTuple, PyDict)) and a.ty != TNone \
           and b.ty != TNone:
            try:
                return lift(_PYOPS[type(op)](a.py, b.py))
            except ZeroDivisionError:
                self.fail(st, z3.BoolVal(True), 'ZeroDivisionError')
                return lift(0)
            except (KeyError, TypeError):
                pass
        # string formatting / concatenation
        if isinstance(op, ast.Mod) and a.ty == TStr:
            return self.str_format(a, b, st)
        if isinstance(op, ast.Add) and a.ty == TStr and b.ty == TStr:
            return self.str_fn('concat', [a, b])
        # list concatenation
        if isinstance(op, ast.Add) and (isinstance(a.ty, TList) or
                                        isinstance(b.ty, TList) or
                                        isinstance(a, PyTuple)):
            return self.list_concat(a, b, st)
        if isinstance(op, ast.Mult) and isinstance(a, PyTuple) and b.has_py():
            return PyTuple(a.items * b.py, a.is_list)
        if isinstance(op, ast.Mult) and isinstance(a, PyTuple) and a.is_list \
           and len(a.items) == 1 and b.ty in (TInt,):
            return C.RepVal(a.items[0], b.term)
        a, b = self.num(st, a), self.num(st, b)
        real = (a.ty == TReal or b.ty == TReal)
        if isinstance(op, ast.Div):
            ar, br = coerce(a, TReal), coerce(b, TReal)
            self.fail(st, br.term == 0, 'ZeroDivisionError')
            return Val(TReal, ar.term / br.term)
        if real:
            a, b = coerce(a, TReal), coerce(b, TReal)
        if isinstance(op, ast.Add):  return Val(a.ty, a.term + b.term)
        if isinstance(op, ast.Sub):  return Val(a.ty, a.term - b.term)
        if isinstance(op, ast.Mult): return Val(a.ty, a.term * b.term)
        if isinstance(op, ast.FloorDiv):
            self.fail(st, b.term == 0, 'ZeroDivisionError')
            if real:
                return Val(TReal, z3.ToReal(z3.ToInt(a.term / b.term)))
            return Val(TInt, C.floordiv_int(a.term, b.term))
        if isinstance(op, ast.Mod):
            self.fail(st, b.term == 0, 'ZeroDivisionError')
            if real:
                raise OutsideSubset('float modulo')
            r = Val(TInt, a.term - b.term * C.floordiv_int(a.term, b.term))
            # consequences of the definition that linear arithmetic can use
            st.assume(z3.Implies(b.term > 0, z3.And(r.term >= 0, r.term < b.term)))
            st.assume(z3.Implies(z3.And(b.term > 0, 0 <= a.term, a.term < b.term),
                                 r.term == a.term))
            st.assume(z3.Implies(z3.And(b.term > 0, b.term <= a.term,
                                        a.term < 2 * b.term),
                                 r.term == a.term - b.term))
            return r
        raise OutsideSubset('binary %s' % type(op).__name__)

    def list_concat(self, a, b, st):
        if isinstance(a, PyTuple) and isinstance(b, PyTuple):
            return PyTuple(a.items + b.items, a.is_list)
        ty = a.ty if isinstance(a.ty, TList) else b.ty
        a, b = coerce(a, ty), coerce(b, ty)
        out = fresh(ty, 'cat')
        i   = z3.Int(C.fresh_name('i'))
        la, lb = ty.len(a.term), ty.len(b.term)
        self.axioms.append(ty.len(out.term) == la + lb)
        self.axioms.append(z3.ForAll([i], z3.Implies(z3.And(0 <= i, i < la),
            z3.Select(ty.arr(out.term), i) == z3.Select(ty.arr(a.term), i))))
        self.axioms.append(z3.ForAll([i], z3.Implies(z3.And(0 <= i, i < lb),
            z3.Select(ty.arr(out.term), i + la) ==
            z3.Select(ty.arr(b.term), i)),
            patterns=[z3.Select(ty.arr(b.term), i)]))
        self.axioms.append(z3.ForAll([i], z3.Implies(z3.And(la <= i, i < la + lb),
            z3.Select(ty.arr(out.term), i) ==
            z3.Select(ty.arr(b.term), i - la)),
            patterns=[z3.Select(ty.arr(out.term), i)]))
        # registered concat lemmas (proved by induction) are instantiated here
        for entry in self.spec.get('concat_lemmas', []):
            from .vcgen import instantiate_lemma
            name, extra = entry if isinstance(entry, tuple) else (entry, {})
            lem = self.reg.lemmas[name]
            if lem['vars']['out'] != ty:
                continue
            bind = dict(out=out, a=a, b=b, la=Val(TInt, la), n=Val(TInt, lb))
            for var, text in extra.items():
                # further lemma variables bound to values of the program state
                # at this point (e.g. the node the new slots were found on)
                bind[var] = self.spec_expr(text, st)
            # the concat facts must be visible to the lemma-call obligations
            self.axioms.append(instantiate_lemma(self, lem, bind, st,
                               rewrite=[(la + lb, ty.len(out.term))]))
        return out

    # strings are identifiers: built strings are uninterpreted functions of
    # their parts (constant-folded when all parts are constants)
    def str_fn(self, name, args):
        if all(a.has_py() for a in args):
            try:
                return lift(_STR_FOLD[name](*[a.py for a in args]))
            except Exception:
                pass
        sorts = []
        terms = []
        for a in args:
            if a.ty == TNone:
                a = lift('None')
            if isinstance(a, (PyTuple, PyDict)):
                a = Val(TAny, z3.Const(C.fresh_name('any'), C.AnySort))
            sorts.append(a.ty.sort())
            terms.append(a.term)
        f = z3.Function('str!%s!%s' % (name, '_'.join(str(s) for s in sorts)),
                        *(sorts + [C.StrSort]))
        return Val(TStr, f(*terms))

    def str_format(self, fmt, args, st):
        items = args.items if isinstance(args, PyTuple) and not args.is_list \
                else [args]
        if fmt.has_py() and all(i.has_py() and not isinstance(i, (PyTuple, PyDict))
                                for i in items):
            try:
                return lift(fmt.py % tuple(i.py for i in items))
            except Exception:
                self.fail(st, z3.BoolVal(True), 'TypeError')
                return lift('')
        if fmt.has_py():
            # %d needs a number: None / str raise TypeError
            import re
            convs = re.findall(r'%[-#0 +]*\d*(?:\.\d+)?([a-zA-Z%])', fmt.py)
            convs = [c for c in convs if c != '%']
            if len(convs) == len(items):
                for c, it in zip(convs, items):
                    if c in 'dif':
                        if it.ty == TNone or it.ty == TStr:
                            self.fail(st, z3.BoolVal(True), 'TypeError')
                        elif isinstance(it.ty, TOpt):
                            self.fail(st, it.ty.is_none(it.term), 'TypeError')
        out = self.str_fn('fmt', [fmt] + list(items))
        if fmt.has_py() and not out.has_py():
            # the literal characters of the format are part of the result
            import re
            lit = re.sub(r'%[-#0 +]*\d*(?:\.\d+)?[a-zA-Z]', '', fmt.py).replace('%%', '%')
            ln = z3.Function('str!len', C.StrSort, z3.IntSort())(out.term)
            st.assume(ln >= len(lit))
            if lit:
                st.assume(out.term != C.str_lit(''))
        return out

    def ev_JoinedStr(self, node, st):
        parts = []
        for v in node.values:
            if isinstance(v, ast.Constant):
                parts.append(lift(v.value))
            else:
                parts.append(self.ev(v.value, st))
        return self.str_fn('fstr', parts)

    def ev_Compare(self, node, st):
        left  = self.ev(node.left, st)
        terms = []
        saved = list(st.guards)
        try:
            for op, rnode in zip(node.ops, node.comparators):
                right = self.ev(rnode, st)
                t = self.compare(op, left, right, st)
                terms.append(t)
                st.guards.append(t)
                left = right
        finally:
            st.guards = saved
        t = z3.And(*terms) if len(terms) > 1 else terms[0]
        t = z3.simplify(t) if z3.is_bool(t) else t
        py = NOPY
        if z3.is_true(t):  py = True
        if z3.is_false(t): py = False
        return Val(TBool, t, py)

    def compare(self, op, a, b, st):
        if isinstance(op, ast.Eq):    return eq(a, b)
        if isinstance(op, ast.NotEq): return z3.Not(eq(a, b))
        if isinstance(op, ast.Is):
            if b.ty == TNone or a.ty == TNone: return eq(a, b)
            if a.ty == TBool and b.ty == TBool: return a.term == b.term
            for x, y in ((a, b), (b, a)):
                if isinstance(x.ty, TOpt) and x.ty.elem == TBool and y.ty == TBool:
                    # an optional bool `is True / False`: present and that value
                    return z3.And(x.ty.is_some(x.term), x.ty.val(x.term) == y.term)
            if b.ty == TBool or a.ty == TBool:
                # `x is True` with x not a bool
                return z3.BoolVal(False)
            raise OutsideSubset('`is` on non-None objects')
        if isinstance(op, ast.IsNot):
            return z3.Not(self.compare(ast.Is(), a, b, st))
        if isinstance(op, ast.In):    return self.contains(b, a, st)
        if isinstance(op, ast.NotIn): return z3.Not(self.contains(b, a, st))
        if a.has_py() and b.has_py() and not isinstance(a, (PyTuple, PyDict)) \
           and not isinstance(b, (PyTuple, PyDict)):
            try:
                return z3.BoolVal(_PYCMP[type(op)](a.py, b.py))
            except TypeError:
                self.fail(st, z3.BoolVal(True), 'TypeError')
                return z3.BoolVal(False)
        a, b = self.num(st, a), self.num(st, b)
        if a.ty != b.ty:
            a, b = coerce(a, TReal), coerce(b, TReal)
        if isinstance(op, ast.Lt):  return a.term <  b.term
        if isinstance(op, ast.LtE): return a.term <= b.term
        if isinstance(op, ast.Gt):  return a.term >  b.term
        if isinstance(op, ast.GtE): return a.term >= b.term
        raise OutsideSubset('compare %s' % type(op).__name__)

    def contains(self, cont, item, st):
        '''z3 Bool: item in cont'''
        if isinstance(cont, PyTuple):
            return z3.Or(*([eq(x, item) for x in cont.items] or
                           [z3.BoolVal(False)]))
        if isinstance(cont, PyDict):
            return z3.Or(*([eq(lift(k), item) for k in cont.items] or
                           [z3.BoolVal(False)]))
        ty = cont.ty
        if isinstance(ty, TOpt):
            self.fail(st, ty.is_none(cont.term), 'TypeError')
            cont = Val(ty.elem, ty.val(cont.term))
            ty = cont.ty
        if isinstance(ty, TList):
            i = z3.Int(C.fresh_name('i'))
            e = Val(ty.elem, z3.Select(ty.arr(cont.term), i))
            return z3.Exists([i], z3.And(0 <= i, i < ty.len(cont.term),
                                         eq(e, item)))
        if isinstance(ty, TMap):
            try:
                k = coerce(item, ty.k)
            except OutsideSubset:
                return z3.BoolVal(False)
            return z3.Select(ty.dom(cont.term), k.term)
        if isinstance(ty, TSet):
            try:
                k = coerce(item, ty.k)
            except OutsideSubset:
                return z3.BoolVal(False)
            return z3.Select(cont.term, k.term)
        if isinstance(ty, TRec) and not item.has_py() and item.ty == TStr:
            # symbolic key: one of the declared keys, present
            alts = []
            for f, fty in ty.fields.items():
                present = z3.BoolVal(True)
                if isinstance(fty, TOpt) and f in self.reg.optional_keys.get(ty.name, ()):
                    present = fty.is_some(ty.get(cont.term, f))
                alts.append(z3.And(item.term == C.str_lit(f), present))
            return z3.Or(*alts) if alts else z3.BoolVal(False)
        if isinstance(ty, TRec):
            if item.has_py():
                if item.py not in ty.fields:
                    return z3.BoolVal(False)
                fty = ty.fields[item.py]
                if isinstance(fty, TOpt) and \
                   item.py in self.reg.optional_keys.get(ty.name, ()):
                    # optional key: modelled as None when absent
                    return fty.is_some(ty.get(cont.term, item.py))
                return z3.BoolVal(True)
        if ty == TStr and item.ty == TStr:
            f = z3.Function('str!contains', C.StrSort, C.StrSort, z3.BoolSort())
            if cont.has_py() and item.has_py():
                return z3.BoolVal(item.py in cont.py)
            return f(cont.term, item.term)
        raise OutsideSubset('`in` on %s' % (cont,))

    def ev_IfExp(self, node, st):
        c = truthy(self.ev(node.test, st))
        c = z3.simplify(c)
        if z3.is_true(c):  return self.ev(node.body, st)
        if z3.is_false(c): return self.ev(node.orelse, st)
        saved = list(st.guards)
        try:
            st.guards.append(c)
            a = self.ev(node.body, st)
            st.guards[-1] = z3.Not(c)
            b = self.ev(node.orelse, st)
        finally:
            st.guards = saved
        ty = join_ty(a.ty, b.ty)
        a, b = coerce(a, ty), coerce(b, ty)
        if ty == TNone: return NONE
        return Val(ty, z3.If(c, a.term, b.term))

    def ev_List(self, node, st):
        return PyTuple([self.ev(e, st) for e in node.elts], is_list=True)

    def ev_Tuple(self, node, st):
        return PyTuple([self.ev(e, st) for e in node.elts], is_list=False)

    def ev_Set(self, node, st):
        return PyTuple([self.ev(e, st) for e in node.elts], is_list=True)

    def ev_Dict(self, node, st):
        items = dict()
        for k, v in zip(node.keys, node.values):
            if k is None:
                raise OutsideSubset('dict unpacking')
            kv = self.ev(k, st)
            if not kv.has_py():
                raise OutsideSubset('dict display with symbolic key')
            items[kv.py] = self.ev(v, st)
        return PyDict(items)

    def ev_Lambda(self, node, st):
        return LambdaVal(node, st)

    # -- comprehensions --------------------------------------------------------
    def ev_ListComp(self, node, st):
        return self.comprehension(node, st)

    def ev_GeneratorExp(self, node, st):
        return self.comprehension(node, st)

    def comprehension(self, node, st):
        if len(node.generators) != 1:
            raise OutsideSubset('nested comprehension')
        gen = node.generators[0]
        src = self.ev(gen.iter, st)
        enum_start = None
        from .calls import EnumVal, KeysView
        if isinstance(src, EnumVal):
            enum_start, src = src.start, src.seq
        if isinstance(src, KeysView):
            src = src.as_list(self, st)
        if isinstance(src, PyDict):
            src = PyTuple([lift(k) for k in src.items], True)
        if isinstance(src, PyTuple):
            if enum_start is not None:
                raise OutsideSubset('enumerate over literal in comprehension')
            out = []
            for it in src.items:
                sub = st.fork()
                sub.guards = list(st.guards)
                self.bind_target(gen.target, it, sub)
                keep = True
                for cond in gen.ifs:
                    c = z3.simplify(truthy(self.ev(cond, sub)))
                    if z3.is_false(c): keep = False
                    elif not z3.is_true(c):
                        raise OutsideSubset('symbolic filter over literal '
                                            'sequence')
                if keep:
                    out.append(self.ev(node.elt, sub))
            return PyTuple(out, True)
        ty = src.ty
        if isinstance(ty, TOpt):
            self.fail(st, ty.is_none(src.term), 'TypeError')
            src = Val(ty.elem, ty.val(src.term)); ty = src.ty
        if not isinstance(ty, TList):
            raise OutsideSubset('comprehension over %s' % ty)
        i   = z3.Int(C.fresh_name('ci'))
        sub = st.fork()
        sub.guards = list(st.guards) + [0 <= i, i < ty.len(src.term)]
        elemv = Val(ty.elem, z3.Select(ty.arr(src.term), i))
        if enum_start is not None:
            elemv = PyTuple([Val(TInt, enum_start + i), elemv])
        self.bind_target(gen.target, elemv, sub)
        sm = self.specmode
        # element expression is evaluated for an arbitrary index; failure
        # conditions inside are raised for "some index" soundly via guards
        elt = self.ev(node.elt, sub)
        conds = [truthy(self.ev(c, sub)) for c in gen.ifs]
        self.specmode = sm
        st.pc = sub.pc if len(sub.pc) >= len(st.pc) else st.pc
        decl = self.comp_type(node, elt)
        elt  = coerce(elt, decl.elem)
        # the same element expression over the same list is the same list: a
        # comprehension written in a contract and the one in the code meet
        canon = z3.Int('ci!canon')
        ckey = (src.term.sexpr(), decl.key, z3.substitute(elt.term, (i, canon)).sexpr(),
                tuple(z3.substitute(c, (i, canon)).sexpr() for c in conds))
        cache = self.__dict__.setdefault('_comp_cache', dict())
        if ckey in cache:
            return cache[ckey]
        out  = fresh(decl, 'comp')
        cache[ckey] = out
        n    = ty.len(src.term)
        if not conds:
            self.axioms.append(decl.len(out.term) == n)
            self.axioms.append(z3.ForAll([i], z3.Implies(
                z3.And(0 <= i, i < n),
                z3.Select(decl.arr(out.term), i) == elt.term)))
            return out
        # filter: order preserving injection idx: [0,len(out)) -> [0,n)
        p   = z3.And(*conds)
        idx = z3.Function(C.fresh_name('fidx'), z3.IntSort(), z3.IntSort())
        pos = z3.Function(C.fresh_name('fpos'), z3.IntSort(), z3.IntSort())
        j, j2 = z3.Int(C.fresh_name('j')), z3.Int(C.fresh_name('j'))
        lo  = decl.len(out.term)
        self.axioms.append(z3.And(0 <= lo, lo <= n))
        self.axioms.append(z3.ForAll([j], z3.Implies(z3.And(0 <= j, j < lo),
            z3.And(0 <= idx(j), idx(j) < n,
                   z3.substitute(p, (i, idx(j))),
                   z3.Select(decl.arr(out.term), j) ==
                   z3.substitute(elt.term, (i, idx(j)))))))
        self.axioms.append(z3.ForAll([j, j2], z3.Implies(
            z3.And(0 <= j, j < j2, j2 < lo), idx(j) < idx(j2))))
        self.axioms.append(z3.ForAll([i], z3.Implies(
            z3.And(0 <= i, i < n, p),
            z3.And(0 <= pos(i), pos(i) < lo, idx(pos(i)) == i))))
        return out

    def ev_DictComp(self, node, st):
        '''{k(x): v(x) for x in <symbolic list>} (one generator, no filter): a Map
        whose domain is the set of keys produced; for a key produced more than
        once the last value wins (function `last`: the last index producing it)'''
        if len(node.generators) != 1 or node.generators[0].ifs:
            raise OutsideSubset('dict comprehension with filters / nested loops')
        gen = node.generators[0]
        src = self.ev(gen.iter, st)
        if isinstance(src, PyTuple):
            raise OutsideSubset('dict comprehension over a literal')
        ty = src.ty
        if not isinstance(ty, TList):
            raise OutsideSubset('dict comprehension over %s' % ty)
        i   = z3.Int(C.fresh_name('di'))
        n   = ty.len(src.term)
        sub = st.fork()
        sub.guards = list(st.guards) + [0 <= i, i < n]
        self.bind_target(gen.target, Val(ty.elem, z3.Select(ty.arr(src.term), i)), sub)
        kv = self.ev(node.key, sub)
        vv = self.ev(node.value, sub)
        st.pc = sub.pc if len(sub.pc) >= len(st.pc) else st.pc
        mty = getattr(self, '_expect', None)
        if not isinstance(mty, TMap):
            mty = TMap(kv.ty, vv.ty)
        kv, vv = coerce(kv, mty.k), coerce(vv, mty.v)
        out  = fresh(mty, 'dcomp')
        last = z3.Function(C.fresh_name('dlast'), mty.k.sort(), z3.IntSort())
        u    = z3.Const(C.fresh_name('du'), mty.k.sort())
        dom, val = mty.dom(out.term), mty.val(out.term)
        key_at = lambda x: z3.substitute(kv.term, (i, x))
        val_at = lambda x: z3.substitute(vv.term, (i, x))
        self.axioms.append(z3.ForAll([u], z3.Select(dom, u) ==
            z3.And(0 <= last(u), last(u) < n, key_at(last(u)) == u),
            patterns=[z3.Select(dom, u)]))
        self.axioms.append(z3.ForAll([u], z3.Implies(z3.Select(dom, u),
            z3.Select(val, u) == val_at(last(u))), patterns=[z3.Select(val, u)]))
        self.axioms.append(z3.ForAll([i], z3.Implies(z3.And(0 <= i, i < n),
            z3.And(last(kv.term) >= i, last(kv.term) < n, z3.Select(dom, kv.term))),
            patterns=[z3.Select(ty.arr(src.term), i)]))
        return out

    def comp_type(self, node, elt):
        decl = self.spec.get('comps', {}).get(node.lineno - self.fsrc.lines[0])
        if decl is not None:
            return decl
        if isinstance(getattr(self, '_expect', None), TList):
            return self._expect
        if elt.ty in (TNone, TPy):
            raise OutsideSubset('comprehension element type unknown '
                                '(declare comps={rel_line: T.List(..)})')
        return TList(elt.ty)

    def bind_target(self, target, val, st):
        if isinstance(target, ast.Name):
            st.env[target.id] = val
            st.bound.pop(target.id, None)
            return
        if isinstance(target, (ast.Tuple, ast.List)):
            n = len(target.elts)
            if isinstance(val, PyTuple):
                if len(val.items) != n:
                    self.fail(st, z3.BoolVal(True), 'ValueError')
                    return
                for t, v in zip(target.elts, val.items):
                    self.bind_target(t, v, st)
                return
            if isinstance(val.ty, TTuple):
                if len(val.ty.elems) != n:
                    self.fail(st, z3.BoolVal(True), 'ValueError')
                    return
                for k, t in enumerate(target.elts):
                    self.bind_target(t, Val(val.ty.elems[k],
                                            val.ty.get(val.term, k)), st)
                return
            if isinstance(val.ty, TList):
                self.fail(st, val.ty.len(val.term) != n, 'ValueError')
                for k, t in enumerate(target.elts):
                    self.bind_target(t, Val(val.ty.elem,
                              z3.Select(val.ty.arr(val.term), k)), st)
                return
        raise OutsideSubset('binding target %s' % ast.dump(target)[:60])

    # -- calls -----------------------------------------------------------------
    def ev_Call(self, node, st):
        from .calls import eval_call
        return eval_call(self, node, st)


    # --------------------------------------------------------------------------
    # spec expressions
    #
    _parse_cache = dict()

    def spec_expr(self, text, st):
        if text not in self._parse_cache:
            try:
                self._parse_cache[text] = ast.parse(text.strip(), mode='eval').body
            except SyntaxError as e:
                raise SpecError('spec expression %r: %s' % (text, e))
        self.specmode += 1
        try:
            return self.ev(self._parse_cache[text], st)
        finally:
            self.specmode -= 1

    def spec_bool(self, text, st, cs=None):
        try:
            return truthy(self.spec_expr(text, st))
        except OutsideSubset as e:
            raise SpecError('spec expression %r: %s' % (text, e))
        except KeyError as e:
            raise SpecError('spec expression %r: unknown %s' % (text, e))

    def spec_type(self, node):
        if isinstance(node, ast.Constant) and isinstance(node.value, str):
            if node.value in self.reg.types:
                return self.reg.types[node.value]
            return {'Int': TInt, 'Real': TReal, 'Bool': TBool,
                    'Str': TStr}[node.value]
        if isinstance(node, ast.Name):
            if node.id in self.reg.types:
                return self.reg.types[node.id]
            return {'Int': TInt, 'Real': TReal, 'Bool': TBool,
                    'Str': TStr}[node.id]
        raise SpecError('quantifier type')

    def wf(self, v, depth=0):
        """well-formedness facts every python value of this type satisfies
        (list lengths are non-negative)"""
        out = []
        if isinstance(v, (PyTuple, PyDict)) or v.ty in (TNone, TPy):
            return out
        ty = v.ty
        if isinstance(ty, TList):
            out.append(ty.len(v.term) >= 0)
            if _has_list(ty.elem) and depth < 3:
                i = z3.Int(C.fresh_name('wf'))
                inner = self.wf(Val(ty.elem, z3.Select(ty.arr(v.term), i)),
                                depth + 1)
                if inner:
                    out.append(z3.ForAll([i], z3.Implies(
                        z3.And(0 <= i, i < ty.len(v.term)), z3.And(*inner))))
        elif isinstance(ty, TRec):
            for f, ft in ty.fields.items():
                if _has_list(ft):
                    out.extend(self.wf(Val(ft, ty.get(v.term, f)), depth))
        elif isinstance(ty, TOpt):
            if _has_list(ty.elem):
                inner = self.wf(Val(ty.elem, ty.val(v.term)), depth)
                if inner:
                    out.append(z3.Implies(ty.is_some(v.term), z3.And(*inner)))
        elif isinstance(ty, TMap):
            if isinstance(ty, C.TDefMap):
                k = z3.Const(C.fresh_name('wfd'), ty.k.sort())
                dv = z3.Select(ty.val(v.term), k)
                empty = (ty.v.len(dv) == 0) if isinstance(ty.v, TList) else \
                        (ty.v.dom(dv) == z3.K(ty.v.k.sort(), z3.BoolVal(False)))
                out.append(z3.ForAll([k], z3.Implies(
                    z3.Not(z3.Select(ty.dom(v.term), k)), empty)))
            if _has_list(ty.v) and depth < 3:
                k = z3.Const(C.fresh_name('wfk'), ty.k.sort())
                inner = self.wf(Val(ty.v, z3.Select(ty.val(v.term), k)),
                                depth + 1)
                if inner:
                    out.append(z3.ForAll([k], z3.Implies(
                        z3.Select(ty.dom(v.term), k), z3.And(*inner))))
        elif isinstance(ty, TTuple):
            for n, et in enumerate(ty.elems):
                if _has_list(et):
                    out.extend(self.wf(Val(et, ty.get(v.term, n)), depth))
        return out

    def fresh_wf(self, st, ty, hint):
        v = fresh(ty, hint)
        for f in self.wf(v):
            st.pc.append(f)
        return v

    # --------------------------------------------------------------------------
    # statements
    #
    def exec_block(self, stmts, st):
        '''-> list of (kind, state, value)'''
        live = [st]
        out  = list()
        for s in stmts:
            nxt = list()
            for cur in live:
                for kind, s2, val in self.exec_stmt(s, cur):
                    if kind == 'next':
                        nxt.append(s2)
                    else:
                        out.append((kind, s2, val))
            live = self.merge_all(nxt)
            if not live:
                break
        for cur in live:
            out.append(('next', cur, None))
        return out

    def exec_stmt(self, node, st):
        self.cur_line = getattr(node, 'lineno', self.cur_line)
        m = getattr(self, 'st_' + type(node).__name__, None)
        if m is None:
            raise OutsideSubset('statement %s (line %s)'
                                % (type(node).__name__, self.cur_line))
        mark = len(self.exits)
        outs = None
        for prefix, key in self.spec.get('stmt_contracts', {}).items():
            seg = ast.get_source_segment(self.fsrc.src, node) or ''
            if seg.startswith(prefix):
                # a nested statement that is verified as a unit of its own (a
                # `fragment` spec over its free variables) is used here through
                # that contract, like a call: requires become obligations, the
                # modified variables are havocked, ensures are assumed
                from .calls import call_contract
                cs = self.reg.get(key)
                if not cs.get('fragment') or cs['file'] != self.spec['file'] or \
                   cs['qualname'] != self.spec['qualname']:
                    raise SpecError('%s is not a fragment of %s' % (key, self.spec['qualname']))
                call = ast.parse('self.__fragment__(%s)' % ', '.join(
                                 '%s=%s' % (p_, p_) for p_ in cs['params'])).body[0].value
                for n_ in ast.walk(call):
                    ast.copy_location(n_, node)
                call_contract(self, st, cs, call)
                self.notes.append('L%d-%d used through the contract of %s' %
                                  (node.lineno, node.end_lineno, cs['short']))
                outs = [('next', st, None)]
                break
        for prefix, handler in ([] if outs is not None else
                                self.spec.get('stmt_effects', {}).items()):
            seg = ast.get_source_segment(self.fsrc.src, node) or ''
            if seg.startswith(prefix):
                # a statement that cannot be modelled (process spawning, file
                # access) is replaced by the effect declared in the spec; it is
                # listed under dropped statements (an assumption, not proof)
                self.fsrc.dropped.append('L%d: %s ... <replaced by effect %s>'
                        % (node.lineno, prefix[:60], getattr(handler, '__name__', 'handler')))
                outs = handler(self, node, st) or [('next', st, None)]
                break
        if outs is None:
            outs = m(node, st)
            # ghost code attached to a statement (spec key `stmt_ghost`): runs
            # after the real statement on its normal exits and may only write
            # ghost variables, so the verified statement itself is unchanged
            for prefix, handler in self.spec.get('stmt_ghost', {}).items():
                seg = ast.get_source_segment(self.fsrc.src, node) or ''
                if seg.startswith(prefix):
                    bad = set(getattr(handler, 'mutates', ())) - set(self.spec.get('ghost', {}))
                    if bad:
                        raise SpecError('ghost code for %r writes non-ghost %s' % (prefix, sorted(bad)))
                    outs = list(outs)
                    for kind, s2, _ in outs:
                        if kind == 'next':
                            handler(self, node, s2)
        # ghost assertions after a statement (spec key `cuts`): each is proved at
        # this point (auxiliary obligation) and then available as a fact - the
        # cut rule; it adds no assumption
        for prefix, texts in self.spec.get('cuts', {}).items():
            seg = ast.get_source_segment(self.fsrc.src, node) or ''
            if seg.startswith(prefix):
                outs = list(outs)
                for kind, s2, _ in outs:
                    if kind != 'next':
                        continue
                    for n_, text in enumerate(texts):
                        kind_ = 'cut'
                        if isinstance(text, tuple) and len(text) == 3:
                            nm, text, kind_ = text      # a cut that states the property itself
                        else:
                            nm, text = text if isinstance(text, tuple) else ('cut%d' % (n_ + 1), text)
                        goal = self.spec_bool(text, s2)
                        self.oblige(s2, 'cut@L%s:%s' % (node.lineno, nm), goal, kind_, note=text)
                        s2.assume(goal)
        # exceptional exits raised while evaluating expressions of this stmt
        new = self.exits[mark:]
        del self.exits[mark:]
        outs = list(outs)
        for exc, ex, line in new:
            outs.append(('raise', ex, (exc, line)))
        return outs

    def st_Pass(self, node, st):
        return [('next', st, None)]

    def st_Global(self, node, st):
        return [('next', st, None)]

    def st_ImportFrom(self, node, st):
        # function-local import of names resolved through the spec registry
        return [('next', st, None)]

    def st_Import(self, node, st):
        return [('next', st, None)]

    def st_Expr(self, node, st):
        if isinstance(node.value, ast.Yield):
            # generator: the yielded values are collected in the ghost list
            # `yielded` (declared in the spec's ghost section); the consumer is
            # assumed not to interfere between two yields
            v = self.ev(node.value.value, st) if node.value.value else NONE
            log = self.get_var(st, 'yielded')
            if log is None:
                raise SpecError('generator: declare ghost yielded=List[..]')
            ty = log.ty
            n = ty.len(log.term)
            st.env['yielded'] = Val(ty, ty.mk(z3.Store(ty.arr(log.term), n,
                                    coerce(v, ty.elem).term), n + 1))
            return [('next', st, None)]
        if getattr(node, '_dropped_call_args', False):
            # arguments of a dropped logging / profiling call: only their
            # failure conditions matter (reading an unbound local, a missing
            # key); what cannot be modelled (formatting helpers) is skipped
            for elt in node.value.elts:
                local = set()        # names bound inside the argument itself
                for sub in ast.walk(elt):
                    if isinstance(sub, ast.comprehension):
                        for t in ast.walk(sub.target):
                            if isinstance(t, ast.Name): local.add(t.id)
                    elif isinstance(sub, ast.Lambda):
                        for a_ in sub.args.args: local.add(a_.arg)
                for sub in ast.walk(elt):
                    if isinstance(sub, ast.Name) and sub.id in local:
                        continue
                    if isinstance(sub, ast.Name) and isinstance(sub.ctx, ast.Load) \
                       and sub.id in st.bound:
                        self.get_var(st, sub.id)
                    elif isinstance(sub, ast.Name) and isinstance(sub.ctx, ast.Load) \
                         and sub.id in self.assigned_locals and sub.id not in st.env:
                        self.fail(st, z3.BoolVal(True), 'UnboundLocalError')
            return [('next', st, None)]
        self.ev(node.value, st)
        return [('next', st, None)]

    def st_Assign(self, node, st):
        val = None
        alias = None
        if len(node.targets) == 1 and isinstance(node.targets[0], ast.Name):
            p = self.ev_path(node.value, st) \
                if isinstance(node.value, (ast.Name, ast.Attribute,
                                           ast.Subscript)) else None
            if p is not None:
                v = self.read_path(st, p[0], p[1])
                if self.is_mutable(v):
                    alias = Ref(p[0], p[1])
                val = v
        if val is None:
            # a declared local type guides comprehensions / displays on the rhs
            self._expect = None
            if len(node.targets) == 1 and isinstance(node.targets[0], ast.Name):
                self._expect = self.local_type(node.targets[0].id)
            try:
                val = self.ev(node.value, st)
            finally:
                self._expect = None
        for tgt in node.targets:
            self.assign(tgt, val, st, alias)
        return [('next', st, None)]

    def is_mutable(self, v):
        if isinstance(v, (PyTuple, PyDict)):
            return isinstance(v, PyDict) or v.is_list
        t = v.ty
        if isinstance(t, TOpt): t = t.elem
        return isinstance(t, (TList, TRec, TMap, TSet))

    def assign(self, tgt, val, st, alias=None):
        if isinstance(tgt, ast.Name) and tgt.id in self.spec.get('params', {}) \
           and tgt.id not in st.rebound and not self.specmode:
            # the parameter name is re-bound: from here on it is a local.  The
            # caller's object must be unchanged up to this point (frame).
            cur, oldv = st.env.get(tgt.id), (st.old or {}).get(tgt.id)
            if tgt.id not in self.spec.get('modifies', []) and oldv is not None \
               and isinstance(cur, Val) and self.is_mutable(oldv) \
               and not isinstance(cur, (PyTuple, PyDict)) \
               and cur.term is not None and not cur.term.eq(oldv.term):
                self.oblige(st, 'frame:%s-unchanged@rebind-L%s'
                            % (tgt.id, self.cur_line), eq(cur, oldv), 'frame')
            st.rebound.add(tgt.id)
        if isinstance(tgt, ast.Name):
            if alias is not None and alias.root != tgt.id:
                st.env[tgt.id] = alias
                st.bound.pop(tgt.id, None)
                return
            cur = st.env.get(tgt.id)
            declared = self.local_type(tgt.id)
            if declared is not None:
                val = coerce(val, declared)
            st.env[tgt.id] = val
            st.bound.pop(tgt.id, None)
            return
        if isinstance(tgt, (ast.Tuple, ast.List)):
            self.bind_target_assign(tgt, val, st)
            return
        if isinstance(tgt, (ast.Attribute, ast.Subscript)):
            p = self.ev_path(tgt, st, for_write=True)
            if p is None:
                raise OutsideSubset('assignment target (line %s)'
                                    % self.cur_line)
            self.detach_aliases(st, p[0], p[1])
            self.write_path(st, p[0], p[1], val)
            return
        raise OutsideSubset('assignment target %s' % type(tgt).__name__)

    def detach_aliases(self, st, root, path):
        '''the cell root/path is about to be *replaced* (not mutated in place):
        a local that aliases that cell, or something inside it, keeps the old
        object in Python - it becomes a snapshot of the current value.  Where
        it cannot be decided whether an alias names the replaced cell (symbolic
        selectors that may coincide), the statement is outside the subset.'''
        def sel_eq(a, b):
            if a[0] != b[0]: return False
            if len(a) == 1:  return True
            x, y = a[1], b[1]
            if isinstance(x, z3.ExprRef) and isinstance(y, z3.ExprRef):
                if x.eq(y): return True
                if z3.is_const(x) and z3.is_const(y) and x.sort() == y.sort() and \
                   x.decl().kind() != z3.Z3_OP_UNINTERPRETED and y.decl().kind() != z3.Z3_OP_UNINTERPRETED:
                    return False                    # distinct literals
                return None
            return x == y
        while isinstance(st.env.get(root), Ref):
            r = st.env[root]
            root, path = r.root, tuple(r.path) + tuple(path)
        path = tuple(path)
        for name, v in list(st.env.items()):
            if not isinstance(v, Ref):
                continue
            vr, vp = v.root, tuple(v.path)
            while isinstance(st.env.get(vr), Ref):
                r = st.env[vr]
                vr, vp = r.root, tuple(r.path) + vp
            if vr != root or len(vp) < len(path):
                continue
            verdict = True
            for a, b in zip(path, vp):
                e = sel_eq(a, b)
                if e is False:
                    verdict = False; break
                if e is None:
                    same = (a[1] == b[1])
                    g = z3.And(*(st.guards + [same])) if st.guards else same
                    if self.check(st, g) == z3.unsat:
                        verdict = False; break
                    g2 = z3.And(*(st.guards + [z3.Not(same)])) if st.guards else z3.Not(same)
                    if self.check(st, g2) != z3.unsat:
                        verdict = None
            if verdict is False:
                continue
            if verdict is None:
                raise OutsideSubset('local %s may alias the cell that line %s replaces'
                                    % (name, self.cur_line))
            st.env[name] = self.read_path(st, v.root, v.path)

    def bind_target_assign(self, tgt, val, st):
        tmp = st.fork()
        self.bind_target(ast.Tuple(elts=[ast.Name(id='tmp!%d' % i)
                                  for i in range(len(tgt.elts))]), val, st)
        for i, t in enumerate(tgt.elts):
            self.assign(t, st.env.pop('tmp!%d' % i), st)

    def st_AugAssign(self, node, st):
        cur = self.ev(node.target, st)
        rhs = self.ev(node.value, st)
        from .calls import KeysView
        if isinstance(rhs, KeysView):
            rhs = rhs.as_list(self, st)       # list += d.values()
        if isinstance(node.op, ast.Add) and isinstance(cur.ty, TList):
            # list += list  is extend (in place)
            from .calls import list_extend
            p = self.ev_path(node.target, st, for_write=True)
            self.write_path(st, p[0], p[1], list_extend(self, cur, rhs, st))
            return [('next', st, None)]
        new = self.binop(node.op, cur, rhs, st)
        self.assign(node.target, new, st)
        return [('next', st, None)]

    def st_AnnAssign(self, node, st):
        if node.value is None:
            return [('next', st, None)]
        val = self.ev(node.value, st)
        self.assign(node.target, val, st)
        return [('next', st, None)]

    def st_Delete(self, node, st):
        for tgt in node.targets:
            if isinstance(tgt, ast.Subscript):
                p = self.ev_path(tgt.value, st)
                if p is None:
                    raise OutsideSubset('del target')
                cont = self.read_path(st, p[0], p[1])
                if isinstance(cont.ty, TOpt):
                    self.fail(st, cont.ty.is_none(cont.term), 'TypeError')
                    p = (p[0], p[1] + (('o',),))
                    cont = Val(cont.ty.elem, cont.ty.val(cont.term))
                key  = self.ev(tgt.slice, st)
                if isinstance(cont.ty, TMap):
                    k = coerce(key, cont.ty.k)
                    self.fail(st, z3.Not(z3.Select(cont.ty.dom(cont.term),
                                                   k.term)), 'KeyError')
                    new = Val(cont.ty, cont.ty.mk(cont.ty.val(cont.term),
                              z3.Store(cont.ty.dom(cont.term), k.term,
                                       z3.BoolVal(False))))
                    self.write_path(st, p[0], p[1], new)
                    hook = self.spec.get('on_delete', {}).get(p[0])
                    if hook is not None and not p[1]:
                        hook(self, st, k)       # ghost update tied to the deletion
                    continue
                if isinstance(cont.ty, TRec) and key.has_py():
                    fty = cont.ty.fields.get(key.py)
                    if isinstance(fty, TOpt):
                        # records conflate "key absent" and "key present with
                        # value None" (A2): deleting such a key cannot be told
                        # to fail, it leaves the field None
                        self.write_path(st, p[0], p[1] + (('f', key.py),),
                                        NONE)
                        continue
                raise OutsideSubset('del on %s' % cont.ty)
            elif isinstance(tgt, ast.Name):
                st.env.pop(tgt.id, None)
            else:
                raise OutsideSubset('del target')
        return [('next', st, None)]

    def st_Return(self, node, st):
        val = self.ev(node.value, st) if node.value is not None else NONE
        return [('return', st, val)]

    def st_Raise(self, node, st):
        if node.exc is None:
            return [('raise', st, (st.handling or '<reraise>', self.cur_line))]
        exc = node.exc
        if isinstance(exc, ast.Call):
            # evaluate the arguments: building the message may itself raise
            for a in exc.args:
                try:
                    self.ev(a, st)
                except OutsideSubset:
                    pass
            exc = exc.func
        chain = _attr_chain(exc)
        name = chain[-1] if chain else 'Exception'
        if name in st.env and isinstance(st.env[name], ExcVal):
            name = st.env[name].cls
        return [('raise', st, (name, self.cur_line))]

    def st_Assert(self, node, st):
        c = truthy(self.ev(node.test, st))
        self.fail(st, z3.Not(c), 'AssertionError')
        return [('next', st, None)]

    def branch(self, st, cond):
        '''-> [(state, taken)] for the feasible outcomes of cond'''
        cond = z3.simplify(cond)
        if z3.is_true(cond):  return [(st, True)]
        if z3.is_false(cond): return [(st, False)]
        out = list()
        if self.feasible(st, cond):
            s = st.fork(); s.pc.append(cond); out.append((s, True))
        if self.feasible(st, z3.Not(cond)):
            s = st.fork(); s.pc.append(z3.Not(cond)); out.append((s, False))
        return out

    def st_If(self, node, st):
        cond = truthy(self.ev(node.test, st))
        outs = list()
        for s, taken in self.branch(st, cond):
            s.trace.append((node.lineno, taken))
            blk = node.body if taken else node.orelse
            if blk:
                outs.extend(self.exec_block(blk, s))
            else:
                outs.append(('next', s, None))
        return outs

    def st_With(self, node, st):
        for item in node.items:
            chain = _attr_chain(item.context_expr)
            weff = self.spec.get('with_effects', {}).get('.'.join(chain)
                                                         if chain else None)
            if weff is not None:
                # the whole block is replaced by an effect (listed as dropped)
                self.fsrc.dropped.append('L%d: with %s: <block replaced by '
                    'effect %s>' % (node.lineno, '.'.join(chain),
                                    getattr(weff, '__name__', 'handler')))
                weff(self, node, st)
                return [('next', st, None)]
            if chain and ('lock' in chain[-1].lower()):
                continue              # critical section marker
            raise OutsideSubset('with %s' % ast.dump(item.context_expr)[:60])
        return self.exec_block(node.body, st)

    def st_Try(self, node, st):
        outs = list()
        body = self.exec_block(node.body, st)
        after = list()
        for kind, s, val in body:
            if kind == 'raise':
                handled = False
                for h in node.handlers:
                    if self.handler_matches(h, val[0]):
                        if h.name:
                            s.env[h.name] = ExcVal(val[0])
                        prev, s.handling = s.handling, val[0]
                        for k2, s2, v2 in self.exec_block(h.body, s):
                            s2.handling = prev
                            after.append((k2, s2, v2))
                        handled = True
                        break
                if not handled:
                    after.append((kind, s, val))
            elif kind == 'next' and node.orelse:
                after.extend(self.exec_block(node.orelse, s))
            else:
                after.append((kind, s, val))
        if not node.finalbody:
            return after
        for kind, s, val in after:
            for k2, s2, v2 in self.exec_block(node.finalbody, s):
                if k2 == 'next':
                    outs.append((kind, s2, val))
                else:
                    outs.append((k2, s2, v2))
        return outs

    def handler_matches(self, h, exc):
        if h.type is None:
            return True
        names = []
        t = h.type
        for e in (t.elts if isinstance(t, ast.Tuple) else [t]):
            chain = _attr_chain(e)
            names.append(chain[-1] if chain else '?')
        for n in names:
            if n == exc:
                return True
            hc = getattr(builtins, n, None)
            ec = getattr(builtins, exc, None)
            if n in ('Exception', 'BaseException') and ec is None:
                return True           # unknown class: assume Exception subclass
            if isinstance(hc, type) and isinstance(ec, type) and \
               issubclass(ec, hc):
                return True
        return False

    def st_Break(self, node, st):
        return [('break', st, None)]

    def st_Continue(self, node, st):
        return [('continue', st, None)]

    def st_FunctionDef(self, node, st):
        st.env[node.name] = LambdaVal(node, st)
        return [('next', st, None)]

    def st_While(self, node, st):
        from .loops import exec_while
        return exec_while(self, node, st)

    def st_For(self, node, st):
        from .loops import exec_for
        return exec_for(self, node, st)

    # --------------------------------------------------------------------------
    # merging
    #
    def merge_all(self, states):
        if len(states) <= 1 or self.opts.get('no_merge'):
            return states
        out = [states[0]]
        for s in states[1:]:
            for i, o in enumerate(out):
                m = self.merge(o, s)
                if m is not None:
                    out[i] = m
                    break
            else:
                out.append(s)
        return out

    def merge(self, a, b):
        if set(a.env) != set(b.env) or set(a.bound) != set(b.bound):
            return None
        # common prefix of the path conditions
        n = 0
        while n < len(a.pc) and n < len(b.pc) and a.pc[n] is b.pc[n]:
            n += 1
        ca = z3.And(*a.pc[n:]) if len(a.pc) > n else z3.BoolVal(True)
        cb = z3.And(*b.pc[n:]) if len(b.pc) > n else z3.BoolVal(True)
        env = dict()
        for k, va in a.env.items():
            vb = b.env[k]
            if va is vb:
                env[k] = va; continue
            if isinstance(va, Ref) or isinstance(vb, Ref):
                if isinstance(va, Ref) and va.same(vb):
                    env[k] = va; continue
                return None
            if va is STALE or vb is STALE:
                if va is vb: env[k] = va; continue
                return None
            if isinstance(va, (LambdaVal, ExcVal, ModRef)) or \
               isinstance(vb, (LambdaVal, ExcVal, ModRef)):
                return None
            m = self.merge_val(ca, va, vb)
            if m is None:
                return None
            env[k] = m
        bound = dict()
        for k in a.bound:
            bound[k] = z3.If(ca, a.bound[k], b.bound[k])
        s = State()
        s.pc    = a.pc[:n] + [z3.Or(ca, cb)]
        s.env   = env
        s.bound = bound
        s.old   = a.old
        s.trace = a.trace[:]
        s.heads = dict(a.heads)
        s.rebound = a.rebound | b.rebound
        return s

    def merge_val(self, c, va, vb):
        if isinstance(va, PyTuple) and isinstance(vb, PyTuple):
            if len(va.items) != len(vb.items) or va.is_list != vb.is_list:
                return None
            items = [self.merge_val(c, x, y) for x, y in zip(va.items, vb.items)]
            if any(i is None for i in items): return None
            return PyTuple(items, va.is_list)
        if isinstance(va, PyDict) and isinstance(vb, PyDict):
            if set(va.items) != set(vb.items): return None
            items = {k: self.merge_val(c, va.items[k], vb.items[k])
                     for k in va.items}
            if any(i is None for i in items.values()): return None
            return PyDict(items)
        if isinstance(va, (PyTuple, PyDict)) or isinstance(vb, (PyTuple, PyDict)):
            return None
        try:
            ty = join_ty(va.ty, vb.ty)
        except OutsideSubset:
            return None
        if ty == TNone:
            return NONE
        a2, b2 = coerce(va, ty), coerce(vb, ty)
        if a2.term.eq(b2.term):
            return a2
        if self.opts.get('merge') == 'scalars' and _has_list(ty):
            # containers are not merged into if-then-else terms (they would
            # hide the select/store structure the quantified invariants match)
            return None
        return Val(ty, z3.If(c, a2.term, b2.term))


def _has_list(ty):
    if isinstance(ty, TList): return True
    if isinstance(ty, TOpt):  return _has_list(ty.elem)
    if isinstance(ty, TRec):  return any(_has_list(t) for t in ty.fields.values())
    if isinstance(ty, TMap):  return _has_list(ty.v)
    if isinstance(ty, TTuple): return any(_has_list(t) for t in ty.elems)
    return False


_DERIVED = {'slice', 'cat', 'comp', 'dcomp', 'set', 'setupd', 'sorted', 'keys', 'values',
            'items', 'removed', 'bulk', 'Y'}

_an_cache = dict()


def anchors(e):
    """names of the path-specific (fresh, '!'-named) 0-ary constants in e"""
    k = e.get_id()
    if k in _an_cache:
        return _an_cache[k]
    out, todo, seen = set(), [e], set()
    while todo:
        x = todo.pop()
        i = x.get_id()
        if i in seen: continue
        seen.add(i)
        if z3.is_quantifier(x):
            todo.append(x.body()); continue
        if z3.is_app(x):
            if x.num_args() == 0 and x.decl().kind() == z3.Z3_OP_UNINTERPRETED:
                n = x.decl().name()
                if '!' in n and not n.startswith(('str!', 'dflt!', 'sum!', 'cnt!')):
                    out.add(n)
            else:
                todo.extend(x.children())
    _an_cache[k] = out
    return out


_hq_cache = dict()


def has_quant(e):
    k = e.get_id()
    if k in _hq_cache:
        return _hq_cache[k]
    todo, seen, res = [e], set(), False
    while todo:
        x = todo.pop()
        i = x.get_id()
        if i in seen: continue
        seen.add(i)
        if z3.is_quantifier(x):
            res = True; break
        todo.extend(x.children())
    _hq_cache[k] = res
    return res


class ModRef(Val):
    '''a module alias (rps, rpc, ...)'''
    __slots__ = ('mod',)

    def __init__(self, mod):
        Val.__init__(self, TPy)
        self.mod = mod


class LambdaVal(Val):
    __slots__ = ('node', 'st')

    def __init__(self, node, st):
        Val.__init__(self, TPy)
        self.node, self.st = node, st


class ExcVal(Val):
    __slots__ = ('cls',)

    def __init__(self, cls):
        Val.__init__(self, TPy)
        self.cls = cls


import operator as _op
_PYOPS = {ast.Add: _op.add, ast.Sub: _op.sub, ast.Mult: _op.mul,
          ast.Div: _op.truediv, ast.FloorDiv: _op.floordiv, ast.Mod: _op.mod}
_PYCMP = {ast.Lt: _op.lt, ast.LtE: _op.le, ast.Gt: _op.gt, ast.GtE: _op.ge}
_STR_FOLD = {'concat': lambda a, b: a + b,
             'upper': lambda a: a.upper(), 'lower': lambda a: a.lower(),
             'replace': lambda a, b, c: a.replace(b, c),
             'strip': lambda a: a.strip(),
             'str': lambda a: str(a)}

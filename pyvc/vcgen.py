"""pyvc.vcgen -- function-level verification: entry state from the contract,
symbolic execution of the real body, obligations for every exit."""

import itertools
import time
import traceback

import z3

from . import core as C
from .core import (Val, PyTuple, PyDict, NONE, OutsideSubset, SpecError, TUnion,
                   TNone, TOpt, coerce, eq, lift, named, truthy)
from .frontend import FunctionSource, ModuleEnv
from .symexec import Executor, State, Obligation, Ref, STALE


class FunctionResult:
    def __init__(self, spec):
        self.key      = spec['key']
        self.short    = spec['short']
        self.serves   = spec.get('serves', [])
        self.obls     = list()
        self.status   = 'ok'          # ok | outside-subset | spec-mismatch | error
        self.reason   = ''
        self.file     = spec['file']
        self.sha256   = None
        self.lines    = None
        self.dropped  = list()
        self.notes    = list()
        self.inline_safety = 0
        self.variants = 0
        self.covers   = list()        # (name, sat?)
        self.gen_s    = 0.0
        self.inputs   = dict()        # variant -> {name: Val} for model extraction
        self.return_paths = 0
        self.assumed  = list(spec.get('assumes', []))


def variants_of(params):
    names = list(params)
    alts  = []
    for n in names:
        t = params[n]
        alts.append(t.alts if isinstance(t, TUnion) else [t])
    for combo in itertools.product(*alts):
        yield dict(zip(names, combo))


def verify_function(spec, reg):
    res = FunctionResult(spec)
    t0  = time.time()
    try:
        parent = spec.get('nested_in')
        if parent:
            fsrc = FunctionSource(spec['file'], parent).nested(
                                          spec['qualname'].split('.')[-1])
        else:
            fsrc = FunctionSource(spec['file'], spec['qualname'])
        res.sha256, res.lines, res.dropped = fsrc.sha256, fsrc.lines, fsrc.dropped
        modenv = ModuleEnv.get(spec['file'])
        if spec.get('fragment'):
            # only one statement of a long function is verified, as a function
            # of its free variables (declared as params); the rest of the
            # function is NOT verified and is listed as such
            import ast as _ast, hashlib as _hl
            if spec.get('fragment_after'):
                # everything that follows the top-level statement containing the
                # marker, to the end of the function: robust against edits of
                # the fragment's own statements
                body = fsrc.node.body
                at = [k for k, n in enumerate(body) if spec['fragment_after'] in
                      (_ast.get_source_segment(fsrc.src, n) or '')]
                if len(at) != 1 or at[0] + 1 >= len(body):
                    raise SpecError('fragment_after %r matches %d statements of %s (or nothing follows)'
                                    % (spec['fragment_after'], len(at), spec['qualname']))
                hit = body[at[0] + 1:]
                if spec.get('fragment_before'):
                    # ... up to (not including) the statement containing this marker
                    end = [k for k, n in enumerate(hit) if spec['fragment_before'] in
                           (_ast.get_source_segment(fsrc.src, n) or '')]
                    if not end or end[0] == 0:
                        raise SpecError('fragment_before %r: no statement between the markers in %s'
                                        % (spec['fragment_before'], spec['qualname']))
                    hit = hit[:end[0]]
                tail = hit[1:]
                hit = hit[:1]
            elif spec.get('fragment_marker'):
                # robust locator: the top-level statement of the function that
                # contains the marker text (survives edits of its first line)
                hit = [n for n in fsrc.node.body if spec['fragment_marker'] in
                       (_ast.get_source_segment(fsrc.src, n) or '')]
            else:
                hit = [n for n in _ast.walk(fsrc.node) if isinstance(n, _ast.stmt) and
                       (_ast.get_source_segment(fsrc.src, n) or '').startswith(spec['fragment'])]
            if spec.get('fragment_index') is not None and len(hit) > spec['fragment_index'] \
               and len(hit) == spec.get('fragment_count', len(hit)):
                # several statements start alike: the n-th in source order, the
                # total number of matches being pinned as well
                hit = [sorted(hit, key=lambda n: n.lineno)[spec['fragment_index']]]
            if len(hit) != 1:
                raise SpecError('fragment %r matches %d statements of %s'
                                % (spec['fragment'], len(hit), spec['qualname']))
            if spec.get('fragment_until'):
                # a run of consecutive top-level statements: from the located
                # one to the (last) one that contains the end marker
                body = fsrc.node.body
                i0 = body.index(hit[0]) if hit[0] in body else None
                ends = [k for k, n in enumerate(body) if spec['fragment_until'] in
                        (_ast.get_source_segment(fsrc.src, n) or '')]
                if i0 is None or not ends or ends[-1] < i0:
                    raise SpecError('fragment end marker %r not found after the fragment start in %s'
                                    % (spec['fragment_until'], spec['qualname']))
                hit = body[i0:ends[-1] + 1]
            elif spec.get('fragment_after'):
                hit = hit + tail
            seg = '\n'.join(_ast.get_source_segment(fsrc.src, h) for h in hit)
            fsrc.dropped.append('FRAGMENT: only lines %d-%d of %s are under contract '
                '(statement starting %r); the remainder of the function is not verified'
                % (hit[0].lineno, hit[-1].end_lineno, spec['qualname'], spec['fragment'][:50]))
            fsrc.body = fsrc._drop_block(list(hit))
            fsrc.sha256 = _hl.sha256(seg.encode()).hexdigest()
            fsrc.lines = (hit[0].lineno, hit[-1].end_lineno)
            res.sha256, res.lines = fsrc.sha256, fsrc.lines
            argnames = list(spec['params'])
        else:
            argnames = [a.arg for a in fsrc.node.args.args +
                        fsrc.node.args.kwonlyargs]
        # signature check: every declared parameter exists
        for p in spec['params']:
            if p not in argnames:
                raise SpecError('%s has no parameter %s (spec mismatch)'
                                % (spec['short'], p))
        for a in ([] if spec.get('fragment') else argnames):
            if a not in spec['params'] and a != 'self' and \
               a not in spec.get('ignore_params', ()):
                raise SpecError('%s: parameter %s not covered by the spec'
                                % (spec['short'], a))
        for label, ptypes in _labelled(spec['params']):
            res.variants += 1
            _verify_variant(spec, reg, fsrc, modenv, ptypes, label, res)
    except SpecError as e:
        res.status, res.reason = 'spec-mismatch', str(e)
    except OutsideSubset as e:
        res.status, res.reason = 'outside-subset', str(e)
    except Exception as e:
        res.status = 'error'
        res.reason = '%s: %s\n%s' % (type(e).__name__, e, traceback.format_exc())
    res.gen_s = time.time() - t0
    return res


def _labelled(params):
    vs = list(variants_of(params))
    if len(vs) == 1:
        yield '', vs[0]
        return
    for v in vs:
        label = ','.join('%s:%s' % (n, t.key) for n, t in v.items()
                         if isinstance(params[n], TUnion))
        yield label, v


def entry_state(ex, spec, ptypes):
    st = State()
    for p, ty in ptypes.items():
        v = named(ty, 'in_' + p)
        st.env[p] = v
    if spec.get('self_type') is not None:
        st.env['self'] = named(spec['self_type'], 'in_self')
    for a, ty in spec.get('self', {}).items():
        st.env['self.' + a] = named(ty, 'in_self_' + a)
    for g, ty in spec.get('ghost', {}).items():
        st.env[g] = named(ty, 'in_' + g)
    for cv, ty in spec.get('captured', {}).items():
        st.env[cv] = named(ty, 'in_' + cv)
    for gv, ty in spec.get('globals', {}).items():
        st.env[gv] = named(ty, 'in_' + gv)
    for v in list(st.env.values()):
        for f in ex.wf(v):
            st.pc.append(f)
    st.old = dict(st.env)
    return st


def lemma_axiom(ex, lem):
    """the lemma as a quantified formula.  List-typed variables are replaced
    by (array, length) pairs of bound variables so that terms built from
    stores match the patterns."""
    from .core import TList, fresh_name
    st = State()
    consts = []
    for v, ty in lem['vars'].items():
        if isinstance(ty, TList):
            A = z3.Const(fresh_name('L_' + v), z3.ArraySort(z3.IntSort(), ty.elem.sort()))
            L = z3.Int(fresh_name('n_' + v))
            st.env[v] = Val(ty, ty.mk(A, L))
            consts += [A, L]
            st.pc.append(L >= 0)
        else:
            c = z3.Const(fresh_name('l_' + v), ty.sort())
            st.env[v] = Val(ty, c)
            consts.append(c)
    if lem.get('induct'):
        n = z3.Int(fresh_name('l_' + lem['induct']))
        st.env[lem['induct']] = Val(C.TInt, n)
        consts.append(n)
        st.pc.append(n >= 0)
    st.old = dict(st.env)
    st.qvars = {k: v for k, v in st.env.items()}
    saved = ex.axioms
    ex.axioms = []
    try:
        hyps = list(st.pc) + [ex.spec_bool(h, st) for h in lem.get('hyps', [])]
        goals = [ex.spec_bool(g[1] if isinstance(g, tuple) else g, st)
                 for g in lem['goals']]
        pats = [ex.spec_expr(p_, st).term for p_ in lem.get('patterns', [])]
        extra = ex.axioms
    finally:
        ex.axioms = saved
    body = z3.Implies(z3.And(*hyps), z3.And(*goals)) if hyps else z3.And(*goals)
    ax = z3.ForAll(consts, body, patterns=pats) if pats else z3.ForAll(consts, body)
    return [ax] + [a for a in extra if not _mentions_any(a, consts)]


def instantiate_lemma(ex, lem, bindings, st, rewrite=()):
    """instance of a lemma with some variables bound to given values; the
    remaining variables stay universally quantified"""
    from .core import TList, fresh_name
    ls = State()
    consts = []
    for v, ty in lem['vars'].items():
        if v in bindings:
            ls.env[v] = bindings[v]
        else:
            c = z3.Const(fresh_name('l_' + v), ty.sort())
            ls.env[v] = Val(ty, c)
            consts.append(c)
    if lem.get('induct'):
        ls.env[lem['induct']] = bindings[lem['induct']]
    ls.old = dict(ls.env)
    ls.qvars = {k: v for k, v in ls.env.items() if v.term is not None and
                any(v.term.eq(c) for c in consts)}
    hyps  = [ex.spec_bool(h, ls) for h in lem.get('hyps', [])]
    goals = [ex.spec_bool(g[1] if isinstance(g, tuple) else g, ls)
             for g in lem['goals']]
    if rewrite:
        # the same conclusions, phrased with terms the caller's invariants use
        # (e.g. len(out) for la + n); the equality is a fact of the call site
        goals = goals + [z3.substitute(g, *rewrite) for g in goals]
    if st is not None and not any(_mentions_any(h, consts) for h in hyps):
        # lemma call: the hypotheses are proved here, once, as obligations of
        # the calling function; the conclusion is then available outright
        for k, (h, text) in enumerate(zip(hyps, lem.get('hyps', []))):
            ex.oblige(st, 'lemma-call:%s/hyp%d@L%s' % (lem['name'], k + 1,
                      ex.cur_line), h, 'call-pre', note=text)
        hyps = []
    if consts and not hyps:
        # conclusions that do not mention the remaining variables are ground
        # facts: state them outside the quantifier
        ground = [g for g in goals if not _mentions_any(g, consts)]
        goals  = [g for g in goals if _mentions_any(g, consts)]
        if ground and st is not None:
            ex.axioms.extend(ground)
        if not goals:
            return z3.BoolVal(True)
    body = z3.Implies(z3.And(*hyps), z3.And(*goals)) if hyps else z3.And(*goals)
    if consts:
        pats = []
        for p_ in lem.get('patterns', []):
            t = ex.spec_expr(p_, ls).term
            if _mentions_any(t, consts):
                pats.append(t)
        for g in goals:
            if pats: break
            if z3.is_eq(g) and _mentions_any(g.arg(0), consts):
                pats.append(g.arg(0))
        return z3.ForAll(consts, body, patterns=pats) if pats else \
               z3.ForAll(consts, body)
    return body


def _mentions_any(term, consts):
    ids = {c.get_id() for c in consts}
    todo, seen = [term], set()
    while todo:
        x = todo.pop()
        if x.get_id() in seen: continue
        seen.add(x.get_id())
        if x.get_id() in ids: return True
        todo.extend(x.children())
    return False


def add_used_lemmas(ex, spec, reg):
    for name in spec.get('uses', []):
        if name not in reg.lemmas:
            raise SpecError('unknown lemma %s' % name)
        ex.axioms.extend(lemma_axiom(ex, reg.lemmas[name]))


def _verify_variant(spec, reg, fsrc, modenv, ptypes, label, res):
    if spec.get('variant_loops', {}).get(label):
        # loop invariants that only make sense for one parameter-type alternative
        spec = dict(spec)
        loops = {k: list(v) for k, v in spec.get('loops', {}).items()}
        for k, v in spec['variant_loops'][label].items():
            loops[k] = loops.get(k, []) + list(v)
        spec['loops'] = loops
    ex = Executor(spec, reg, fsrc, modenv, spec.get('opts'))
    ex.variant = label
    add_used_lemmas(ex, spec, reg)
    st = entry_state(ex, spec, ptypes)
    res.inputs[label] = dict(st.env)
    for r in spec['requires']:
        text = r[1] if isinstance(r, tuple) else r
        st.pc.append(ex.spec_bool(text, st))
    # cover: the precondition is satisfiable
    sat = ex.check_cover(st)
    res.covers.append(('%s/pre-satisfiable%s' % (spec['short'],
                       '@' + label if label else ''), str(sat)))
    if sat == z3.unsat:
        raise SpecError('precondition of %s is unsatisfiable (vacuous)'
                        % spec['short'])

    outs = ex.exec_block(fsrc.body, st)
    # exits pending at the very end (none expected)
    for exc, es, line in ex.exits:
        outs.append(('raise', es, (exc, line)))
    ex.exits = []

    rty = spec.get('returns')
    raises = spec.get('raises', {})
    n_ret = 0
    for kind, s, val in outs:
        if kind == 'next':
            kind, val = 'return', NONE
        if kind in ('continue', 'break') and spec.get('fragment'):
            # a fragment taken from inside a loop of its function: leaving it
            # towards the enclosing loop ends the fragment; which way it left is
            # visible to the contract as `exit_kind`
            s.env['exit_kind'] = C.lift(kind)
            kind, val = 'return', NONE
        elif spec.get('fragment') and kind == 'return' and 'exit_kind' not in s.env:
            s.env['exit_kind'] = C.lift('next' if val is NONE else 'return')
        if kind == 'return':
            n_ret += 1
            ex.cur_line = None
            if rty is not None:
                try:
                    val = coerce(val, rty)
                except OutsideSubset as e:
                    raise SpecError('return value of %s: %s' % (spec['short'], e))
            s.env['result'] = val
            # ensures of one parameter-type alternative only (TUnion parameters)
            v_ens = list(spec.get('variant_ensures', {}).get(ex.variant or '', []))
            for i, e in enumerate(list(spec['ensures']) + v_ens):
                name, text = e if isinstance(e, tuple) else ('post%d' % (i + 1), e)
                ex.oblige(s, 'post:%s' % name, ex.spec_bool(text, s), 'post',
                          note=text)
            for exc, cond in raises.items():
                if exc in spec.get('raises_weak', ()) or not isinstance(cond, str):
                    continue
                o = _old_state(s)
                ex.oblige(s, 'raises:%s-or-return' % exc,
                          z3.Not(ex.spec_bool(cond, o)), 'raises',
                          note='returns normally only if not (%s)' % cond)
            _frame(ex, spec, s, 'return')
            # canary: must NOT be provable
            ex.oblige(s, 'canary:return-reachable', z3.BoolVal(False), 'canary')
        elif kind == 'raise':
            exc, line = val
            ex.cur_line = line
            if exc in raises:
                cond = raises[exc]
                o = _old_state(s)
                if isinstance(cond, str):
                    ex.oblige(s, 'raises:%s@L%s' % (exc, line),
                              ex.spec_bool(cond, o), 'raises',
                              note='%s only if %s' % (exc, cond))
                for i, e in enumerate(spec.get('exc_ensures', {}).get(exc, [])):
                    name, text = e if isinstance(e, tuple) else \
                                 ('epost%d' % (i + 1), e)
                    ex.oblige(s, 'exc-post:%s:%s@L%s' % (exc, name, line),
                              ex.spec_bool(text, s), 'exc-post', note=text)
                if spec.get('frame_on_raise', True):
                    _frame(ex, spec, s, 'raise:%s@L%s' % (exc, line))
            else:
                ex.oblige(s, 'safety:no-%s@L%s' % (exc, line),
                          z3.BoolVal(False),
                          'raises' if spec.get('no_raise_is_property') else 'safety',
                          note='%s raised at line %s is not allowed by the '
                               'contract' % (exc, line))
        else:
            raise OutsideSubset('%s outside a loop' % kind)
    res.return_paths += n_ret
    res.obls.extend(ex.obls)
    res.ex = ex
    res.inline_safety += ex.inline_safety
    res.notes.extend(ex.notes)


def _old_state(s):
    o = s.fork()
    o.env = dict(s.old)
    o.bound = dict()
    return o


def _frame(ex, spec, s, where):
    '''everything the contract does not list under `modifies` is unchanged'''
    mods = set(spec.get('modifies', []))
    for name, oldv in s.old.items():
        if name in mods or name == 'clock!' or name in s.rebound:
            continue
        if name in spec.get('ghost', {}) and name in mods:
            continue
        cur = s.env.get(name)
        if cur is None or cur is STALE:
            continue
        if isinstance(cur, Ref):
            cur = ex.read_path(s, cur.root, cur.path)
        if not ex.is_mutable(oldv) and not name.startswith('self.'):
            # rebinding a scalar parameter is local; a scalar attribute of the
            # object is state
            continue
        if isinstance(cur, (PyTuple, PyDict)):
            continue
        if cur.term is not None and oldv.term is not None and \
           cur.term.eq(oldv.term):
            continue
        try:
            goal = eq(cur, oldv)
        except OutsideSubset:
            continue
        ex.oblige(s, 'frame:%s-unchanged@%s' % (name, where), goal, 'frame',
                  note='%s is not in modifies' % name)


def _induction(ex, lem, st, res):
    """lemma `forall n >= 0: hyps(n) ==> goals(n)` by induction on n:
       base: hyps(0) ==> goals(0)
       step: n >= 0, (hyps(n) ==> goals(n)), hyps(n+1) ==> goals(n+1)"""
    nname = lem['induct']

    def at(n_term, what):
        s = st.fork()
        s.env[nname] = Val(C.TInt, n_term)
        return [ex.spec_bool(t[1] if isinstance(t, tuple) else t, s)
                for t in lem.get(what, [])]
    n = z3.Int('ind_' + nname)
    # base
    b = st.fork()
    for h in at(z3.IntVal(0), 'hyps'): b.pc.append(h)
    res.covers.append(('%s/base-hyps-satisfiable' % lem['name'], str(ex.check_cover(b))))
    for g, t in zip(at(z3.IntVal(0), 'goals'), lem['goals']):
        ex.oblige(b, 'base:%s' % (t[0] if isinstance(t, tuple) else 'goal'), g,
                  'lemma', note='n = 0')
    # step
    s = st.fork()
    s.pc.append(n >= 0)
    ih_h, ih_g = at(n, 'hyps'), at(n, 'goals')
    s.pc.append(z3.Implies(z3.And(*ih_h) if ih_h else z3.BoolVal(True),
                           z3.And(*ih_g)))
    for h in at(n + 1, 'hyps'): s.pc.append(h)
    for g, t in zip(at(n + 1, 'goals'), lem['goals']):
        ex.oblige(s, 'step:%s' % (t[0] if isinstance(t, tuple) else 'goal'), g,
                  'lemma', note='induction step n -> n+1')
    ex.oblige(s, 'canary:step-hyps-consistent', z3.BoolVal(False), 'canary')


# ------------------------------------------------------------------------------
# lemmas: obligations over contracts only
#
def verify_lemma(lem, reg):
    '''a lemma is `forall vars. hyps => goal`, all written in the spec language'''
    from .symexec import Executor
    res = FunctionResult(dict(key='lemma:' + lem['name'], short=lem['name'],
                              serves=lem.get('serves', []), file='(lemma)'))
    t0 = time.time()
    try:
        spec = dict(short=lem['name'], key='lemma:' + lem['name'], params={},
                    file='states.py')

        class _NoSrc:
            rel, cls, body, lines = 'states.py', None, [], (0, 0)
        ex = Executor(spec, reg, _NoSrc(), ModuleEnv.get('states.py'))
        st = State()
        for v, ty in lem['vars'].items():
            st.env[v] = named(ty, 'lem_' + v)
            for f in ex.wf(st.env[v]):
                st.pc.append(f)
        st.old = dict(st.env)
        res.inputs[''] = dict(st.env)
        add_used_lemmas(ex, lem, reg)
        if lem.get('induct'):
            _induction(ex, lem, st, res)
            res.obls.extend(ex.obls)
            res.return_paths = 1
            res.gen_s = time.time() - t0
            return res
        for h in lem.get('hyps', []):
            st.pc.append(ex.spec_bool(h, st))
        sat = ex.check_cover(st)
        res.covers.append(('%s/hyps-satisfiable' % lem['name'], str(sat)))
        if sat == z3.unsat:
            raise SpecError('hypotheses of lemma %s are unsatisfiable'
                            % lem['name'])
        for i, g in enumerate(lem['goals']):
            name, text = g if isinstance(g, tuple) else ('goal%d' % (i + 1), g)
            ex.specmode = 0
            ex.oblige(st, name, ex.spec_bool(text, st), 'lemma', note=text)
        ex.oblige(st, 'canary:hyps-consistent', z3.BoolVal(False), 'canary')
        res.obls.extend(ex.obls)
        res.return_paths = 1
    except SpecError as e:
        res.status, res.reason = 'spec-mismatch', str(e)
    except OutsideSubset as e:
        res.status, res.reason = 'outside-subset', str(e)
    except Exception as e:
        res.status = 'error'
        res.reason = '%s: %s\n%s' % (type(e).__name__, e, traceback.format_exc())
    res.gen_s = time.time() - t0
    return res

"""pyvc.vcgen -- function-level verification: entry state from the contract,
symbolic execution of the real body, obligations for every exit."""

import itertools
import time
import traceback

import z3

from . import core as C
from .core import (Val, PyTuple, PyDict, NONE, OutsideSubset, SpecError, TUnion,
                   TNone, TOpt, coerce, eq, lift, named, truthy)
from .frontend import FunctionSource, ModuleEnv
from .symexec import Executor, State, Obligation, Ref, STALE


class FunctionResult:
    def __init__(self, spec):
        self.key      = spec['key']
        self.short    = spec['short']
        self.serves   = spec.get('serves', [])
        self.obls     = list()
        self.status   = 'ok'          # ok | outside-subset | spec-mismatch | error
        self.reason   = ''
        self.file     = spec['file']
        self.sha256   = None
        self.lines    = None
        self.dropped  = list()
        self.notes    = list()
        self.inline_safety = 0
        self.variants = 0
        self.covers   = list()        # (name, sat?)
        self.gen_s    = 0.0
        self.inputs   = dict()        # variant -> {name: Val} for model extraction
        self.return_paths = 0
        self.assumed  = list(spec.get('assumes', []))


def variants_of(params):
    names = list(params)
    alts  = []
    for n in names:
        t = params[n]
        alts.append(t.alts if isinstance(t, TUnion) else [t])
    for combo in itertools.product(*alts):
        yield dict(zip(names, combo))


def verify_function(spec, reg):
    res = FunctionResult(spec)
    t0  = time.time()
    try:
        parent = spec.get('nested_in')
        if parent:
            fsrc = FunctionSource(spec['file'], parent).nested(
                                          spec['qualname'].split('.')[-1])
        else:
            fsrc = FunctionSource(spec['file'], spec['qualname'])
        res.sha256, res.lines, res.dropped = fsrc.sha256, fsrc.lines, fsrc.dropped
        modenv = ModuleEnv.get(spec['file'])
        # signature check: every declared parameter exists
        argnames = [a.arg for a in fsrc.node.args.args +
                    fsrc.node.args.kwonlyargs]
        for p in spec['params']:
            if p not in argnames:
                raise SpecError('%s has no parameter %s (spec mismatch)'
                                % (spec['short'], p))
        for a in argnames:
            if a not in spec['params'] and a != 'self' and \
               a not in spec.get('ignore_params', ()):
                raise SpecError('%s: parameter %s not covered by the spec'
                                % (spec['short'], a))
        for label, ptypes in _labelled(spec['params']):
            res.variants += 1
            _verify_variant(spec, reg, fsrc, modenv, ptypes, label, res)
    except SpecError as e:
        res.status, res.reason = 'spec-mismatch', str(e)
    except OutsideSubset as e:
        res.status, res.reason = 'outside-subset', str(e)
    except Exception as e:
        res.status = 'error'
        res.reason = '%s: %s\n%s' % (type(e).__name__, e, traceback.format_exc())
    res.gen_s = time.time() - t0
    return res


def _labelled(params):
    vs = list(variants_of(params))
    if len(vs) == 1:
        yield '', vs[0]
        return
    for v in vs:
        label = ','.join('%s:%s' % (n, t.key) for n, t in v.items()
                         if isinstance(params[n], TUnion))
        yield label, v


def entry_state(ex, spec, ptypes):
    st = State()
    for p, ty in ptypes.items():
        v = named(ty, 'in_' + p)
        st.env[p] = v
    if spec.get('self_type') is not None:
        st.env['self'] = named(spec['self_type'], 'in_self')
    for a, ty in spec.get('self', {}).items():
        st.env['self.' + a] = named(ty, 'in_self_' + a)
    for g, ty in spec.get('ghost', {}).items():
        st.env[g] = named(ty, 'in_' + g)
    for cv, ty in spec.get('captured', {}).items():
        st.env[cv] = named(ty, 'in_' + cv)
    for gv, ty in spec.get('globals', {}).items():
        st.env[gv] = named(ty, 'in_' + gv)
    for v in list(st.env.values()):
        for f in ex.wf(v):
            st.pc.append(f)
    st.old = dict(st.env)
    return st


def _verify_variant(spec, reg, fsrc, modenv, ptypes, label, res):
    ex = Executor(spec, reg, fsrc, modenv, spec.get('opts'))
    ex.variant = label
    st = entry_state(ex, spec, ptypes)
    res.inputs[label] = dict(st.env)
    for r in spec['requires']:
        text = r[1] if isinstance(r, tuple) else r
        st.pc.append(ex.spec_bool(text, st))
    # cover: the precondition is satisfiable
    sat = ex.check(st)
    res.covers.append(('%s/pre-satisfiable%s' % (spec['short'],
                       '@' + label if label else ''), str(sat)))
    if sat == z3.unsat:
        raise SpecError('precondition of %s is unsatisfiable (vacuous)'
                        % spec['short'])

    outs = ex.exec_block(fsrc.body, st)
    # exits pending at the very end (none expected)
    for exc, es, line in ex.exits:
        outs.append(('raise', es, (exc, line)))
    ex.exits = []

    rty = spec.get('returns')
    raises = spec.get('raises', {})
    n_ret = 0
    for kind, s, val in outs:
        if kind == 'next':
            kind, val = 'return', NONE
        if kind == 'return':
            n_ret += 1
            ex.cur_line = None
            if rty is not None:
                try:
                    val = coerce(val, rty)
                except OutsideSubset as e:
                    raise SpecError('return value of %s: %s' % (spec['short'], e))
            s.env['result'] = val
            for i, e in enumerate(spec['ensures']):
                name, text = e if isinstance(e, tuple) else ('post%d' % (i + 1), e)
                ex.oblige(s, 'post:%s' % name, ex.spec_bool(text, s), 'post',
                          note=text)
            for exc, cond in raises.items():
                if exc in spec.get('raises_weak', ()) or not isinstance(cond, str):
                    continue
                o = _old_state(s)
                ex.oblige(s, 'raises:%s-or-return' % exc,
                          z3.Not(ex.spec_bool(cond, o)), 'raises',
                          note='returns normally only if not (%s)' % cond)
            _frame(ex, spec, s, 'return')
            # canary: must NOT be provable
            ex.oblige(s, 'canary:return-reachable', z3.BoolVal(False), 'canary')
        elif kind == 'raise':
            exc, line = val
            ex.cur_line = line
            if exc in raises:
                cond = raises[exc]
                o = _old_state(s)
                if isinstance(cond, str):
                    ex.oblige(s, 'raises:%s@L%s' % (exc, line),
                              ex.spec_bool(cond, o), 'raises',
                              note='%s only if %s' % (exc, cond))
                for i, e in enumerate(spec.get('exc_ensures', {}).get(exc, [])):
                    name, text = e if isinstance(e, tuple) else \
                                 ('epost%d' % (i + 1), e)
                    ex.oblige(s, 'exc-post:%s:%s@L%s' % (exc, name, line),
                              ex.spec_bool(text, s), 'exc-post', note=text)
                if spec.get('frame_on_raise', True):
                    _frame(ex, spec, s, 'raise:%s@L%s' % (exc, line))
            else:
                ex.oblige(s, 'safety:no-%s@L%s' % (exc, line),
                          z3.BoolVal(False),
                          'raises' if spec.get('no_raise_is_property') else 'safety',
                          note='%s raised at line %s is not allowed by the '
                               'contract' % (exc, line))
        else:
            raise OutsideSubset('%s outside a loop' % kind)
    res.return_paths += n_ret
    res.obls.extend(ex.obls)
    res.inline_safety += ex.inline_safety
    res.notes.extend(ex.notes)


def _old_state(s):
    o = s.fork()
    o.env = dict(s.old)
    o.bound = dict()
    return o


def _frame(ex, spec, s, where):
    '''everything the contract does not list under `modifies` is unchanged'''
    mods = set(spec.get('modifies', []))
    for name, oldv in s.old.items():
        if name in mods or name == 'clock!' or name in s.rebound:
            continue
        if name in spec.get('ghost', {}) and name in mods:
            continue
        cur = s.env.get(name)
        if cur is None or cur is STALE:
            continue
        if isinstance(cur, Ref):
            cur = ex.read_path(s, cur.root, cur.path)
        if not ex.is_mutable(oldv):
            continue
        if isinstance(cur, (PyTuple, PyDict)):
            continue
        if cur.term is not None and oldv.term is not None and \
           cur.term.eq(oldv.term):
            continue
        try:
            goal = eq(cur, oldv)
        except OutsideSubset:
            continue
        ex.oblige(s, 'frame:%s-unchanged@%s' % (name, where), goal, 'frame',
                  note='%s is not in modifies' % name)


# ------------------------------------------------------------------------------
# lemmas: obligations over contracts only
#
def verify_lemma(lem, reg):
    '''a lemma is `forall vars. hyps => goal`, all written in the spec language'''
    from .symexec import Executor
    res = FunctionResult(dict(key='lemma:' + lem['name'], short=lem['name'],
                              serves=lem.get('serves', []), file='(lemma)'))
    t0 = time.time()
    try:
        spec = dict(short=lem['name'], key='lemma:' + lem['name'], params={},
                    file='states.py')

        class _NoSrc:
            rel, cls, body, lines = 'states.py', None, [], (0, 0)
        ex = Executor(spec, reg, _NoSrc(), ModuleEnv.get('states.py'))
        st = State()
        for v, ty in lem['vars'].items():
            st.env[v] = named(ty, 'lem_' + v)
            for f in ex.wf(st.env[v]):
                st.pc.append(f)
        st.old = dict(st.env)
        res.inputs[''] = dict(st.env)
        for h in lem.get('hyps', []):
            st.pc.append(ex.spec_bool(h, st))
        sat = ex.check(st)
        res.covers.append(('%s/hyps-satisfiable' % lem['name'], str(sat)))
        if sat == z3.unsat:
            raise SpecError('hypotheses of lemma %s are unsatisfiable'
                            % lem['name'])
        for i, g in enumerate(lem['goals']):
            name, text = g if isinstance(g, tuple) else ('goal%d' % (i + 1), g)
            ex.specmode = 0
            ex.oblige(st, name, ex.spec_bool(text, st), 'lemma', note=text)
        ex.oblige(st, 'canary:hyps-consistent', z3.BoolVal(False), 'canary')
        res.obls.extend(ex.obls)
        res.return_paths = 1
    except SpecError as e:
        res.status, res.reason = 'spec-mismatch', str(e)
    except OutsideSubset as e:
        res.status, res.reason = 'outside-subset', str(e)
    except Exception as e:
        res.status = 'error'
        res.reason = '%s: %s\n%s' % (type(e).__name__, e, traceback.format_exc())
    res.gen_s = time.time() - t0
    return res

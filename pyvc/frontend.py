"""pyvc.frontend -- locate the real function in /repo, drop what §2.3 of the
design allows, resolve module-level constants.

Nothing here is hand-copied code: every run re-reads the file on disk.
"""

import ast
import os
import hashlib
import runpy

from .core import OutsideSubset, SpecError

REPO = os.environ.get('VERIF_REPO', '/repo')
PKG  = 'src/radical/pilot'

# modules which import nothing but the stdlib and can be executed stand-alone
# to obtain their module-level constants (re-read on every run)
_PURE_MODULES = {'states.py', 'constants.py'}

# receivers whose calls are dropped (logging / profiling / reporting)
_DROP_RECV = {('self', '_log'), ('self', '_prof'), ('self', '_rep'),
              ('log',), ('pprint',), ('self', '_logger'), ('self', '_reporter'),
              ('logger',)}

_PURE_IN_LOGARGS = {'len', 'str', 'repr', 'int', 'float', 'list', 'sorted',
                    'type', 'id', 'bool', 'dict', 'set', 'tuple', 'sum', 'min', 'max'}


def pkg_path(rel):
    return os.path.join(REPO, PKG, rel)


_file_cache = dict()


def parse_file(rel):
    path = pkg_path(rel)
    if path not in _file_cache:
        if not os.path.isfile(path):
            raise SpecError('file %s does not exist' % path)
        src = open(path).read()
        _file_cache[path] = (src, ast.parse(src))
    return _file_cache[path]


class FunctionSource:
    '''a function of the real tree, located by qualified name'''

    def __init__(self, rel, qualname):
        self.rel      = rel
        self.qualname = qualname
        self.src, self.tree = parse_file(rel)
        self.node, self.cls = self._locate(qualname)
        seg = ast.get_source_segment(self.src, self.node) or ''
        self.sha256  = hashlib.sha256(seg.encode()).hexdigest()
        self.lines   = (self.node.lineno, self.node.end_lineno)
        self.dropped = list()
        self.body    = self._drop_block(self.node.body)

    def _locate(self, qualname):
        parts = qualname.split('.')
        scope = self.tree
        cls   = None
        node  = None
        for part in parts:
            found = None
            for child in ast.walk(scope) if isinstance(scope, ast.Module) \
                         and False else _direct_defs(scope):
                if isinstance(child, (ast.FunctionDef, ast.AsyncFunctionDef,
                                      ast.ClassDef)) and child.name == part:
                    found = child
                    break
            if found is None:
                raise SpecError('%s: %s not found (spec mismatch)'
                                % (self.rel, qualname))
            if isinstance(found, ast.ClassDef):
                cls = found.name
            node  = found
            scope = found
        if not isinstance(node, (ast.FunctionDef, ast.AsyncFunctionDef)):
            raise SpecError('%s: %s is not a function' % (self.rel, qualname))
        return node, cls

    # --------------------------------------------------------------------------
    def _is_droppable_call(self, call):
        if not isinstance(call, ast.Call):
            return False
        chain = _attr_chain(call.func)
        if not chain:
            return False
        if chain == ('time', 'sleep'):
            return True
        recv = chain[:-1]
        if recv not in _DROP_RECV:
            return False
        # arguments must be free of calls outside the pure list
        for arg in list(call.args) + [k.value for k in call.keywords]:
            for sub in ast.walk(arg):
                if isinstance(sub, ast.Call):
                    c = _attr_chain(sub.func)
                    if not c:
                        return False
                    if c[0] == 'pprint' or c[-1] in _PURE_IN_LOGARGS or \
                       c[-1] in ('get', 'keys', 'values', 'join', 'format',
                                 'pformat', 'as_dict'):
                        continue
                    return False
        return True

    def _drop_block(self, stmts):
        out = list()
        for i, s in enumerate(stmts):
            if isinstance(s, ast.Expr):
                if isinstance(s.value, ast.Constant) and \
                   isinstance(s.value.value, str):
                    continue                                      # docstring
                if self._is_droppable_call(s.value):
                    self.dropped.append('L%d: %s' % (s.lineno,
                              (ast.get_source_segment(self.src, s) or '')
                              .split('\n')[0][:100]))
                    # the call is dropped, but evaluating its arguments can
                    # still raise (unbound local, missing key): keep them
                    args = list(s.value.args) + [k.value for k in s.value.keywords]
                    if args:
                        keep = ast.Expr(value=ast.Tuple(elts=args, ctx=ast.Load()))
                        ast.copy_location(keep, s)
                        ast.fix_missing_locations(keep)
                        keep._dropped_call_args = True
                        out.append(keep)
                    continue
            s = self._drop_inner(s)
            out.append(s)
        if not out:
            out.append(ast.Pass())
        return out

    def _drop_inner(self, s):
        for field in ('body', 'orelse', 'finalbody'):
            if isinstance(s, (ast.FunctionDef, ast.AsyncFunctionDef,
                              ast.ClassDef)):
                break
            blk = getattr(s, field, None)
            if isinstance(blk, list) and blk and isinstance(blk[0], ast.stmt):
                setattr(s, field, self._drop_block(blk))
        if isinstance(s, ast.Try):
            for h in s.handlers:
                h.body = self._drop_block(h.body)
        if isinstance(s, (ast.FunctionDef, ast.AsyncFunctionDef)):
            # nested function: handled when verified on its own
            pass
        return s

    def nested(self, name):
        '''FunctionSource-like view of a nested def'''
        for child in ast.walk(self.node):
            if isinstance(child, ast.FunctionDef) and child.name == name \
               and child is not self.node:
                sub = object.__new__(FunctionSource)
                sub.rel, sub.qualname = self.rel, self.qualname + '.' + name
                sub.src, sub.tree = self.src, self.tree
                sub.node, sub.cls = child, self.cls
                seg = ast.get_source_segment(self.src, child) or ''
                sub.sha256  = hashlib.sha256(seg.encode()).hexdigest()
                sub.lines   = (child.lineno, child.end_lineno)
                sub.dropped = list()
                sub.body    = sub._drop_block(child.body)
                return sub
        raise SpecError('%s: nested %s not found' % (self.qualname, name))


def _direct_defs(scope):
    '''definitions directly inside `scope` (module, class or function body),
    looking through if/try/with blocks but not into other defs'''
    out  = list()
    todo = list(getattr(scope, 'body', []))
    while todo:
        n = todo.pop(0)
        if isinstance(n, (ast.FunctionDef, ast.AsyncFunctionDef, ast.ClassDef)):
            out.append(n)
            continue
        for field in ('body', 'orelse', 'finalbody'):
            todo.extend(getattr(n, field, []) or [])
        if isinstance(n, ast.Try):
            for h in n.handlers:
                todo.extend(h.body)
    return out


def _attr_chain(node):
    '''('self','_log','debug') for self._log.debug, or None'''
    parts = list()
    while isinstance(node, ast.Attribute):
        parts.append(node.attr)
        node = node.value
    if isinstance(node, ast.Name):
        parts.append(node.id)
        return tuple(reversed(parts))
    return None


# ------------------------------------------------------------------------------
#
class Unknown:
    '''a module-level name whose value is not a constant'''
    def __init__(self, what): self.what = what
    def __repr__(self): return '<unknown %s>' % self.what


class ModuleEnv:
    '''module-level constants of a file of the real tree'''

    _cache = dict()

    @classmethod
    def get(cls, rel):
        rel = os.path.normpath(rel)
        if rel not in cls._cache:
            cls._cache[rel] = ModuleEnv(rel)
        return cls._cache[rel]

    def __init__(self, rel):
        self.rel = rel
        self.src, self.tree = parse_file(rel)
        self.assigns = dict()      # name -> ast value
        self.imports = dict()      # alias -> ('module', rel) | ('name', rel, name) | ('ext', dotted)
        self.defs    = dict()      # name -> ast def
        self._values = dict()
        self.nonconst = set()
        self._pure   = None
        if os.path.basename(rel) in _PURE_MODULES:
            self._pure = runpy.run_path(pkg_path(rel))
        self._scan()

    def _scan(self):
        pkgdir = os.path.dirname(self.rel)
        for n in self.tree.body:
            if isinstance(n, ast.Assign):
                for t in n.targets:
                    if isinstance(t, ast.Name):
                        self.assigns[t.id] = n.value
                    elif isinstance(t, ast.Tuple) and \
                         isinstance(n.value, ast.Tuple) and \
                         len(t.elts) == len(n.value.elts):
                        for tt, vv in zip(t.elts, n.value.elts):
                            if isinstance(tt, ast.Name):
                                self.assigns[tt.id] = vv
            elif isinstance(n, (ast.FunctionDef, ast.ClassDef)):
                self.defs[n.name] = n
            elif isinstance(n, (ast.If, ast.For, ast.While, ast.Try, ast.With)):
                # names (re)assigned conditionally at module level are not
                # constants
                for sub in ast.walk(n):
                    if isinstance(sub, ast.Name) and \
                       isinstance(sub.ctx, ast.Store):
                        self.nonconst.add(sub.id)
            elif isinstance(n, ast.Import):
                for a in n.names:
                    self.imports[a.asname or a.name.split('.')[0]] = \
                                                         ('ext', a.name)
            elif isinstance(n, ast.ImportFrom):
                if n.level == 0:
                    for a in n.names:
                        self.imports[a.asname or a.name] = \
                                     ('ext', '%s.%s' % (n.module, a.name))
                    continue
                base = pkgdir
                for _ in range(n.level - 1):
                    base = os.path.dirname(base)
                modpath = os.path.join(base, *(n.module.split('.'))) \
                          if n.module else base
                for a in n.names:
                    alias = a.asname or a.name
                    # `from . import states as rps`  -> module
                    cand = os.path.join(modpath, a.name)
                    if os.path.isfile(pkg_path(cand + '.py')):
                        self.imports[alias] = ('module', cand + '.py')
                    elif os.path.isdir(pkg_path(cand)):
                        self.imports[alias] = ('module',
                                          os.path.join(cand, '__init__.py'))
                    elif os.path.isfile(pkg_path(modpath + '.py')):
                        self.imports[alias] = ('name', modpath + '.py', a.name)
                    elif os.path.isdir(pkg_path(modpath)):
                        self.imports[alias] = ('name',
                               os.path.join(modpath, '__init__.py'), a.name)
                    else:
                        self.imports[alias] = ('ext', '?')

    def lookup(self, name):
        '''python constant, ModuleEnv (module alias), or Unknown'''
        if name in self._values:
            return self._values[name]
        val = Unknown(name)
        if self._pure is not None and name in self._pure:
            v = self._pure[name]
            if _is_const(v):
                val = v
        elif name in self.nonconst:
            val = Unknown('%s (assigned conditionally at module level)' % name)
        elif name in self.assigns:
            self._values[name] = Unknown(name)        # recursion guard
            try:
                val = self._const_eval(self.assigns[name])
            except _NotConst:
                val = Unknown(name)
        elif name in self.imports:
            imp = self.imports[name]
            if imp[0] == 'module':
                try:
                    val = ModuleEnv.get(imp[1])
                except (SpecError, SyntaxError):
                    val = Unknown(name)
            elif imp[0] == 'name':
                try:
                    val = ModuleEnv.get(imp[1]).lookup(imp[2])
                except (SpecError, SyntaxError):
                    val = Unknown(name)
            else:
                val = Unknown('external %s' % imp[1])
        elif name in self.defs:
            val = Unknown('def %s' % name)
        self._values[name] = val
        return val

    def _const_eval(self, n):
        if isinstance(n, ast.Constant):
            return n.value
        if isinstance(n, ast.Name):
            v = self.lookup(n.id)
            if isinstance(v, (Unknown, ModuleEnv)):
                raise _NotConst()
            return v
        if isinstance(n, ast.Attribute):
            if isinstance(n.value, ast.Name):
                base = self.lookup(n.value.id)
                if isinstance(base, ModuleEnv):
                    v = base.lookup(n.attr)
                    if isinstance(v, (Unknown, ModuleEnv)):
                        raise _NotConst()
                    return v
            raise _NotConst()
        if isinstance(n, ast.List):
            return [self._const_eval(e) for e in n.elts]
        if isinstance(n, ast.Tuple):
            return tuple(self._const_eval(e) for e in n.elts)
        if isinstance(n, ast.Set):
            return set(self._const_eval(e) for e in n.elts)
        if isinstance(n, ast.Dict):
            if any(k is None for k in n.keys):
                raise _NotConst()
            return {self._const_eval(k): self._const_eval(v)
                    for k, v in zip(n.keys, n.values)}
        if isinstance(n, ast.UnaryOp) and isinstance(n.op, ast.USub):
            return -self._const_eval(n.operand)
        if isinstance(n, ast.BinOp):
            a, b = self._const_eval(n.left), self._const_eval(n.right)
            try:
                if isinstance(n.op, ast.Add):  return a + b
                if isinstance(n.op, ast.Sub):  return a - b
                if isinstance(n.op, ast.Mult): return a * b
                if isinstance(n.op, ast.Mod):  return a % b
            except Exception:
                raise _NotConst()
        if isinstance(n, ast.Call) and isinstance(n.func, ast.Name) and \
           n.func.id in ('list', 'dict', 'set', 'tuple') and not n.args \
           and not n.keywords:
            return {'list': [], 'dict': {}, 'set': set(), 'tuple': ()}[n.func.id]
        raise _NotConst()


class _NotConst(Exception):
    pass


def _is_const(v):
    if v is None or isinstance(v, (bool, int, float, str)):
        return True
    if isinstance(v, (list, tuple, set, frozenset)):
        return all(_is_const(x) for x in v)
    if isinstance(v, dict):
        return all(_is_const(k) and _is_const(x) for k, x in v.items())
    return False

"""pyvc.core -- type descriptors, symbolic values and Python operator semantics.

Every Python value the engine handles is a `Val(ty, term, py)`:
  ty   : a type descriptor (below) that fixes the SMT sort,
  term : a z3 term of that sort (None for the unit type TNone and for
         python-side structures),
  py   : the concrete Python value when it is statically known (constant
         folding: string formatting of constants, literal lists, module
         constants), else NOPY.

Python-side structures (PyTuple / PyList / PyDict) are sequences / maps whose
*shape* is static (literal displays, module constants) but whose elements may
be symbolic; they are converted to SMT terms by `coerce` when they flow into a
declared type.
"""

import z3

NOPY = object()


class OutsideSubset(Exception):
    """the code uses a construct the engine does not model -> undecided"""


class SpecError(Exception):
    """the sidecar spec does not fit the code -> undecided (spec mismatch)"""


# ------------------------------------------------------------------------------
# sorts
#
StrSort = z3.DeclareSort('Str')
AnySort = z3.DeclareSort('Any')

def _san(key):
    return ''.join(c if c.isalnum() else '_' for c in key)


_STR_LITS = dict()      # python str -> z3 const of StrSort
_DT_CACHE = dict()      # key -> z3 datatype sort


def str_lit(s):
    if s not in _STR_LITS:
        _STR_LITS[s] = z3.Const('str!%s' % _san(s) if _san(s) == s and s
                                else 'str!%d!%s' % (len(_STR_LITS), _san(s)),
                                StrSort)
    return _STR_LITS[s]


def str_axioms():
    lits = list(_STR_LITS.values())
    if len(lits) > 1:
        return [z3.Distinct(*lits)]
    return []


def str_of_model_value(model, term):
    '''map a model value of sort Str back to a python string'''
    v = model.eval(term, model_completion=True)
    for s, c in _STR_LITS.items():
        cv = model.eval(c, model_completion=True)
        if cv.eq(v):
            return s
    return 'str_%s' % str(v).replace('!', '_')


# ------------------------------------------------------------------------------
# type descriptors
#
class Ty:
    key = None

    def sort(self):
        raise NotImplementedError

    def __eq__(self, other):
        return isinstance(other, Ty) and self.key == other.key

    def __ne__(self, other):
        return not self == other

    def __hash__(self):
        return hash(self.key)

    def __repr__(self):
        return self.key


class _TInt(Ty):
    key = 'Int'
    def sort(self): return z3.IntSort()


class _TReal(Ty):
    key = 'Real'
    def sort(self): return z3.RealSort()


class _TBool(Ty):
    key = 'Bool'
    def sort(self): return z3.BoolSort()


class _TStr(Ty):
    key = 'Str'
    def sort(self): return StrSort


class _TAny(Ty):
    key = 'Any'
    def sort(self): return AnySort


class _TNone(Ty):
    key = 'None'
    def sort(self): raise OutsideSubset('None has no sort of its own')


class _TPy(Ty):
    '''python-side structure (tuple / list / dict display, module constant)'''
    key = 'Py'
    def sort(self): raise OutsideSubset('python-side structure has no sort')


TInt, TReal, TBool, TStr, TAny, TNone, TPy = \
    _TInt(), _TReal(), _TBool(), _TStr(), _TAny(), _TNone(), _TPy()


class TOpt(Ty):
    def __init__(self, elem):
        assert not isinstance(elem, (TOpt, _TNone)), elem
        self.elem = elem
        self.key = 'Opt[%s]' % elem.key

    def sort(self):
        if self.key not in _DT_CACHE:
            k = _san(self.key)
            dt = z3.Datatype(k)
            dt.declare('none_' + k)
            dt.declare('some_' + k, ('val_' + k, self.elem.sort()))
            _DT_CACHE[self.key] = dt.create()
        return _DT_CACHE[self.key]

    def none(self):      return self.sort().constructor(0)()
    def some(self, t):   return self.sort().constructor(1)(t)
    def is_none(self, t): return self.sort().recognizer(0)(t)
    def is_some(self, t): return self.sort().recognizer(1)(t)
    def val(self, t):    return self.sort().accessor(1, 0)(t)


class TList(Ty):
    def __init__(self, elem):
        self.elem = elem
        self.key = 'List[%s]' % elem.key

    def sort(self):
        if self.key not in _DT_CACHE:
            k = _san(self.key)
            dt = z3.Datatype(k)
            dt.declare('mk_' + k, ('arr_' + k, z3.ArraySort(z3.IntSort(),
                                                  self.elem.sort())),
                                  ('len_' + k, z3.IntSort()))
            _DT_CACHE[self.key] = dt.create()
        return _DT_CACHE[self.key]

    def mk(self, arr, ln): return self.sort().constructor(0)(arr, ln)
    def arr(self, t):      return self.sort().accessor(0, 0)(t)
    def len(self, t):      return self.sort().accessor(0, 1)(t)


class TRec(Ty):
    def __init__(self, name, fields):
        self.name   = name
        self.fields = dict(fields)
        self.key    = 'Rec[%s]' % name
        if self.key in _REC_REG:
            old = _REC_REG[self.key]
            assert list(old.fields.items()) == list(self.fields.items()), \
                   'record %s redefined' % name
        _REC_REG[self.key] = self

    def sort(self):
        if self.key not in _DT_CACHE:
            dt = z3.Datatype(_san(self.key))
            dt.declare('mk_' + _san(self.key), *[(self._acc(f), t.sort())
                               for f, t in self.fields.items()])
            _DT_CACHE[self.key] = dt.create()
        return _DT_CACHE[self.key]

    def _acc(self, f):
        return '%s__%s' % (_san(self.name), _san(f))

    def get(self, t, f):
        srt = self.sort()
        idx = list(self.fields).index(f)
        return srt.accessor(0, idx)(t)

    def mk(self, *terms):
        return self.sort().constructor(0)(*terms)

    def set(self, t, f, new):
        return self.mk(*[new if g == f else self.get(t, g)
                         for g in self.fields])


_REC_REG = dict()


class TMap(Ty):
    def __init__(self, key, val):
        self.k, self.v = key, val
        self.key = 'Map[%s,%s]' % (key.key, val.key)

    def sort(self):
        if self.key not in _DT_CACHE:
            k = _san(self.key)
            dt = z3.Datatype(k)
            dt.declare('mk_' + k, ('mval_' + k, z3.ArraySort(self.k.sort(),
                                                  self.v.sort())),
                                  ('mdom_' + k, z3.ArraySort(self.k.sort(),
                                                  z3.BoolSort())))
            _DT_CACHE[self.key] = dt.create()
        return _DT_CACHE[self.key]

    def mk(self, val, dom): return self.sort().constructor(0)(val, dom)
    def val(self, t):       return self.sort().accessor(0, 0)(t)
    def dom(self, t):       return self.sort().accessor(0, 1)(t)


class TDefMap(TMap):
    """collections.defaultdict(list | dict): same representation as a Map; a
    missing key reads as the empty list / dict and is inserted by the access (the
    value array holds the empty value outside the domain: a well-formedness
    fact)"""
    default = 'list'


class TSet(Ty):
    def __init__(self, key):
        self.k = key
        self.key = 'Set[%s]' % key.key

    def sort(self):
        return z3.ArraySort(self.k.sort(), z3.BoolSort())


class TTuple(Ty):
    def __init__(self, elems):
        self.elems = list(elems)
        self.key = 'Tuple[%s]' % ','.join(e.key for e in self.elems)

    def sort(self):
        if self.key not in _DT_CACHE:
            k = _san(self.key)
            dt = z3.Datatype(k)
            dt.declare('mk_' + k, *[('%s__%d' % (k, i), t.sort())
                               for i, t in enumerate(self.elems)])
            _DT_CACHE[self.key] = dt.create()
        return _DT_CACHE[self.key]

    def get(self, t, i): return self.sort().accessor(0, i)(t)
    def mk(self, *ts):   return self.sort().constructor(0)(*ts)


class TUnion(Ty):
    '''only for parameters: the function is verified once per alternative'''
    def __init__(self, alts):
        self.alts = list(alts)
        self.key = 'Union[%s]' % ','.join(a.key for a in self.alts)

    def sort(self):
        raise OutsideSubset('union has no sort')


def OptOf(t):
    if isinstance(t, TOpt): return t
    return TOpt(t)


# ------------------------------------------------------------------------------
# values
#
class Val:
    __slots__ = ('ty', 'term', 'py')

    def __init__(self, ty, term=None, py=NOPY):
        self.ty, self.term, self.py = ty, term, py

    def has_py(self):
        return self.py is not NOPY

    def __repr__(self):
        if self.has_py():
            return 'Val(%s, py=%r)' % (self.ty, self.py)
        return 'Val(%s, %s)' % (self.ty, self.term)


class PyTuple(Val):
    '''python-side tuple / list display: static length, symbolic elements'''
    __slots__ = ('items', 'is_list')

    def __init__(self, items, is_list=False):
        Val.__init__(self, TPy)
        self.items   = list(items)
        self.is_list = is_list

    def __repr__(self):
        return 'PyTuple(%r)' % (self.items,)


class PyDict(Val):
    '''python-side dict: static (constant) keys, symbolic values'''
    __slots__ = ('items',)

    def __init__(self, items):
        Val.__init__(self, TPy)
        self.items = dict(items)      # python key -> Val

    def __repr__(self):
        return 'PyDict(%r)' % (self.items,)


class RepVal(Val):
    """[x] * n : python-side list repetition with a symbolic count"""
    __slots__ = ('elem', 'count')

    def __init__(self, elem, count):
        Val.__init__(self, TPy)
        self.elem, self.count = elem, count


NONE = Val(TNone, None, None)


def lift(py):
    '''lift a concrete python value'''
    if isinstance(py, Val):   return py
    if py is None:            return NONE
    if isinstance(py, bool):  return Val(TBool, z3.BoolVal(py), py)
    if isinstance(py, int):   return Val(TInt,  z3.IntVal(py), py)
    if isinstance(py, float): return Val(TReal, z3.RealVal(repr(py)), py)
    if isinstance(py, str):   return Val(TStr,  str_lit(py), py)
    if isinstance(py, (list, tuple)):
        return PyTuple([lift(x) for x in py], is_list=isinstance(py, list))
    if isinstance(py, dict):
        return PyDict({k: lift(v) for k, v in py.items()})
    if isinstance(py, (set, frozenset)):
        return PyTuple([lift(x) for x in sorted(py, key=repr)], is_list=True)
    raise OutsideSubset('cannot lift constant %r' % (py,))


_fresh_cnt = [0]


def fresh_name(hint):
    _fresh_cnt[0] += 1
    return '%s!%d' % (hint, _fresh_cnt[0])


def fresh(ty, hint='v'):
    if ty == TNone:
        return NONE
    return Val(ty, z3.Const(fresh_name(hint), ty.sort()))


def named(ty, name):
    if ty == TNone:
        return NONE
    return Val(ty, z3.Const(name, ty.sort()))


# ------------------------------------------------------------------------------
# type join / coercion
#
def join_ty(a, b):
    if a == b:                       return a
    if a == TNone:                   return OptOf(b)
    if b == TNone:                   return OptOf(a)
    if isinstance(a, TOpt) and a.elem == b: return a
    if isinstance(b, TOpt) and b.elem == a: return b
    if {a, b} == {TInt, TReal}:      return TReal
    if {a, b} == {TInt, TBool}:      return TInt
    if isinstance(a, TOpt) and isinstance(b, TOpt):
        return OptOf(join_ty(a.elem, b.elem))
    if isinstance(a, TOpt):          return OptOf(join_ty(a.elem, b))
    if isinstance(b, TOpt):          return OptOf(join_ty(a, b.elem))
    raise OutsideSubset('no common type for %s and %s' % (a, b))


def coerce(v, ty):
    '''convert value `v` to type `ty` (total; raises OutsideSubset if the
    shapes cannot match)'''
    if isinstance(ty, TUnion):
        for alt in ty.alts:
            try:
                return coerce(v, alt)
            except OutsideSubset:
                continue
        raise OutsideSubset('cannot coerce %s to %s' % (v, ty))
    if v.ty == ty:
        return v
    if ty == TNone:
        if v.ty == TNone: return v
        raise OutsideSubset('cannot coerce %s to None' % v)
    if ty == TAny:
        return Val(TAny, z3.Const(fresh_name('any'), AnySort))
    if isinstance(ty, TOpt):
        if v.ty == TNone:
            return Val(ty, ty.none(), None)
        if isinstance(v.ty, TOpt):
            # Opt[A] -> Opt[B]
            inner = coerce(Val(v.ty.elem, v.ty.val(v.term)), ty.elem)
            return Val(ty, z3.If(v.ty.is_none(v.term), ty.none(),
                                 ty.some(inner.term)))
        inner = coerce(v, ty.elem)
        return Val(ty, ty.some(inner.term), inner.py)
    if isinstance(v.ty, TOpt) and v.ty.elem == ty:
        # Opt[T] where T is expected: the payload (None here would be a shape
        # violation, assumption A2)
        return Val(ty, v.ty.val(v.term))
    if isinstance(ty, TRec) and isinstance(v.ty, TRec) and not isinstance(v, PyDict) and \
       set(ty.fields) == set(v.ty.fields):
        # a record with the same keys (a plain dict handed to a typed-dict
        # constructor is cast field by field)
        return Val(ty, ty.mk(*[coerce(Val(v.ty.fields[f], v.ty.get(v.term, f)), ft).term
                               for f, ft in ty.fields.items()]))
    if isinstance(ty, TList) and isinstance(v.ty, TList) and not isinstance(v, PyTuple) and \
       isinstance(ty.elem, TRec) and isinstance(v.ty.elem, TRec) and \
       set(ty.elem.fields) == set(v.ty.elem.fields):
        i = z3.Int(fresh_name('cv'))
        conv = coerce(Val(v.ty.elem, z3.Select(v.ty.arr(v.term), i)), ty.elem)
        return Val(ty, ty.mk(z3.Lambda([i], conv.term), v.ty.len(v.term)))
    if ty == TReal and v.ty == TInt:
        return Val(TReal, z3.ToReal(v.term),
                   float(v.py) if v.has_py() else NOPY)
    if ty == TReal and v.ty == TBool:
        return Val(TReal, z3.If(v.term, z3.RealVal(1), z3.RealVal(0)))
    if ty == TInt and v.ty == TBool:
        return Val(TInt, z3.If(v.term, z3.IntVal(1), z3.IntVal(0)),
                   int(v.py) if v.has_py() else NOPY)
    if ty == TBool and v.ty == TInt and v.has_py() and v.py in (0, 1):
        return Val(TBool, z3.BoolVal(bool(v.py)), bool(v.py))
    if isinstance(v, RepVal) and isinstance(ty, TList):
        e = coerce(v.elem, ty.elem)
        n = v.count
        return Val(ty, ty.mk(z3.K(z3.IntSort(), e.term), z3.If(n >= 0, n, 0)))
    if isinstance(v, PyTuple):
        if isinstance(ty, TList):
            arr = z3.K(z3.IntSort(), _default(ty.elem))
            for i, it in enumerate(v.items):
                arr = z3.Store(arr, i, coerce(it, ty.elem).term)
            return Val(ty, ty.mk(arr, z3.IntVal(len(v.items))))
        if isinstance(ty, TTuple):
            if len(v.items) != len(ty.elems):
                raise OutsideSubset('tuple arity %d vs %s'
                                    % (len(v.items), ty))
            return Val(ty, ty.mk(*[coerce(it, t).term
                                   for it, t in zip(v.items, ty.elems)]))
        if isinstance(ty, TSet):
            s = z3.K(ty.k.sort(), z3.BoolVal(False))
            for it in v.items:
                s = z3.Store(s, coerce(it, ty.k).term, z3.BoolVal(True))
            return Val(ty, s)
    if isinstance(v, PyDict):
        if isinstance(ty, TRec):
            extra = set(v.items) - set(ty.fields)
            if extra:
                raise OutsideSubset('dict keys %s not in record %s'
                                    % (sorted(map(str, extra)), ty))
            terms = []
            for f, ft in ty.fields.items():
                if f in v.items:
                    terms.append(coerce(v.items[f], ft).term)
                elif isinstance(ft, TOpt):
                    # absent key modelled as None (records model dicts whose
                    # optional keys are read with .get())
                    terms.append(ft.none())
                else:
                    raise OutsideSubset('dict display lacks key %r of %s'
                                        % (f, ty))
            return Val(ty, ty.mk(*terms))
        if isinstance(ty, TMap):
            val = z3.K(ty.k.sort(), _default(ty.v))
            if isinstance(ty, TDefMap):
                val = z3.K(ty.k.sort(), coerce(PyTuple([]) if isinstance(ty.v, TList)
                                               else PyDict({}), ty.v).term)
            dom = z3.K(ty.k.sort(), z3.BoolVal(False))
            for k, it in v.items.items():
                kt = coerce(lift(k), ty.k).term
                val = z3.Store(val, kt, coerce(it, ty.v).term)
                dom = z3.Store(dom, kt, z3.BoolVal(True))
            return Val(ty, ty.mk(val, dom))
    if isinstance(ty, TTuple) and isinstance(v.ty, TTuple):
        pass
    raise OutsideSubset('cannot coerce %s to %s' % (v, ty))


_default_cache = dict()


def _default(ty):
    '''an arbitrary but fixed term of type ty (for array initialisation)'''
    if ty.key not in _default_cache:
        _default_cache[ty.key] = z3.Const('dflt!%s' % ty.key, ty.sort())
    return _default_cache[ty.key]


def empty_list(ty):
    assert isinstance(ty, TList)
    return Val(ty, ty.mk(z3.K(z3.IntSort(), _default(ty.elem)),
                         z3.IntVal(0)))


def empty_map(ty):
    assert isinstance(ty, TMap)
    return Val(ty, ty.mk(z3.K(ty.k.sort(), _default(ty.v)),
                         z3.K(ty.k.sort(), z3.BoolVal(False))))


def empty_set(ty):
    assert isinstance(ty, TSet)
    return Val(ty, z3.K(ty.k.sort(), z3.BoolVal(False)))


# ------------------------------------------------------------------------------
# list helpers on terms
#
def l_len(v):  return v.ty.len(v.term)
def l_arr(v):  return v.ty.arr(v.term)


def simp(t):
    return z3.simplify(t)


# ------------------------------------------------------------------------------
# truthiness
#
def truthy(v):
    '''z3 Bool: python truth value of v'''
    ty = v.ty
    if isinstance(v, PyTuple): return z3.BoolVal(len(v.items) > 0)
    if isinstance(v, PyDict):  return z3.BoolVal(len(v.items) > 0)
    if ty == TNone: return z3.BoolVal(False)
    if v.has_py() and not isinstance(v.py, (list, dict)):
        return z3.BoolVal(bool(v.py))
    if ty == TBool: return v.term
    if ty == TInt:  return v.term != 0
    if ty == TReal: return v.term != 0
    if ty == TStr:  return v.term != str_lit('')
    if isinstance(ty, TOpt):
        return z3.And(ty.is_some(v.term),
                      truthy(Val(ty.elem, ty.val(v.term))))
    if isinstance(ty, TList): return l_len(v) > 0
    if isinstance(ty, TRec):  return z3.BoolVal(True)
    if isinstance(ty, TTuple): return z3.BoolVal(len(ty.elems) > 0)
    if isinstance(ty, TMap):
        # non-empty: some key in the domain -- expressed with a skolem witness
        # in one direction only is unsound; use an uninterpreted size function
        return map_size(v) > 0
    if ty == TAny:
        return z3.Function('truthy!any', AnySort, z3.BoolSort())(v.term)
    raise OutsideSubset('truthiness of %s' % ty)


_map_size_fn = dict()


def map_size(v):
    '''|dom(m)| as an uninterpreted function of the domain with the axioms
    size >= 0 and (size = 0 <=> dom empty) added by the executor on demand'''
    ty = v.ty
    if ty.key not in _map_size_fn:
        _map_size_fn[ty.key] = z3.Function('size!%s' % ty.key,
                                 z3.ArraySort(ty.k.sort(), z3.BoolSort()),
                                 z3.IntSort())
    return _map_size_fn[ty.key](ty.dom(v.term))


def map_size_axioms(v):
    ty  = v.ty
    dom = ty.dom(v.term)
    k   = z3.Const(fresh_name('k'), ty.k.sort())
    sz  = map_size(v)
    return [sz >= 0,
            z3.Implies(sz == 0, z3.ForAll([k], z3.Not(z3.Select(dom, k))))]


# ------------------------------------------------------------------------------
# equality
#
def eq(a, b):
    '''z3 Bool: python `a == b`'''
    if a.has_py() and b.has_py() and not isinstance(a, (PyTuple, PyDict)) \
                                 and not isinstance(b, (PyTuple, PyDict)):
        return z3.BoolVal(a.py == b.py)
    ta, tb = a.ty, b.ty
    if ta == TNone and tb == TNone: return z3.BoolVal(True)
    if ta == TNone: a, b, ta, tb = b, a, tb, ta
    if tb == TNone:
        if isinstance(ta, TOpt): return ta.is_none(a.term)
        return z3.BoolVal(False)
    if isinstance(a, PyTuple) or isinstance(b, PyTuple):
        if isinstance(a, PyTuple) and isinstance(b, PyTuple):
            if len(a.items) != len(b.items): return z3.BoolVal(False)
            return z3.And(*([eq(x, y) for x, y in zip(a.items, b.items)]
                            or [z3.BoolVal(True)]))
        if isinstance(b, PyTuple): a, b = b, a
        if isinstance(b.ty, (TList, TTuple, TSet)):
            return eq(coerce(a, b.ty), b)
        if isinstance(b.ty, TOpt):
            return z3.And(b.ty.is_some(b.term),
                          eq(a, Val(b.ty.elem, b.ty.val(b.term))))
        return z3.BoolVal(False)
    if isinstance(a, PyDict) or isinstance(b, PyDict):
        if isinstance(b, PyDict): a, b = b, a
        if isinstance(b, PyDict):
            if set(a.items) != set(b.items): return z3.BoolVal(False)
            return z3.And(*([eq(a.items[k], b.items[k]) for k in a.items]
                            or [z3.BoolVal(True)]))
        return eq(coerce(a, b.ty), b)
    if ta == tb:
        if isinstance(ta, TList):
            return list_eq(a, b)
        if isinstance(ta, TMap):
            return map_eq(a, b)
        return a.term == b.term
    if isinstance(ta, TOpt) and isinstance(tb, TOpt):
        try:
            inner = eq(Val(ta.elem, ta.val(a.term)), Val(tb.elem, tb.val(b.term)))
        except OutsideSubset:
            inner = z3.BoolVal(False)
        return z3.Or(z3.And(ta.is_none(a.term), tb.is_none(b.term)),
                     z3.And(ta.is_some(a.term), tb.is_some(b.term), inner))
    if isinstance(tb, TOpt): a, b, ta, tb = b, a, tb, ta
    if isinstance(ta, TOpt):
        return z3.And(ta.is_some(a.term),
                      eq(Val(ta.elem, ta.val(a.term)), b))
    num = (TInt, TReal, TBool)
    if ta in num and tb in num:
        return coerce(a, TReal).term == coerce(b, TReal).term
    # different, incomparable types: python says False
    return z3.BoolVal(False)


def list_eq(a, b):
    '''extensional equality of two lists of the same type: same length and
    same elements below the length (what lies beyond is junk)'''
    i = z3.Int(fresh_name('i'))
    ea = Val(a.ty.elem, z3.Select(l_arr(a), i))
    eb = Val(a.ty.elem, z3.Select(l_arr(b), i))
    return z3.And(l_len(a) == l_len(b),
                  z3.ForAll([i], z3.Implies(z3.And(0 <= i, i < l_len(a)),
                                            eq(ea, eb))))


def map_eq(a, b):
    k = z3.Const(fresh_name('k'), a.ty.k.sort())
    da, db = a.ty.dom(a.term), a.ty.dom(b.term)
    va = Val(a.ty.v, z3.Select(a.ty.val(a.term), k))
    vb = Val(a.ty.v, z3.Select(a.ty.val(b.term), k))
    return z3.ForAll([k], z3.And(z3.Select(da, k) == z3.Select(db, k),
                                 z3.Implies(z3.Select(da, k), eq(va, vb))))


# ------------------------------------------------------------------------------
# numeric helpers
#
def is_num(v):
    return v.ty in (TInt, TReal, TBool)


def to_num(v):
    if v.ty == TBool: return coerce(v, TInt)
    return v


def floordiv_int(a, b):
    '''python floor division on z3 Ints (b != 0 checked by caller)'''
    return z3.If(b > 0, a / b, (-a) / (-b))


def trunc_real(x):
    '''python int(float): truncation toward zero'''
    return z3.If(x >= 0, z3.ToInt(x), -z3.ToInt(-x))

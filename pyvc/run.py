"""pyvc.run -- per-function worker (generate + solve + known-finding matching)
and the per-property verdict."""

import fnmatch
import json
import os
import time
import traceback

import z3

from . import core as C
from .core import Val, SpecError, OutsideSubset
from .solve import solve_obligation, model_to_py, OUT
from .symexec import PROPERTY_KINDS, Executor, State
from .frontend import ModuleEnv


def _load_specs():
    import specs                                       # noqa: registers
    from .spec import REG
    return REG


_CTX = dict()


def fork_map(fn, items, k):
    '''fn(item) for every item, each in its own forked child, at most k at a time;
    results in order.  Plain os.fork from the calling (single) thread - no pool, no
    helper threads in the parent, so a child never inherits a lock held by another
    thread; the child leaves through os._exit, which also ends a z3 check that
    could not be interrupted.'''
    import pickle, select
    items = list(items)
    out = [None] * len(items)
    running = dict()                      # read fd -> (index, pid, buffer)
    nxt = 0
    while nxt < len(items) or running:
        while nxt < len(items) and len(running) < max(1, k):
            r, w = os.pipe()
            pid = os.fork()
            if pid == 0:
                code = 0
                try:
                    os.close(r)
                    try:
                        data = pickle.dumps(('ok', fn(items[nxt])))
                    except BaseException as e:          # noqa
                        data = pickle.dumps(('err', '%s: %s\n%s' % (type(e).__name__, e, traceback.format_exc())))
                    with os.fdopen(w, 'wb') as f:
                        f.write(data)
                except BaseException:                  # noqa
                    code = 1
                finally:
                    os._exit(code)
            os.close(w)
            running[r] = (nxt, pid, [])
            nxt += 1
        ready, _, _ = select.select(list(running), [], [], 1.0)
        for r in ready:
            chunk = os.read(r, 1 << 16)
            idx, pid, buf = running[r]
            if chunk:
                buf.append(chunk)
                continue
            os.close(r)
            del running[r]
            try: os.waitpid(pid, 0)
            except OSError: pass
            try:
                kind, val = pickle.loads(b''.join(buf))
            except Exception:
                kind, val = 'err', 'child %d died without a result' % pid
            if kind == 'err':
                raise RuntimeError('obligation worker failed: %s' % val)
            out[idx] = val
    return out


def _solve_retry(arg):
    '''another attempt for an obligation the first pass left `unknown`: with another
    random seed and a larger budget (z3's divergence on a valid query usually
    depends on the seed; a busy machine must not flip a verdict)'''
    from . import solve as _solve
    i, seed, mult = arg
    _solve._SEED[0] = seed
    _CTX['timeout'] = _CTX['timeout'] * mult
    _CTX['retry'] = True
    d = _solve_one(i)
    d['retried'] = seed
    return d


def _solve_one(i):
    res, known, reg = _CTX['res'], _CTX['known'], _CTX['reg']
    tier, dump, timeout = _CTX['tier'], _CTX['dump'], _CTX['timeout']
    o = res.obls[i]
    inputs = res.inputs.get(o.variant, res.inputs.get('', {}))
    both = dict(inputs)
    for k, v in o.at.items():
        both['at:' + k] = v
    # the first pass leaves `unknown` alone; only the retry (alone, four times the
    # budget) may fall back to refuting the obligation by proving its negation
    solve_obligation(o, timeout, dump_dir=dump, inputs=both,
                     allow_refute=bool(_CTX.get('retry')))
    d = dict(name=o.name, kind=o.kind, status=o.status,
             refuted_only=bool(getattr(o, 'refuted_only', False)),
             backend=o.backend, time_s=round(o.time_s, 4),
             line=o.lineno, note=o.note, model=o.model,
             smt2=getattr(o, 'smt2', None), variant=o.variant,
             reason=getattr(o, 'reason', None), known=None)
    if o.status == 'failed' and o.kind != 'canary':
        d['known'] = _match_known(o, res, known, reg, timeout)
        d['model'] = o.model
    if tier == 'thorough' and o.status == 'discharged' and \
       d['smt2'] and o.kind != 'canary':
        from .solve import run_cvc5
        d['cvc5'] = run_cvc5(d['smt2'], 20)
    return d


def run_unit(kind, key, tier, known, seed=0, inner=1):
    '''worker: verify one function or lemma; returns plain data'''
    t0 = time.time()
    try:
        reg = _load_specs()
        from .vcgen import verify_function, verify_lemma
        if kind == 'finite':
            fc = reg.finite_checks[key]
            obls = []
            status, reason = 'ok', ''
            try:
                for item in fc['fn']():
                    obls.append(dict(name='%s/%s' % (key, item['name']),
                        kind='post', status='discharged' if item['ok']
                        else 'failed', backend='enumeration', time_s=0.0,
                        line=item.get('line'), note=item.get('note', ''),
                        model=item.get('witness'), smt2=None, variant='',
                        reason=None, known=None))
            except (SpecError, OutsideSubset) as e:
                status, reason = 'spec-mismatch', str(e)
            return dict(kind=kind, key=key, short=key, status=status,
                        reason=reason, serves=fc['serves'], file=fc['what'],
                        sha256=None, lines=None, dropped=[], notes=[],
                        inline_safety=0, variants=1,
                        covers=[('%s/domain-non-empty' % key,
                                 'sat' if obls else 'unsat')],
                        gen_s=0, wall_s=round(time.time() - t0, 3),
                        return_paths=1, obls=obls, assumed=[])
        if kind == 'lemma':
            res = verify_lemma(reg.lemmas[key], reg)
        else:
            res = verify_function(reg.get(key), reg)
        timeout = 20 if tier == 'quick' else 90
        # one dump directory per check process: concurrent checks (several properties
        # share units, a self-test runs other trees) must never read each other's queries
        dump = os.path.join(OUT, 'smt', os.environ.get('VERIF_RUN_ID', 'run'), _safe(res.short))
        _CTX.update(res=res, known=known, reg=reg, tier=tier, dump=dump,
                    timeout=timeout)
        n = len(res.obls)
        if kind != 'lemma':
            # a unit with many obligations asks for more solver processes
            inner = max(inner, int(reg.get(key).get('opts', {}).get('parallel', 1)))
        if n:
            # obligations are independent: solve them in forked children (they
            # inherit the z3 terms; only plain data comes back).  Always in a
            # child, also for a single process: a solver interrupt (cvc5 answered
            # first) that arrives after z3 has finished would otherwise stay
            # pending in this long-lived worker and turn the next unit's first
            # check (its vacuity cover) into `unknown`
            import multiprocessing as mp
            k = min(inner, n) if (inner > 1 and n > 8) else 1
            if n > 8:
                k = max(k, 4)              # open obligations of broken code cost tens of seconds each
            out_obls = fork_map(_solve_one, range(n), k)
            again = [i for i, d in enumerate(out_obls)
                     if d['status'] == 'unknown' and d['kind'] != 'canary']
            if 0 < len(again) <= 6:
                # few open obligations: the typical picture of a busy machine, not of
                # broken code (which leaves many open and is decided by the native
                # replay anyway).  At most three at a time, each in a fresh child.
                for seed, mult in ((1, 2), (2, 3)):
                    if not again:
                        break
                    res2 = fork_map(_solve_retry, [(i, seed, mult) for i in again], min(3, len(again)))
                    for i, d in zip(list(again), res2):
                        out_obls[i] = d
                        if d['status'] != 'unknown':
                            again.remove(i)
        else:
            out_obls = []
        return dict(kind=kind, key=key, short=res.short, status=res.status,
                    reason=res.reason, serves=res.serves, file=res.file,
                    sha256=res.sha256, lines=res.lines, dropped=res.dropped,
                    notes=res.notes, inline_safety=res.inline_safety,
                    variants=res.variants, covers=res.covers,
                    gen_s=round(res.gen_s, 3), wall_s=round(time.time() - t0, 3),
                    return_paths=res.return_paths, obls=out_obls,
                    assumed=res.assumed)
    except Exception as e:
        return dict(kind=kind, key=key, short=key, status='error',
                    reason='%s: %s\n%s' % (type(e).__name__, e,
                                           traceback.format_exc()),
                    serves=[], obls=[], wall_s=round(time.time() - t0, 3),
                    covers=[], notes=[], dropped=[], inline_safety=0,
                    variants=0, gen_s=0, return_paths=0, file='', sha256=None,
                    lines=None, assumed=[])


def _safe(name):
    return ''.join(c if c.isalnum() or c in '-_.' else '_' for c in name)


def _match_known(o, res, known, reg, timeout):
    '''is every failure of this obligation inside a recorded finding?
    The witness predicate is added negated to the query: unsat means no failure
    outside the recorded class exists.'''
    for kf in known:
        if kf.get('status') == 'fixed':
            continue
        if 'obligation' not in kf or not fnmatch.fnmatch(o.name, kf['obligation']):
            continue
        try:
            class _NoSrc:
                rel, cls, body, lines = 'states.py', None, [], (0, 0)
            spec = dict(short='kf', key='kf', params={}, file='states.py')
            ex = Executor(spec, reg, _NoSrc(), ModuleEnv.get('states.py'))
            st = State()
            st.env = dict(o.at)
            st.old = dict(res.inputs.get(o.variant, res.inputs.get('', {})))
            w = ex.spec_bool(kf['witness'], st)
        except (SpecError, OutsideSubset, KeyError) as e:
            return dict(id=kf.get('id'), covered=False,
                        error='witness not evaluable here: %s' % e)
        s = z3.Solver()
        s.set('timeout', int(timeout * 1000))
        for a in C.str_axioms(): s.add(a)
        for h in o.hyps: s.add(h)
        s.add(z3.Not(o.goal))
        s.add(z3.Not(w))
        r = s.check()
        if r == z3.unsat:
            return dict(id=kf.get('id'), covered=True, what=kf.get('what'))
        if r == z3.sat:
            both = dict(st.old)
            for k, v in o.at.items():
                both['at:' + k] = v
            try:
                m = model_to_py(s.model(), both)
            except Exception:
                m = None
            # a failure outside the recorded class: report that model instead
            o.model = m
            return dict(id=kf.get('id'), covered=False, outside_model=m)
        return dict(id=kf.get('id'), covered=False, error='unknown')
    return None

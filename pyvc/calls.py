"""pyvc.calls -- call semantics: builtins, methods of builtin types, spec-language
primitives, callee contracts, effect callees."""

import ast

import z3

from . import core as C
from .core import (Val, PyTuple, PyDict, NONE, NOPY, OutsideSubset, SpecError,
                   TInt, TReal, TBool, TStr, TAny, TNone, TPy, TOpt, TList,
                   TRec, TMap, TSet, TTuple, TUnion, lift, fresh, truthy, eq,
                   coerce, join_ty, OptOf)
from .frontend import _attr_chain


def eval_call(ex, node, st):
    from .symexec import ModRef, LambdaVal, Ref
    func  = node.func
    chain = _attr_chain(func)

    # ---- spec language primitives -------------------------------------------
    if ex.specmode and isinstance(func, ast.Name) and func.id in _SPEC_PRIMS:
        return _SPEC_PRIMS[func.id](ex, node, st)

    # ---- explicit resolution given by the function's spec ---------------------
    dotted = '.'.join(chain) if chain else None
    calls  = ex.spec.get('calls', {})
    if dotted and dotted in calls:
        target = calls[dotted]
        if callable(target):
            return target(ex, node, st)
        return call_contract(ex, st, ex.reg.get(target), node)

    # ---- effect callees ------------------------------------------------------
    if dotted:
        eff = ex.spec.get('effects', {}).get(dotted) or \
              ex.reg.effects.get(dotted)
        if eff is not None:
            return eff(ex, node, st)

    # ---- spec functions (macros) --------------------------------------------
    if isinstance(func, ast.Name) and func.id in ex.reg.defs and \
       (ex.specmode or func.id not in st.env):
        if ex.specmode:
            return call_def(ex, func.id, node, st)

    # ---- plain names: builtins, constructors, local lambdas -------------------
    if isinstance(func, ast.Name):
        name = func.id
        if name in st.env and isinstance(st.env[name], LambdaVal):
            return call_lambda(ex, st.env[name], node, st)
        if name in ex.reg.constructors:
            return ex.reg.constructors[name](ex, node, st)
        if name in _BUILTINS:
            return _BUILTINS[name](ex, node, st)
        if name in _EXC_NAMES and name not in st.env:
            # an exception object built as a value (not raised here): opaque
            for a in node.args: ex.ev(a, st)
            return fresh(TAny, 'exc')
        cs = ex.reg.find_function(ex.fsrc.rel, name)
        if cs is not None:
            return call_contract(ex, st, cs, node)
        raise OutsideSubset('call of %s (line %s)' % (name, ex.cur_line))

    if not isinstance(func, ast.Attribute):
        # a computed callee (e.g. self._workers[state](things)) can be given a
        # handler by its source text in the spec's `calls`
        try:
            text = ast.unparse(func)
        except Exception:
            text = None
        tgt = ex.spec.get('calls', {}).get(text)
        if callable(tgt):
            return tgt(ex, node, st)
        raise OutsideSubset('call of computed function')

    # ---- super().method(...) -------------------------------------------------
    if isinstance(func.value, ast.Call) and isinstance(func.value.func, ast.Name) \
       and func.value.func.id == 'super':
        key = 'super.' + func.attr
        eff = ex.spec.get('effects', {}).get(key) or ex.reg.effects.get(key)
        if eff is not None:
            return eff(ex, node, st)
        tgt = ex.spec.get('calls', {}).get(key)
        if isinstance(tgt, str):
            return call_contract(ex, st, ex.reg.get(tgt), node)
        raise OutsideSubset('call of super().%s (line %s): no contract'
                            % (func.attr, ex.cur_line))

    # ---- module functions: m.floor, time.time, rps._task_state_value ... ------
    if chain and chain[0] not in st.env and chain[0] != 'self':
        if dotted in _MODFUNCS:
            return _MODFUNCS[dotted](ex, node, st)
        if chain[-1] in ('floor', 'ceil') and len(chain) == 2:
            return _MODFUNCS['math.' + chain[-1]](ex, node, st)
        g = ex.modenv.lookup(chain[0])
        from .frontend import ModuleEnv
        if isinstance(g, ModuleEnv) and len(chain) == 2:
            cs = ex.reg.find_function(g.rel, chain[1])
            if cs is not None:
                return call_contract(ex, st, cs, node)
        if dotted in ex.reg.modfuncs:
            return ex.reg.modfuncs[dotted](ex, node, st)
        raise OutsideSubset('call of %s (line %s): no contract'
                            % (dotted, ex.cur_line))

    # ---- self.method(...) ----------------------------------------------------
    if chain and chain[0] == 'self' and len(chain) == 2 and \
       'self' not in st.env:
        cs = ex.reg.find_method(ex.fsrc.cls, chain[1], ex.spec)
        if cs is not None:
            return call_contract(ex, st, cs, node)
        raise OutsideSubset('call of self.%s (line %s): no contract'
                            % (chain[1], ex.cur_line))

    # ---- a method of a computed receiver (self._queues[name].put(..)) can be given
    #      a handler by its source text in the spec's `calls` / `effects`
    if not chain:
        try:
            text = ast.unparse(func)
        except Exception:
            text = None
        tgt = ex.spec.get('calls', {}).get(text) or ex.spec.get('effects', {}).get(text)
        if callable(tgt):
            return tgt(ex, node, st)

    # ---- method on a value ---------------------------------------------------
    return call_method(ex, node, st)


# ------------------------------------------------------------------------------
# argument helpers
#
def pos_args(ex, node, st):
    out = []
    for a in node.args:
        if isinstance(a, ast.Starred):
            raise OutsideSubset('*args')
        out.append(ex.ev(a, st))
    return out


def kw_args(ex, node, st):
    out = dict()
    for k in node.keywords:
        if k.arg is None:
            raise OutsideSubset('**kwargs')
        out[k.arg] = ex.ev(k.value, st)
    return out


def arg_nodes(node, params, skip=0):
    '''map parameter name -> ast node of the actual argument'''
    out = dict()
    for p, a in zip(params[skip:], node.args):
        out[p] = a
    for k in node.keywords:
        out[k.arg] = k.value
    return out


# ------------------------------------------------------------------------------
# contracts
#
def call_contract(ex, st, cs, node):
    '''replace the call by the callee's contract'''
    from .symexec import State
    if cs is None:
        raise OutsideSubset('no contract (line %s)' % ex.cur_line)
    params = list(cs['params'])
    anodes = arg_nodes(node, params)
    env    = dict()
    defaults = cs.get('defaults', {})
    for p in params:
        if p in anodes:
            v = ex.ev(anodes[p], st)
            try:
                env[p] = coerce(v, cs['params'][p]) \
                         if not isinstance(cs['params'][p], TUnion) else \
                         coerce(v, cs['params'][p])
            except OutsideSubset as e:
                raise OutsideSubset('argument %s of %s: %s'
                                    % (p, cs['short'], e))
        elif p in defaults:
            env[p] = coerce(lift(defaults[p]), cs['params'][p])
        else:
            raise OutsideSubset('missing argument %s for %s'
                                % (p, cs['short']))
    extra = set(anodes) - set(params)
    if extra:
        raise SpecError('%s called with unknown arguments %s'
                        % (cs['short'], sorted(extra)))
    # receiver
    recv_path = None
    chain = _attr_chain(node.func)
    same_self = bool(chain and chain[0] == 'self' and len(chain) == 2
                     and 'self' not in st.env) or \
                (isinstance(node.func, ast.Name) and cs.get('self')
                 and cs.get('nested_in'))
    if cs.get('self_type') is not None and not same_self:
        recv_path = ex.ev_path(node.func.value, st)
        if recv_path is None:
            env['self'] = coerce(ex.ev(node.func.value, st), cs['self_type'])
        else:
            rv = ex.read_path(st, *recv_path)
            if isinstance(rv.ty, TOpt):
                ex.fail(st, rv.ty.is_none(rv.term), 'AttributeError')
                recv_path = (recv_path[0], recv_path[1] + (('o',),))
                rv = Val(rv.ty.elem, rv.ty.val(rv.term))
            env['self'] = coerce(rv, cs['self_type'])
    else:
        for attr, ty in cs.get('self', {}).items():
            root = 'self.' + attr
            v = ex.get_var(st, root)
            if v is None:
                raise SpecError('%s needs self.%s which the spec of %s does '
                                'not declare' % (cs['short'], attr,
                                                 ex.spec['short']))
            env[root] = coerce(v, ty)
    for g, ty in cs.get('ghost', {}).items():
        v = ex.get_var(st, g)
        if v is None:
            raise SpecError('%s needs ghost %s which the spec of %s does not '
                            'declare' % (cs['short'], g, ex.spec['short']))
        env[g] = v

    pre = State()
    pre.pc, pre.env, pre.old = st.pc, dict(env), dict(env)
    pre.guards = list(st.guards)
    # preconditions
    for i, r in enumerate(cs.get('requires', [])):
        name, text = r if isinstance(r, tuple) else ('pre%d' % (i + 1), r)
        goal = ex.spec_bool(text, pre, cs)
        ex.oblige(st, 'call:%s/%s@L%s' % (cs['short'], name, ex.cur_line),
                  goal, 'call-pre', note=text)
        st.assume(goal)

    # exceptional returns
    mods = list(cs.get('modifies', []))
    for exc, cond in cs.get('raises', {}).items():
        c = ex.spec_bool(cond, pre, cs) if isinstance(cond, str) else \
            z3.BoolVal(True)
        g = z3.And(*(st.guards + [c])) if st.guards else c
        if ex.specmode == 0 and ex.feasible(st, g):
            exs = st.fork()
            exs.guards = []
            exs.pc.append(g)
            # whatever the callee may modify is unknown after a raise, unless
            # the callee states an exceptional postcondition
            post_e = _havoc_env(ex, cs, env, mods, exs)
            _assume_post(ex, exs, cs, env, post_e, None,
                         cs.get('exc_ensures', {}).get(exc, []))
            _write_back(ex, exs, cs, post_e, mods, anodes, recv_path)
            ex.exits.append((exc, exs, ex.cur_line))
        if exc not in cs.get('raises_weak', ()):
            st.assume(z3.Not(c))

    # normal return
    post_env = _havoc_env(ex, cs, env, mods, st)
    rty = cs.get('returns')
    result = fresh(rty, 'ret_' + cs['short']) if rty is not None else NONE
    for f in ex.wf(result):
        st.assume(f)
    _assume_post(ex, st, cs, env, post_env, result, cs.get('ensures', []))
    _write_back(ex, st, cs, post_env, mods, anodes, recv_path)
    return result


def _root_type(cs, root):
    if root == 'self':
        return cs['self_type']
    if root.startswith('self.'):
        return cs['self'][root[5:]]
    if root in cs.get('ghost', {}):
        return cs['ghost'][root]
    return cs['params'][root]


def _havoc_env(ex, cs, env, mods, st=None):
    post = dict(env)
    for m in mods:
        ty = _root_type(cs, m)
        if isinstance(ty, TUnion):
            ty = env[m].ty
        post[m] = fresh(ty, m.replace('.', '_'))
        if st is not None:
            for f in ex.wf(post[m]):
                st.assume(f)
    return post


def _assume_post(ex, st, cs, pre_env, post_env, result, ensures):
    from .symexec import State
    ps = State()
    ps.pc, ps.env, ps.old = st.pc, dict(post_env), dict(pre_env)
    ps.guards = list(st.guards)
    if result is not None:
        ps.env['result'] = result
    for e in ensures:
        name, text = e if isinstance(e, tuple) else (None, e)
        st.assume(ex.spec_bool(text, ps, cs))


def _write_back(ex, st, cs, post_env, mods, anodes, recv_path):
    for m in mods:
        if m == 'self':
            if recv_path is None:
                raise OutsideSubset('callee modifies a temporary receiver')
            ex.write_path(st, recv_path[0], recv_path[1], post_env[m])
        elif m.startswith('self.') or m in cs.get('ghost', {}):
            ex.write_path(st, m, (), post_env[m])
        else:
            if m not in anodes:
                continue
            p = ex.ev_path(anodes[m], st)
            if p is None:
                # a temporary was passed: its mutation is unobservable
                continue
            cur = ex.read_path(st, *p)
            new = post_env[m]
            if isinstance(cur.ty, TOpt) and not isinstance(new.ty, TOpt):
                new = coerce(new, cur.ty)
            ex.write_path(st, p[0], p[1], new)


def call_def(ex, name, node, st):
    params, text = ex.reg.defs[name]
    args = pos_args(ex, node, st)
    if len(args) != len(params):
        raise SpecError('spec function %s: arity' % name)
    sub = st.fork()
    sub.guards = list(st.guards)
    for p, a in zip(params, args):
        sub.env[p] = a
    return ex.ev(ast.parse(text, mode='eval').body, sub)


def call_lambda(ex, lam, node, st):
    fn = lam.node
    if isinstance(fn, ast.Lambda):
        args = pos_args(ex, node, st)
        sub = st.fork()
        sub.guards = list(st.guards)
        for p, a in zip(fn.args.args, args):
            sub.env[p.arg] = a
        return ex.ev(fn.body, sub)
    # nested def with a contract
    cs = ex.reg.find_nested(ex.spec, fn.name)
    if cs is None:
        raise OutsideSubset('call of nested %s: no contract' % fn.name)
    return call_contract(ex, st, cs, node)


# ------------------------------------------------------------------------------
# spec primitives
#
def _sp_old(ex, node, st):
    if st.old is None:
        raise SpecError('old() outside a two-state context')
    sub = st.fork()
    sub.guards = list(st.guards)
    q = st.qvars or {}
    sub.env = dict(st.old)
    sub.env.update(q)
    sub.bound = dict()
    sub.qvars = q
    return ex.ev(node.args[0], sub)


def _sp_at_head(ex, node, st):
    """at_head('1', e): value of e at the head of loop 1 in the current
    iteration (after havoc), usable in invariants of nested loops"""
    from .symexec import Ref, STALE
    ordn = node.args[0].value
    if ordn not in st.heads:
        raise SpecError('at_head(%r): not inside that loop' % ordn)
    sub = st.fork()
    sub.env = dict(st.heads[ordn])
    sub.env.update(st.qvars)
    sub.bound = dict()
    return ex.ev(node.args[1], sub)


def _sp_aslist(ex, node, st):
    """aslist(x): x if it is a list, else the one-element list [x]"""
    v = ex.ev(node.args[0], st)
    if isinstance(v, PyTuple) or isinstance(v.ty, TList):
        return v
    return PyTuple([v], True)


def _sp_count(ex, node, st):
    """count(xs, v, n): number of i < n with xs[i] == v (n defaults to len)"""
    xs = ex.ev(node.args[0], st)
    v  = ex.ev(node.args[1], st)
    ty = xs.ty
    n  = ex.as_int(st, ex.ev(node.args[2], st)) if len(node.args) > 2 \
         else ty.len(xs.term)
    if st.qvars:
        # inside a quantifier the index is a bound variable: no ground
        # unfolding possible here, the term alone is returned
        key = 'count:' + ty.key
        keys = ex.__dict__.setdefault('_axiom_keys', set())
        if key not in keys:
            keys.add(key)
            ex.axioms.extend(count_axioms(ty))
        if _mentions(n, st.qvars) or _mentions(v.term, st.qvars):
            return Val(TInt, count_fn(ty)(ty.arr(xs.term),
                                          coerce(v, ty.elem).term, n))
    return Val(TInt, count_term(ex, ty, ty.arr(xs.term),
                                coerce(v, ty.elem).term, n))


def _mentions(term, qvars):
    ids = {v.term.get_id() for v in qvars.values() if v.term is not None}
    todo, seen = [term], set()
    while todo:
        x = todo.pop()
        if x.get_id() in seen: continue
        seen.add(x.get_id())
        if x.get_id() in ids: return True
        todo.extend(x.children())
    return False


def _sp_sumf(ex, node, st):
    """sumf('name', xs, n, *params): sum over i < n of the element term of
    the registered sum function `name` (REG.sums[name] = (elemvar, [params],
    text)).  Axioms: F(xs, p.., 0) = 0 and, for n > 0,
    F(xs, p.., n) = F(xs, p.., n-1) + elem(xs[n-1], p..), instantiated on the
    pattern F(xs, p.., n)."""
    name = node.args[0].value
    xs   = ex.ev(node.args[1], st)
    ty   = xs.ty
    n    = ex.as_int(st, ex.ev(node.args[2], st)) if len(node.args) > 2 and \
           not (isinstance(node.args[2], ast.Constant) and node.args[2].value is None) \
           else ty.len(xs.term)
    pvals = [ex.ev(a, st) for a in node.args[3:]]
    evar, pnames, text, rty = ex.reg.sums[name]
    key = ('sum', name, ty.key) + tuple(p.ty.key for p in pvals)
    cache = ex.__dict__.setdefault('_sum_fns', dict())
    if key not in cache:
        f = z3.Function('sum!%s!%d' % (name, len(cache)),
                        *([z3.ArraySort(z3.IntSort(), ty.elem.sort())] +
                          [p.ty.sort() for p in pvals] +
                          [z3.IntSort(), rty.sort()]))
        a  = z3.Const('sum!a!%s' % name, z3.ArraySort(z3.IntSort(), ty.elem.sort()))
        ps = [z3.Const('sum!p%d!%s' % (i, name), p.ty.sort())
              for i, p in enumerate(pvals)]
        k  = z3.Int('sum!n!%s' % name)
        sub = st.fork()
        sub.env = dict(st.env)
        sub.env[evar] = Val(ty.elem, z3.Select(a, k - 1))
        for pn, pc, pv in zip(pnames, ps, pvals):
            sub.env[pn] = Val(pv.ty, pc)
        elem = coerce(ex.spec_expr(text, sub), rty)
        zero = z3.RealVal(0) if rty == TReal else z3.IntVal(0)
        base_ax = z3.ForAll([a] + ps, f(*([a] + ps + [z3.IntVal(0)])) == zero)
        rec_ax  = z3.ForAll([a] + ps + [k], z3.Implies(k > 0,
            f(*([a] + ps + [k])) == f(*([a] + ps + [k - 1])) + elem.term),
            patterns=[f(*([a] + ps + [k]))])
        # the recursive axiom matches its own instances: it is only used to
        # prove the prefix-frame lemma below; elsewhere the definition is
        # unfolded one step wherever a sum term is mentioned
        ex.axioms.append(base_ax)
        cache[key] = f
        cache[('elem',) + key] = (a, ps, k, elem.term, zero)
        # prefix frame: F depends only on the cells below n.  Proved by
        # induction on n (base + step obligations), then used as an axiom.
        if not ex.specmode_lemma_only:
            e  = z3.Const('sum!e!%s' % name, ty.elem.sort())
            kk = z3.Int('sum!k!%s' % name)
            sa = z3.Store(a, kk, e)
            lhs = lambda m: f(*([sa] + ps + [m]))
            rhs = lambda m: f(*([a] + ps + [m]))
            unfold = [base_ax, rec_ax]
            from .symexec import State
            base = State(); base.pc = []
            sm = ex.specmode; ex.specmode = 0
            saved_ax = ex.axioms; ex.axioms = unfold
            try:
                ex.oblige(base, 'lemma:sum-%s-prefix-frame/base' % name,
                          lhs(z3.IntVal(0)) == rhs(z3.IntVal(0)), 'lemma',
                          note='F(store(a,k,e), 0) == F(a, 0)')
                step = State()
                step.pc = [k >= 0, k < kk, lhs(k) == rhs(k)]
                ex.oblige(step, 'lemma:sum-%s-prefix-frame/step' % name,
                          lhs(k + 1) == rhs(k + 1), 'lemma',
                          note='n < k and F(store(a,k,e), n) == F(a, n) ==> '
                               'F(store(a,k,e), n+1) == F(a, n+1)')
            finally:
                ex.axioms = saved_ax; ex.specmode = sm
            ex.axioms.append(z3.ForAll([a] + ps + [kk, e, k], z3.Implies(
                z3.And(0 <= k, k <= kk), lhs(k) == rhs(k)),
                patterns=[lhs(k)]))
    f = cache[key]
    A = ty.arr(xs.term)
    a, ps, k, elem_t, zero = cache[('elem',) + key]
    if not _mentions(n, st.qvars) and not _mentions(A, st.qvars):
        keys = ex.__dict__.setdefault('_axiom_keys', set())
        for N in (n, n - 1):
            ik = ('sum-unfold', name, A.get_id(), z3.simplify(N).get_id())
            if ik in keys:
                continue
            keys.add(ik)
            inst = z3.substitute(elem_t, (a, A), (k, N))
            body = f(*([A] + ps + [N])) == z3.If(N > 0,
                       f(*([A] + ps + [N - 1])) + inst, zero)
            if ps:
                try:
                    ex.axioms.append(z3.ForAll(ps, body,
                                     patterns=[f(*([A] + ps + [N]))]))
                except z3.Z3Exception:
                    # the list is a merged (if-then-else) term: no explicit
                    # trigger possible, z3 infers one
                    ex.axioms.append(z3.ForAll(ps, body))
            else:
                ex.axioms.append(body)
    return Val(rty, f(*([A] + [p.term for p in pvals] + [n])))


def _sp_at_entry(ex, node, st):
    """at_entry('2', e): value of e when loop 2 was reached (before its first
    iteration)"""
    ordn = 'entry:' + node.args[0].value
    if ordn not in st.heads:
        raise SpecError('at_entry(%r): loop not reached on this path' % node.args[0].value)
    sub = st.fork()
    sub.env = dict(st.heads[ordn])
    sub.env.update(st.qvars)
    sub.bound = dict()
    return ex.ev(node.args[1], sub)


def _sp_implies(ex, node, st):
    a = truthy(ex.ev(node.args[0], st))
    saved = list(st.guards)
    st.guards.append(a)
    try:
        b = truthy(ex.ev(node.args[1], st))
    finally:
        st.guards = saved
    return Val(TBool, z3.Implies(a, b))


def _sp_iff(ex, node, st):
    a = truthy(ex.ev(node.args[0], st))
    b = truthy(ex.ev(node.args[1], st))
    return Val(TBool, a == b)


def _quant(ex, node, st, forall):
    lam = node.args[0]
    if not isinstance(lam, ast.Lambda):
        raise SpecError('forall/exists needs a lambda')
    tys = [TInt] * len(lam.args.args)
    if len(node.args) > 1:
        tys = [ex.spec_type(a) for a in node.args[1:]]
        if len(tys) == 1 and len(lam.args.args) > 1:
            tys = tys * len(lam.args.args)
    sub = st.fork()
    sub.guards = list(st.guards)
    sub.qvars = dict(getattr(st, 'qvars', None) or {})
    consts = []
    for p, ty in zip(lam.args.args, tys):
        v = fresh(ty, 'q_' + p.arg)
        sub.env[p.arg] = v
        sub.qvars[p.arg] = v
        consts.append(v.term)
    body = truthy(ex.ev(lam.body, sub))
    if forall:
        return Val(TBool, z3.ForAll(consts, body))
    return Val(TBool, z3.Exists(consts, body))


def _sp_forall(ex, node, st): return _quant(ex, node, st, True)
def _sp_exists(ex, node, st): return _quant(ex, node, st, False)


def _sp_bound(ex, node, st):
    name = node.args[0].value
    if name not in st.env:
        return lift(False)
    if name in st.bound:
        return Val(TBool, st.bound[name])
    return lift(True)


def _sp_some(ex, node, st):
    '''is_some(x): x is not None, for Opt values'''
    v = ex.ev(node.args[0], st)
    return Val(TBool, z3.Not(eq(v, NONE)))


def _sp_val(ex, node, st):
    '''val(x): payload of an Opt value (unspecified for None)'''
    v = ex.ev(node.args[0], st)
    if isinstance(v.ty, TOpt):
        return Val(v.ty.elem, v.ty.val(v.term))
    return v


def _sp_seq_eq(ex, node, st):
    a, b = ex.ev(node.args[0], st), ex.ev(node.args[1], st)
    return Val(TBool, eq(a, b))


def _sp_ite(ex, node, st):
    c = truthy(ex.ev(node.args[0], st))
    a, b = ex.ev(node.args[1], st), ex.ev(node.args[2], st)
    ty = join_ty(a.ty, b.ty)
    a, b = coerce(a, ty), coerce(b, ty)
    return Val(ty, z3.If(c, a.term, b.term))


def _sp_domain(ex, node, st):
    '''indom(m, k)'''
    m, k = ex.ev(node.args[0], st), ex.ev(node.args[1], st)
    return Val(TBool, ex.contains(m, k, st))


def _sp_lookup(ex, node, st):
    '''at(m, k): value of map m at k without a KeyError side condition'''
    m, k = ex.ev(node.args[0], st), ex.ev(node.args[1], st)
    if isinstance(m.ty, TMap):
        return Val(m.ty.v, z3.Select(m.ty.val(m.term), coerce(k, m.ty.k).term))
    return ex.subscript(m, k, st)


_SPEC_PRIMS = {'old': _sp_old, 'at_entry': _sp_at_entry, 'sumf': _sp_sumf, 'count': _sp_count, 'aslist': _sp_aslist, 'at_head': _sp_at_head, 'implies': _sp_implies, 'iff': _sp_iff,
               'forall': _sp_forall, 'exists': _sp_exists,
               'bound': _sp_bound, 'is_some': _sp_some, 'val': _sp_val,
               'ite': _sp_ite, 'indom': _sp_domain, 'at': _sp_lookup,
               'seq_eq': _sp_seq_eq}


# ------------------------------------------------------------------------------
# builtins
#
def _b_len(ex, node, st):
    v = pos_args(ex, node, st)[0]
    return length(ex, v, st)


def length(ex, v, st):
    if isinstance(v, PyTuple): return lift(len(v.items))
    if isinstance(v, PyDict):  return lift(len(v.items))
    ty = v.ty
    if isinstance(ty, TOpt):
        ex.fail(st, ty.is_none(v.term), 'TypeError')
        v = Val(ty.elem, ty.val(v.term)); ty = v.ty
    if isinstance(ty, TList):
        return Val(TInt, ty.len(v.term))
    if ty == TStr:
        f = z3.Function('str!len', C.StrSort, z3.IntSort())
        st.assume(f(v.term) >= 0)
        return Val(TInt, f(v.term))
    if isinstance(ty, TMap):
        for a in C.map_size_axioms(v):
            st.assume(a)
        return Val(TInt, C.map_size(v))
    if isinstance(ty, TSet):
        # cardinality: uninterpreted, non-negative (under-specified on purpose)
        f = z3.Function('size!%s' % C._san(ty.key), ty.sort(), z3.IntSort())
        st.assume(f(v.term) >= 0)
        k = z3.Const(C.fresh_name('k'), ty.k.sort())
        x = z3.Const(C.fresh_name('x'), ty.k.sort())
        # what cardinality 0 and 1 mean (larger sizes stay uninterpreted)
        st.assume((f(v.term) == 0) == z3.ForAll([k], z3.Not(z3.Select(v.term, k))))
        st.assume((f(v.term) == 1) == z3.Exists([x], z3.ForAll([k],
                  z3.Select(v.term, k) == (k == x))))
        return Val(TInt, f(v.term))
    if ty == TStr:
        if v.has_py(): return lift(len(v.py))
        f = z3.Function('str!len', C.StrSort, z3.IntSort())
        st.assume(f(v.term) >= 0)
        return Val(TInt, f(v.term))
    raise OutsideSubset('len of %s' % ty)


def _b_int(ex, node, st):
    args = pos_args(ex, node, st)
    if not args: return lift(0)
    v = args[0]
    if v.has_py() and not isinstance(v, (PyTuple, PyDict)):
        try:
            return lift(int(v.py))
        except (ValueError, TypeError):
            ex.fail(st, z3.BoolVal(True), 'ValueError')
            return lift(0)
    if v.ty == TStr:
        f = z3.Function('str!toint', C.StrSort, z3.IntSort())
        ok = z3.Function('str!isint', C.StrSort, z3.BoolSort())
        ex.fail(st, z3.Not(ok(v.term)), 'ValueError')
        return Val(TInt, f(v.term))
    v = ex.num(st, v)
    if v.ty == TInt: return v
    return Val(TInt, C.trunc_real(v.term))


def _b_float(ex, node, st):
    args = pos_args(ex, node, st)
    if not args: return lift(0.0)
    v = args[0]
    if v.has_py() and not isinstance(v, (PyTuple, PyDict)) and v.ty != TNone:
        try:
            return lift(float(v.py))
        except (ValueError, TypeError):
            ex.fail(st, z3.BoolVal(True), 'ValueError')
            return lift(0.0)
    if v.ty == TStr:
        f = z3.Function('str!tofloat', C.StrSort, z3.RealSort())
        ok = z3.Function('str!isfloat', C.StrSort, z3.BoolSort())
        ex.fail(st, z3.Not(ok(v.term)), 'ValueError')
        return Val(TReal, f(v.term))
    return coerce(ex.num(st, v), TReal)


def _b_bool(ex, node, st):
    args = pos_args(ex, node, st)
    if not args: return lift(False)
    t = z3.simplify(truthy(args[0]))
    py = NOPY
    if z3.is_true(t): py = True
    if z3.is_false(t): py = False
    return Val(TBool, t, py)


def _b_str(ex, node, st):
    args = pos_args(ex, node, st)
    if not args: return lift('')
    v = args[0]
    if v.ty == TStr: return v
    if v.has_py() and not isinstance(v, (PyTuple, PyDict)):
        return lift(str(v.py))
    if isinstance(v.ty, TOpt) and v.ty.elem == TStr:
        return Val(TStr, z3.If(v.ty.is_none(v.term), C.str_lit('None'),
                               v.ty.val(v.term)))
    if isinstance(v.ty, TOpt):
        inner = ex.str_fn('str', [Val(v.ty.elem, v.ty.val(v.term))])
        return Val(TStr, z3.If(v.ty.is_none(v.term), C.str_lit('None'),
                               inner.term))
    return ex.str_fn('str', [v])


def _b_repr(ex, node, st):
    from .symexec import ExcVal
    args = pos_args(ex, node, st)
    if isinstance(args[0], ExcVal):
        return fresh(TStr, 'repr_exc')
    return ex.str_fn('repr', [args[0]])


def _m_exc_trace(ex, node, st):
    """ru.get_exception_trace(): a list of strings (content irrelevant)"""
    return fresh(TList(TStr), 'trace')


def _minmax(ex, node, st, is_min):
    args = pos_args(ex, node, st)
    if len(args) == 1:
        seq = args[0]
        if isinstance(seq, PyTuple):
            args = seq.items
        elif isinstance(seq.ty, TList) and seq.ty.elem in (TInt, TReal):
            # extremum of a symbolic sequence: a bound that is attained
            ty = seq.ty
            n  = ty.len(seq.term)
            ex.fail(st, n <= 0, 'ValueError')
            m  = fresh(ty.elem, 'min' if is_min else 'max')
            i, w = z3.Int(C.fresh_name('i')), z3.Int(C.fresh_name('w'))
            e  = z3.Select(ty.arr(seq.term), i)
            st.assume(z3.ForAll([i], z3.Implies(z3.And(0 <= i, i < n),
                      (m.term <= e) if is_min else (m.term >= e))))
            st.assume(z3.And(0 <= w, w < n, z3.Select(ty.arr(seq.term), w) == m.term))
            return m
        else:
            raise OutsideSubset('min/max over symbolic sequence')
    vals = [ex.num(st, a) for a in args]
    ty = TReal if any(v.ty == TReal for v in vals) else TInt
    res = vals[0]
    for v in vals[1:]:
        a, b = coerce(res, TReal), coerce(v, TReal)
        c = (b.term < a.term) if is_min else (b.term > a.term)
        # python keeps the operand's own type; mixed int/float results are
        # represented as Real when types differ
        if res.ty == v.ty:
            res = Val(res.ty, z3.If(c, v.term, res.term))
        else:
            res = Val(TReal, z3.If(c, b.term, a.term))
    return res


def _b_min(ex, node, st): return _minmax(ex, node, st, True)
def _b_max(ex, node, st): return _minmax(ex, node, st, False)


def _b_abs(ex, node, st):
    v = ex.num(st, pos_args(ex, node, st)[0])
    return Val(v.ty, z3.If(v.term >= 0, v.term, -v.term))


def _b_list(ex, node, st):
    args = pos_args(ex, node, st)
    if not args:
        return PyTuple([], True)
    v = args[0]
    if isinstance(v, PyTuple): return PyTuple(v.items, True)
    if isinstance(v, PyDict):  return PyTuple([lift(k) for k in v.items], True)
    if isinstance(v.ty, TList): return v           # copy (values are immutable)
    if isinstance(v, KeysView): return v.as_list(ex, st)
    raise OutsideSubset('list(%s)' % v.ty)


def _b_dict(ex, node, st):
    if not node.args:
        kw = kw_args(ex, node, st)
        return PyDict(kw)
    v = pos_args(ex, node, st)[0]
    if isinstance(v, PyDict) or isinstance(v.ty, (TMap, TRec)):
        return v
    raise OutsideSubset('dict(%s)' % v.ty)


def _b_defaultdict(ex, node, st):
    # collections.defaultdict(list): an empty literal; the declared local type
    # (T.DefMap) gives it the default-on-missing behaviour
    if len(node.args) != 1 or not isinstance(node.args[0], ast.Name) or \
       node.args[0].id != 'list':
        raise OutsideSubset('defaultdict with a factory other than list')
    return PyDict({})


def _b_set(ex, node, st):
    args = pos_args(ex, node, st)
    if not args:
        return PyTuple([], True)
    v = args[0]
    if isinstance(v, PyTuple): return v
    if isinstance(v.ty, TList):
        ty = TSet(v.ty.elem)
        out = fresh(ty, 'set')
        k = z3.Const(C.fresh_name('k'), v.ty.elem.sort())
        i = z3.Int(C.fresh_name('i'))
        ex.axioms.append(z3.ForAll([k], z3.Select(out.term, k) ==
            z3.Exists([i], z3.And(0 <= i, i < v.ty.len(v.term),
                                  z3.Select(v.ty.arr(v.term), i) == k))))
        return out
    raise OutsideSubset('set(%s)' % v.ty)


def _b_tuple(ex, node, st):
    args = pos_args(ex, node, st)
    if not args: return PyTuple([], False)
    v = args[0]
    if isinstance(v, PyTuple): return PyTuple(v.items, False)
    return v


def _b_isinstance(ex, node, st):
    v   = ex.ev(node.args[0], st)
    cls = node.args[1]
    names = []
    for e in (cls.elts if isinstance(cls, ast.Tuple) else [cls]):
        ch = _attr_chain(e)
        names.append(ch[-1] if ch else '?')
    res = z3.BoolVal(False)
    for n in names:
        res = z3.Or(res, _isinst(ex, v, n))
    res = z3.simplify(res)
    py = NOPY
    if z3.is_true(res): py = True
    if z3.is_false(res): py = False
    return Val(TBool, res, py)


def _isinst(ex, v, n):
    ty = v.ty
    if isinstance(ty, TOpt):
        inner = _isinst(ex, Val(ty.elem, ty.val(v.term)), n)
        return z3.And(ty.is_some(v.term), inner)
    table = {'list': lambda: isinstance(ty, TList) or
                             (isinstance(v, PyTuple) and v.is_list),
             'tuple': lambda: isinstance(ty, TTuple) or
                              (isinstance(v, PyTuple) and not v.is_list),
             # a record that models a class instance (it has attribute
             # properties registered) is not a dict
             'dict': lambda: (isinstance(ty, TRec) and ty.name not in
                              getattr(ex.reg, 'rec_props', {})) or
                             isinstance(ty, TMap) or isinstance(v, PyDict),
             'str': lambda: ty == TStr,
             'int': lambda: ty in (TInt, TBool),
             'float': lambda: ty == TReal,
             'bool': lambda: ty == TBool,
             'set': lambda: isinstance(ty, TSet)}
    if n in table:
        return z3.BoolVal(bool(table[n]()))
    if isinstance(ty, TRec):
        return z3.BoolVal(n == ty.name or n in ex.reg.rec_classes.get(ty.name, ()))
    if ty == TNone:
        return z3.BoolVal(False)
    if ty in (TStr, TInt, TReal, TBool) or isinstance(ty, (TList, TMap, TSet)):
        return z3.BoolVal(False)
    raise OutsideSubset('isinstance(%s, %s)' % (ty, n))


def _b_range(ex, node, st):
    args = [ex.as_int(st, a) for a in pos_args(ex, node, st)]
    if len(args) == 1: lo, hi = z3.IntVal(0), args[0]
    elif len(args) == 2: lo, hi = args
    else: raise OutsideSubset('range with step')
    return RangeVal(lo, hi)


def _b_enumerate(ex, node, st):
    args = pos_args(ex, node, st)
    start = z3.IntVal(0)
    if len(args) > 1:
        start = ex.as_int(st, args[1])
    for k, v in kw_args(ex, node, st).items():
        if k == 'start': start = ex.as_int(st, v)
    return EnumVal(args[0], start)


def _b_sorted(ex, node, st):
    args = pos_args(ex, node, st)
    kw   = {k.arg: k.value for k in node.keywords}
    v = args[0]
    if isinstance(v, KeysView):
        v = v.as_list(ex, st)
    if isinstance(v, PyTuple) and all(i.has_py() for i in v.items) and \
       'key' not in kw:
        rev = False
        if 'reverse' in kw:
            rev = bool(ex.ev(kw['reverse'], st).py)
        return PyTuple([lift(x) for x in sorted([i.py for i in v.items],
                                                reverse=rev)], True)
    if isinstance(v.ty, TList):
        return sorted_list(ex, v, st, kw)
    raise OutsideSubset('sorted(%s)' % v.ty)


def sorted_list(ex, v, st, kw):
    '''fresh permutation of v, ordered by the key (ascending or descending).
    Permutation is axiomatised through a bijection on indices.'''
    ty  = v.ty
    out = fresh(ty, 'sorted')
    n   = ty.len(v.term)
    perm = z3.Function(C.fresh_name('perm'), z3.IntSort(), z3.IntSort())
    inv  = z3.Function(C.fresh_name('pinv'), z3.IntSort(), z3.IntSort())
    i, j = z3.Int(C.fresh_name('i')), z3.Int(C.fresh_name('j'))
    ex.axioms.append(ty.len(out.term) == n)
    ex.axioms.append(z3.ForAll([i], z3.Implies(z3.And(0 <= i, i < n),
        z3.And(0 <= perm(i), perm(i) < n, inv(perm(i)) == i,
               z3.Select(ty.arr(out.term), i) ==
               z3.Select(ty.arr(v.term), perm(i))))))
    ex.axioms.append(z3.ForAll([i], z3.Implies(z3.And(0 <= i, i < n),
        z3.And(0 <= inv(i), inv(i) < n, perm(inv(i)) == i))))
    # the same bijection read from the input side (trigger: an element of the
    # input list)
    ex.axioms.append(z3.ForAll([i], z3.Implies(z3.And(0 <= i, i < n),
        z3.And(0 <= inv(i), inv(i) < n,
               z3.Select(ty.arr(v.term), i) ==
               z3.Select(ty.arr(out.term), inv(i)))),
        patterns=[z3.Select(ty.arr(v.term), i)]))
    rev = False
    if 'reverse' in kw:
        r = ex.ev(kw['reverse'], st)
        if not r.has_py(): raise OutsideSubset('symbolic reverse=')
        rev = bool(r.py)
    keyfn = None
    if 'key' in kw:
        keyfn = ex.ev(kw['key'], st)

    def key(elem):
        if keyfn is None:
            return elem
        from .symexec import LambdaVal
        sub = st.fork()
        sub.env[keyfn.node.args.args[0].arg] = elem
        sm = ex.specmode
        ex.specmode += 1
        try:
            return ex.ev(keyfn.node.body, sub)
        finally:
            ex.specmode = sm
    ki = key(Val(ty.elem, z3.Select(ty.arr(out.term), i)))
    kj = key(Val(ty.elem, z3.Select(ty.arr(out.term), j)))
    if ki.ty in (TInt, TReal):
        order = (ki.term >= kj.term) if rev else (ki.term <= kj.term)
        ex.axioms.append(z3.ForAll([i, j], z3.Implies(
            z3.And(0 <= i, i < j, j < n), order)))
    return out


def _b_any_all(is_any):
    def fn(ex, node, st):
        arg = node.args[0]
        if isinstance(arg, (ast.GeneratorExp, ast.ListComp)) and \
           len(arg.generators) == 1:
            gen = arg.generators[0]
            src = ex.ev(gen.iter, st)
            if isinstance(src, PyDict):
                src = PyTuple([lift(k) for k in src.items], True)
            if isinstance(src, PyTuple):
                ts = []
                for it in src.items:
                    sub = st.fork()
                    ex.bind_target(gen.target, it, sub)
                    cs = [truthy(ex.ev(c, sub)) for c in gen.ifs]
                    t  = truthy(ex.ev(arg.elt, sub))
                    ts.append(z3.And(*(cs + [t])) if is_any else
                              z3.Implies(z3.And(*cs), t) if cs else t)
                return Val(TBool, (z3.Or(*ts) if is_any else z3.And(*ts))
                           if ts else z3.BoolVal(not is_any))
            ty = src.ty
            if isinstance(ty, TList):
                i = z3.Int(C.fresh_name('i'))
                sub = st.fork()
                sub.guards = list(st.guards) + [0 <= i, i < ty.len(src.term)]
                sub.qvars = dict(getattr(st, 'qvars', None) or {})
                ex.bind_target(gen.target,
                               Val(ty.elem, z3.Select(ty.arr(src.term), i)), sub)
                for n_ in _target_names(gen.target):
                    sub.qvars[n_] = sub.env[n_]
                cs = [truthy(ex.ev(c, sub)) for c in gen.ifs]
                t  = truthy(ex.ev(arg.elt, sub))
                rng = z3.And(0 <= i, i < ty.len(src.term), *cs)
                if is_any:
                    return Val(TBool, z3.Exists([i], z3.And(rng, t)))
                return Val(TBool, z3.ForAll([i], z3.Implies(rng, t)))
        v = ex.ev(arg, st)
        if isinstance(v.ty, TList):
            i = z3.Int(C.fresh_name('i'))
            t = truthy(Val(v.ty.elem, z3.Select(v.ty.arr(v.term), i)))
            rng = z3.And(0 <= i, i < v.ty.len(v.term))
            if is_any:
                return Val(TBool, z3.Exists([i], z3.And(rng, t)))
            return Val(TBool, z3.ForAll([i], z3.Implies(rng, t)))
        if isinstance(v, PyTuple):
            ts = [truthy(i) for i in v.items]
            return Val(TBool, (z3.Or(*ts) if is_any else z3.And(*ts))
                       if ts else z3.BoolVal(not is_any))
        raise OutsideSubset('any/all over %s' % v.ty)
    return fn


def _target_names(t):
    if isinstance(t, ast.Name): return [t.id]
    out = []
    for e in t.elts: out.extend(_target_names(e))
    return out


def _b_setattr(ex, node, st):
    obj, name, val = node.args
    nv = ex.ev(name, st)
    if not nv.has_py():
        raise OutsideSubset('setattr with symbolic name')
    tgt = ast.Attribute(value=obj, attr=nv.py, ctx=ast.Store())
    ex.assign(tgt, ex.ev(val, st), st)
    return NONE


def _b_getattr(ex, node, st):
    obj, name = node.args[:2]
    nv = ex.ev(name, st)
    if not nv.has_py():
        raise OutsideSubset('getattr with symbolic name')
    return ex.ev(ast.Attribute(value=obj, attr=nv.py, ctx=ast.Load()), st)


def _b_sum(ex, node, st):
    args = pos_args(ex, node, st)
    v = args[0]
    if isinstance(v, PyTuple):
        res = lift(0)
        for it in v.items:
            res = ex.binop(ast.Add(), res, it, st)
        return res
    raise OutsideSubset('sum over symbolic sequence')


_EXC_NAMES = {'Exception', 'ValueError', 'RuntimeError', 'TypeError', 'KeyError', 'AssertionError',
              'IndexError', 'AttributeError', 'OSError', 'IOError', 'NotImplementedError'}

_BUILTINS = {'len': _b_len, 'int': _b_int, 'float': _b_float, 'bool': _b_bool,
             'str': _b_str, 'repr': _b_repr, 'min': _b_min, 'max': _b_max,
             'abs': _b_abs, 'list': _b_list, 'dict': _b_dict, 'set': _b_set,
             'defaultdict': _b_defaultdict,
             'tuple': _b_tuple, 'isinstance': _b_isinstance,
             'range': _b_range, 'enumerate': _b_enumerate,
             'sorted': _b_sorted, 'any': _b_any_all(True),
             'all': _b_any_all(False), 'setattr': _b_setattr,
             'getattr': _b_getattr, 'sum': _b_sum}


class RangeVal(Val):
    __slots__ = ('lo', 'hi')

    def __init__(self, lo, hi):
        Val.__init__(self, TPy)
        self.lo, self.hi = lo, hi


class EnumVal(Val):
    __slots__ = ('seq', 'start')

    def __init__(self, seq, start):
        Val.__init__(self, TPy)
        self.seq, self.start = seq, start


class KeysView(Val):
    '''d.keys() / d.values() / d.items() / iteration over a Map'''
    __slots__ = ('m', 'what', 'path')

    def __init__(self, m, what, path=None):
        Val.__init__(self, TPy)
        self.m, self.what, self.path = m, what, path

    def as_list(self, ex, st):
        '''a duplicate-free list enumerating the view (arbitrary order)'''
        m = self.m
        ty = m.ty
        if self.what == 'keys':
            lty = TList(ty.k)
        elif self.what == 'values':
            lty = TList(ty.v)
        else:
            lty = TList(TTuple([ty.k, ty.v]))
        kl  = fresh(TList(ty.k), 'keys')
        n   = TList(ty.k).len(kl.term)
        arr = TList(ty.k).arr(kl.term)
        i, j = z3.Int(C.fresh_name('i')), z3.Int(C.fresh_name('j'))
        k = z3.Const(C.fresh_name('k'), ty.k.sort())
        pos = z3.Function(C.fresh_name('kpos'), ty.k.sort(), z3.IntSort())
        dom = ty.dom(m.term)
        ex.axioms.append(n >= 0)
        ex.axioms.append(n == C.map_size(m))
        ex.axioms.append(z3.ForAll([i], z3.Implies(z3.And(0 <= i, i < n),
            z3.And(z3.Select(dom, z3.Select(arr, i)),
                   pos(z3.Select(arr, i)) == i))))
        ex.axioms.append(z3.ForAll([k], z3.Implies(z3.Select(dom, k),
            z3.And(0 <= pos(k), pos(k) < n, z3.Select(arr, pos(k)) == k))))
        if self.what == 'keys':
            return kl
        out = fresh(lty, self.what)
        ex.axioms.append(lty.len(out.term) == n)
        if self.what == 'values':
            ex.axioms.append(z3.ForAll([i], z3.Implies(z3.And(0 <= i, i < n),
                z3.Select(lty.arr(out.term), i) ==
                z3.Select(ty.val(m.term), z3.Select(arr, i)))))
        else:
            tt = lty.elem
            ex.axioms.append(z3.ForAll([i], z3.Implies(z3.And(0 <= i, i < n),
                z3.Select(lty.arr(out.term), i) ==
                tt.mk(z3.Select(arr, i),
                      z3.Select(ty.val(m.term), z3.Select(arr, i))))))
        return out


# ------------------------------------------------------------------------------
# module functions
#
def _m_floor(ex, node, st):
    arg = node.args[0]
    if isinstance(arg, ast.BinOp) and isinstance(arg.op, ast.Div):
        # floor(a / b): for integers this is exactly integer floor division
        # (under A1, reals); for reals the defining sandwich is stated
        a = ex.num(st, ex.ev(arg.left, st))
        b = ex.num(st, ex.ev(arg.right, st))
        ex.fail(st, coerce(b, TReal).term == 0, 'ZeroDivisionError')
        if a.ty == TInt and b.ty == TInt:
            q = Val(TInt, C.floordiv_int(a.term, b.term))
            # consequences of the definition linear arithmetic can use
            st.assume(z3.Implies(z3.And(b.term > 0, a.term >= 0), q.term >= 0))
            st.assume(z3.Implies(z3.And(b.term > 0, a.term >= b.term), q.term >= 1))
            st.assume(z3.Implies(z3.And(b.term > 0, a.term >= 0, a.term < b.term), q.term == 0))
            return q
        q = fresh(TInt, 'floor')
        ar, br = coerce(a, TReal).term, coerce(b, TReal).term
        st.assume(z3.Implies(br > 0, z3.And(z3.ToReal(q.term) * br <= ar,
                                            ar < (z3.ToReal(q.term) + 1) * br)))
        st.assume(z3.Implies(br < 0, z3.And(z3.ToReal(q.term) * br >= ar,
                                            ar > (z3.ToReal(q.term) + 1) * br)))
        st.assume(z3.Implies(z3.And(br > 0, ar >= 0), q.term >= 0))
        st.assume(z3.Implies(z3.And(br > 0, ar >= br), q.term >= 1))
        st.assume(z3.Implies(z3.And(br > 0, ar < br, ar >= 0), q.term == 0))
        return q
    v = ex.num(st, pos_args(ex, node, st)[0])
    if v.ty == TInt: return v
    return Val(TInt, z3.ToInt(v.term))


def _m_ceil(ex, node, st):
    v = ex.num(st, pos_args(ex, node, st)[0])
    if v.ty == TInt: return v
    return Val(TInt, -z3.ToInt(-v.term))


def _m_time(ex, node, st):
    '''time.time(): non-decreasing clock'''
    prev = st.env.get('clock!')
    now  = fresh(TReal, 'now')
    if prev is not None:
        st.assume(now.term >= prev.term)
    st.env['clock!'] = now
    return now


def _m_deepcopy(ex, node, st):
    return pos_args(ex, node, st)[0]


def _m_as_list(ex, node, st):
    '''ru.as_list (assumed contract): None -> [], list -> itself, x -> [x]'''
    v = pos_args(ex, node, st)[0]
    if isinstance(v, PyTuple) or isinstance(v.ty, TList): return v
    if v.ty == TNone: return PyTuple([], True)
    if isinstance(v.ty, TOpt):
        raise OutsideSubset('ru.as_list on optional')
    return PyTuple([v], True)


_MODFUNCS = {'math.floor': _m_floor, 'math.ceil': _m_ceil, 'm.floor': _m_floor,
             'm.ceil': _m_ceil, 'time.time': _m_time,
             'copy.deepcopy': _m_deepcopy, 'copy.copy': _m_deepcopy,
             'ru.as_list': _m_as_list,
             'ru.get_exception_trace': _m_exc_trace}


# ------------------------------------------------------------------------------
# methods of builtin types
#
def call_method(ex, node, st):
    func = node.func
    meth = func.attr
    path = ex.ev_path(func.value, st)
    if path is not None:
        recv = ex.read_path(st, *path)
    else:
        recv = ex.ev(func.value, st)
    rty = recv.ty
    if isinstance(rty, TOpt):
        ex.fail(st, rty.is_none(recv.term), 'AttributeError')
        recv = Val(rty.elem, rty.val(recv.term))
        if path is not None:
            path = (path[0], path[1] + (('o',),))
        rty = recv.ty

    def write(new):
        if path is None:
            return                # mutation of a temporary is unobservable
        ex.write_path(st, path[0], path[1], new)

    if rty == TAny:
        # a method of an opaque object (declared `Any` in the spec): no effect
        # on the modelled state, returns an opaque value (assumption A5)
        for a in node.args:
            try: ex.ev(a, st)
            except OutsideSubset: pass
        if 'opaque call .%s()' % meth not in ex.notes:
            ex.notes.append('opaque call .%s()' % meth)
        return fresh(TAny, 'opaque')

    # contract on a record type's method
    if isinstance(rty, TRec):
        cs = ex.reg.find_method(rty.name, meth, ex.spec)
        if cs is not None:
            return call_contract(ex, st, cs, node)

    # ---- dict-like: records and python-side dicts -----------------------------
    if isinstance(rty, TRec) or isinstance(recv, PyDict):
        if meth == 'get':
            args = pos_args(ex, node, st)
            key = args[0]
            dflt = args[1] if len(args) > 1 else NONE
            if not key.has_py():
                raise OutsideSubset('.get with symbolic key on record')
            if isinstance(recv, PyDict):
                return recv.items.get(key.py, dflt)
            if key.py not in rty.fields:
                raise OutsideSubset('record %s has no field %r (spec mismatch)'
                                    % (rty, key.py))
            fty = rty.fields[key.py]
            v = Val(fty, rty.get(recv.term, key.py))
            opt_keys = ex.reg.optional_keys.get(rty.name, ())
            amb_keys = ex.reg.ambiguous_keys.get(rty.name, ())
            if isinstance(fty, TOpt) and dflt.ty != TNone and \
               (key.py in opt_keys or key.py in amb_keys):
                # a key that may be absent is modelled as None when absent, and
                # `.get(k, d)` yields d then.  A key that is always present keeps
                # its None (`.get` ignores the default), and one that may be
                # either (ambiguous_keys) yields d or None, undetermined.
                d = dflt
                if isinstance(d, (PyDict, PyTuple)):
                    d = coerce(d, fty.elem)
                try:
                    ty = join_ty(fty.elem, d.ty)
                    if key.py in amb_keys:
                        oty = C.OptOf(ty)
                        absent = z3.Bool(C.fresh_name('absent'))
                        return Val(oty, z3.If(fty.is_none(v.term),
                               z3.If(absent, oty.some(coerce(d, ty).term), oty.none()),
                               oty.some(coerce(Val(fty.elem, fty.val(v.term)), ty).term)))
                    return Val(ty, z3.If(fty.is_none(v.term),
                               coerce(d, ty).term,
                               coerce(Val(fty.elem, fty.val(v.term)), ty).term))
                except OutsideSubset:
                    raise OutsideSubset('.get default of another type')
            return v
        if meth in ('keys', 'values', 'items') and isinstance(recv, PyDict):
            if meth == 'keys':
                return PyTuple([lift(k) for k in recv.items], True)
            if meth == 'values':
                return PyTuple(list(recv.items.values()), True)
            return PyTuple([PyTuple([lift(k), v]) for k, v in
                            recv.items.items()], True)
        if meth == 'as_dict':
            return recv
        if meth == 'keys' and isinstance(rty, TRec):
            # optional keys are modelled as None when absent: every declared
            # key is enumerated
            return PyTuple([lift(k) for k in rty.fields], True)
        if meth == 'update' and isinstance(recv, PyDict):
            other = pos_args(ex, node, st)[0]
            if isinstance(other, PyDict):
                items = dict(recv.items); items.update(other.items)
                write(PyDict(items)); return NONE

    # ---- lists ---------------------------------------------------------------
    if isinstance(rty, TList) or (isinstance(recv, PyTuple)):
        if meth == 'append':
            arg = pos_args(ex, node, st)[0]
            if isinstance(recv, PyTuple):
                write(PyTuple(recv.items + [arg], True)); return NONE
            e = coerce(arg, rty.elem)
            n = rty.len(recv.term)
            write(Val(rty, rty.mk(z3.Store(rty.arr(recv.term), n, e.term),
                                  n + 1)))
            # python appends a reference: if the appended object is held by a
            # plain local name, that name now denotes the new list cell, so
            # later mutations through it are seen in the list (one alias is
            # tracked; DESIGN 2.6)
            from .symexec import Ref
            a0 = node.args[0]
            if isinstance(a0, ast.Name) and path is not None and \
               ex.is_mutable(arg) and not isinstance(st.env.get(a0.id), Ref) \
               and a0.id in st.env and not ex.specmode:
                st.env[a0.id] = Ref(path[0], path[1] + (('i', n),))
            return NONE
        if meth == 'extend':
            arg = pos_args(ex, node, st)[0]
            write(list_extend(ex, recv, arg, st)); return NONE
        if meth == 'count':
            arg = pos_args(ex, node, st)[0]
            return list_count(ex, recv, arg, st)
        if meth == 'pop' and isinstance(rty, TList):
            args = pos_args(ex, node, st)
            n = rty.len(recv.term)
            if not args:
                ex.fail(st, n <= 0, 'IndexError')
                write(Val(rty, rty.mk(rty.arr(recv.term), n - 1)))
                return Val(rty.elem, z3.Select(rty.arr(recv.term), n - 1))
            if args[0].has_py() and args[0].py == 0:
                ex.fail(st, n <= 0, 'IndexError')
                rest = ex.list_slice(recv, z3.IntVal(1), n)
                write(rest)
                return Val(rty.elem, z3.Select(rty.arr(recv.term), 0))
        if meth == 'remove' and isinstance(rty, TList):
            arg = coerce(pos_args(ex, node, st)[0], rty.elem)
            return list_remove(ex, recv, arg, st, write)
        if meth == 'index' and isinstance(rty, TList):
            arg = coerce(pos_args(ex, node, st)[0], rty.elem)
            i = z3.Int(C.fresh_name('idx'))
            j = z3.Int(C.fresh_name('j'))
            ex.fail(st, z3.Not(ex.contains(recv, arg, st)), 'ValueError')
            st.assume(z3.And(0 <= i, i < rty.len(recv.term),
                             eq(Val(rty.elem, z3.Select(rty.arr(recv.term), i)), arg)))
            st.assume(z3.ForAll([j], z3.Implies(z3.And(0 <= j, j < i),
                 z3.Not(eq(Val(rty.elem, z3.Select(rty.arr(recv.term), j)), arg)))))
            return Val(TInt, i)
        if meth == 'sort' and isinstance(rty, TList):
            kw = {k.arg: k.value for k in node.keywords}
            write(sorted_list(ex, recv, st, kw)); return NONE
        if meth == 'copy':
            return recv

    # ---- maps ----------------------------------------------------------------
    if isinstance(rty, TMap):
        if meth == 'get':
            args = pos_args(ex, node, st)
            k = coerce(args[0], rty.k)
            indom = z3.Select(rty.dom(recv.term), k.term)
            val = Val(rty.v, z3.Select(rty.val(recv.term), k.term))
            dflt = args[1] if len(args) > 1 else NONE
            if isinstance(dflt, (PyDict, PyTuple)):
                dflt = coerce(dflt, rty.v)       # `{}` / `[]` as default
            ty = join_ty(rty.v, dflt.ty)
            return Val(ty, z3.If(indom, coerce(val, ty).term,
                                 coerce(dflt, ty).term))
        if meth in ('keys', 'values', 'items'):
            return KeysView(recv, meth, path)
        if meth == 'pop':
            args = pos_args(ex, node, st)
            k = coerce(args[0], rty.k)
            indom = z3.Select(rty.dom(recv.term), k.term)
            val = Val(rty.v, z3.Select(rty.val(recv.term), k.term))
            if len(args) == 1:
                ex.fail(st, z3.Not(indom), 'KeyError')
                res = val
            else:
                ty = join_ty(rty.v, args[1].ty)
                res = Val(ty, z3.If(indom, coerce(val, ty).term,
                                    coerce(args[1], ty).term))
            write(Val(rty, rty.mk(rty.val(recv.term),
                      z3.Store(rty.dom(recv.term), k.term, z3.BoolVal(False)))))
            return res
        if meth == 'update' and len(node.args) == 1 and isinstance(node.args[0], ast.Dict):
            cur = recv
            for kn, vn in zip(node.args[0].keys, node.args[0].values):
                k = coerce(ex.ev(kn, st), rty.k)
                v = coerce(ex.ev(vn, st), rty.v)
                cur = Val(rty, rty.mk(z3.Store(rty.val(cur.term), k.term, v.term),
                                      z3.Store(rty.dom(cur.term), k.term, z3.BoolVal(True))))
            write(cur)
            return NONE
        if meth == 'setdefault':
            raise OutsideSubset('dict.setdefault')
        if meth == 'clear':
            write(C.empty_map(rty)); return NONE

    # ---- sets ----------------------------------------------------------------
    if isinstance(rty, TSet):
        if meth == 'add':
            k = coerce(pos_args(ex, node, st)[0], rty.k)
            write(Val(rty, z3.Store(recv.term, k.term, z3.BoolVal(True))))
            return NONE
        if meth == 'pop':
            e = fresh(rty.k, 'popped')
            k = z3.Const(C.fresh_name('k'), rty.k.sort())
            ex.fail(st, z3.ForAll([k], z3.Not(z3.Select(recv.term, k))), 'KeyError')
            st.assume(z3.Select(recv.term, e.term))
            write(Val(rty, z3.Store(recv.term, e.term, z3.BoolVal(False))))
            return e
        if meth in ('discard', 'remove'):
            k = coerce(pos_args(ex, node, st)[0], rty.k)
            if meth == 'remove':
                ex.fail(st, z3.Not(z3.Select(recv.term, k.term)), 'KeyError')
            write(Val(rty, z3.Store(recv.term, k.term, z3.BoolVal(False))))
            return NONE
        if meth == 'update':
            other = pos_args(ex, node, st)[0]
            if isinstance(other, PyTuple):
                t = recv.term
                for it in other.items:
                    t = z3.Store(t, coerce(it, rty.k).term, z3.BoolVal(True))
                write(Val(rty, t)); return NONE
            if isinstance(other.ty, TList) and other.ty.elem == rty.k:
                out = fresh(rty, 'setupd')
                k = z3.Const(C.fresh_name('k'), rty.k.sort())
                i = z3.Int(C.fresh_name('i'))
                ex.axioms.append(z3.ForAll([k], z3.Select(out.term, k) ==
                    z3.Or(z3.Select(recv.term, k),
                          z3.Exists([i], z3.And(0 <= i,
                              i < other.ty.len(other.term),
                              z3.Select(other.ty.arr(other.term), i) == k)))))
                write(out); return NONE

    # ---- strings -------------------------------------------------------------
    if rty == TStr:
        args = pos_args(ex, node, st)
        if meth in ('upper', 'lower', 'strip', 'replace', 'lstrip', 'rstrip',
                    'format', 'split', 'startswith', 'endswith', 'join'):
            if meth in ('startswith', 'endswith'):
                if recv.has_py() and all(a.has_py() for a in args):
                    return lift(getattr(recv.py, meth)(*[a.py for a in args]))
                f = z3.Function('str!' + meth, C.StrSort, C.StrSort,
                                z3.BoolSort())
                return Val(TBool, f(recv.term, coerce(args[0], TStr).term))
            if meth == 'join':
                # str.join needs strings: any other element raises TypeError
                a0 = args[0] if args else None
                if a0 is not None and isinstance(a0.ty, TList) and a0.ty.elem != TStr:
                    ex.fail(st, a0.ty.len(a0.term) > 0, 'TypeError')
                elif isinstance(a0, PyTuple) and any(it.ty not in (TStr,) for it in a0.items):
                    ex.fail(st, z3.BoolVal(True), 'TypeError')
                return ex.str_fn('join', [recv] + args)
            if meth == 'split':
                # an uninterpreted function of (text, separator, maxsplit) into a
                # non-empty list of strings
                lty = TList(TStr)
                sep = coerce(args[0], TStr) if args else lift(' ')
                mx  = coerce(args[1], TInt) if len(args) > 1 else lift(-1)
                f = z3.Function('str!split', C.StrSort, C.StrSort, z3.IntSort(), lty.sort())
                out = Val(lty, f(coerce(recv, TStr).term, sep.term, mx.term))
                st.assume(lty.len(out.term) >= 1)
                return out
            return ex.str_fn(meth, [recv] + args)

    raise OutsideSubset('method %s on %s (line %s)' % (meth, recv, ex.cur_line))


def list_extend(ex, recv, arg, st):
    if isinstance(recv, PyTuple):
        if isinstance(arg, PyTuple):
            return PyTuple(recv.items + arg.items, True)
        recv = coerce(recv, arg.ty)
    return ex.list_concat(recv, arg, st)


# count(xs, v) as a recursive spec function on prefixes, unfolded on demand
_cnt_fns = dict()


def count_fn(ty):
    '''cnt(arr, v, n) = number of i < n with arr[i] == v'''
    if ty.key not in _cnt_fns:
        _cnt_fns[ty.key] = z3.Function('count!%s' % ty.key,
                               z3.ArraySort(z3.IntSort(), ty.elem.sort()),
                               ty.elem.sort(), z3.IntSort(), z3.IntSort())
    return _cnt_fns[ty.key]


def count_axioms(ty):
    """bounds only (0 <= count <= n); the recursive definition is unfolded on
    mention (count_term), never by a self-matching quantifier"""
    f = count_fn(ty)
    a = z3.Const('cnt!a!%s' % ty.key, z3.ArraySort(z3.IntSort(), ty.elem.sort()))
    v = z3.Const('cnt!v!%s' % ty.key, ty.elem.sort())
    n = z3.Int('cnt!n')
    return [z3.ForAll([a, v, n], z3.Implies(n >= 0,
                z3.And(f(a, v, n) >= 0, f(a, v, n) <= n)),
                patterns=[f(a, v, n)])]


def count_term(ex, ty, arr, v, n):
    """count!(arr, v, n) plus its one-step unfolding at n:
       n <= 0 -> 0 ;  n > 0 -> count(arr, v, n-1) + [arr[n-1] == v]"""
    key = 'count:' + ty.key
    keys = ex.__dict__.setdefault('_axiom_keys', set())
    if key not in keys:
        keys.add(key)
        ex.axioms.extend(count_axioms(ty))
    f = count_fn(ty)
    t = f(arr, v, n)
    ik = ('cnt-unfold', t.get_id())
    if ik not in keys:
        keys.add(ik)
        ex.axioms.append(t == z3.If(n > 0,
                         f(arr, v, n - 1) + z3.If(z3.Select(arr, n - 1) == v, 1, 0),
                         0))
        # one more level is cheap and often needed (loop index i and i+1)
        t1 = f(arr, v, n - 1)
        ik1 = ('cnt-unfold', t1.get_id())
        if ik1 not in keys:
            keys.add(ik1)
            ex.axioms.append(z3.Implies(n - 1 <= 0, t1 == 0))
    return t


def list_count(ex, recv, arg, st):
    if isinstance(recv, PyTuple):
        res = lift(0)
        for it in recv.items:
            res = Val(TInt, res.term + z3.If(eq(it, arg), 1, 0))
        return res
    ty = recv.ty
    a = coerce(arg, ty.elem)
    return Val(TInt, count_term(ex, ty, ty.arr(recv.term), a.term,
                                ty.len(recv.term)))


def list_remove(ex, recv, arg, st, write):
    '''xs.remove(v): drop the first occurrence'''
    ty = recv.ty
    n  = ty.len(recv.term)
    ex.fail(st, z3.Not(ex.contains(recv, arg, st)), 'ValueError')
    p = z3.Int(C.fresh_name('rm'))
    j = z3.Int(C.fresh_name('j'))
    arr = ty.arr(recv.term)
    st.assume(z3.And(0 <= p, p < n, eq(Val(ty.elem, z3.Select(arr, p)), arg)))
    st.assume(z3.ForAll([j], z3.Implies(z3.And(0 <= j, j < p),
              z3.Not(eq(Val(ty.elem, z3.Select(arr, j)), arg)))))
    out = fresh(ty, 'removed')
    oarr = ty.arr(out.term)
    st.assume(ty.len(out.term) == n - 1)
    st.assume(z3.ForAll([j], z3.Implies(z3.And(0 <= j, j < p),
              z3.Select(oarr, j) == z3.Select(arr, j))))
    st.assume(z3.ForAll([j], z3.Implies(z3.And(p <= j, j < n - 1),
              z3.Select(oarr, j) == z3.Select(arr, j + 1)),
              patterns=[z3.Select(oarr, j)]))
    # the same fact, triggered from the old list's side
    st.assume(z3.ForAll([j], z3.Implies(z3.And(p < j, j < n),
              z3.Select(arr, j) == z3.Select(oarr, j - 1)),
              patterns=[z3.Select(arr, j)]))
    st.assume(z3.ForAll([j], z3.Implies(z3.And(0 <= j, j < p),
              z3.Select(arr, j) == z3.Select(oarr, j)),
              patterns=[z3.Select(arr, j)]))
    write(out)
    return NONE

"""pyvc.loops -- loops are cut by the invariants of the sidecar spec.

  entry     : the invariant holds when the loop is reached
  preserve  : assuming the invariant (and the loop condition) at an arbitrary
              iteration, it holds again after the body
  use       : after the loop only the invariant and the negated condition
              (or the state at a `break`) are known

`for` loops over literal sequences are unrolled (their length is a literal, so
this is complete, not a bound).
"""

import ast

import z3

from . import core as C
from .core import (Val, PyTuple, PyDict, NONE, OutsideSubset, SpecError, TInt,
                   TList, TMap, TOpt, TRec, TSet, TTuple, TPy, TNone, fresh,
                   lift, truthy, coerce)
from .frontend import _attr_chain

MUTATORS = {'append', 'extend', 'insert', 'remove', 'pop', 'clear', 'update',
            'add', 'discard', 'sort', 'reverse', 'setdefault', 'popitem'}


def number_loops(body):
    '''id(loop node) -> ordinal ("1", "1.1", "2", ...)'''
    out = dict()

    def walk(stmts, prefix):
        n = 0
        for s in stmts:
            if isinstance(s, (ast.FunctionDef, ast.AsyncFunctionDef,
                              ast.ClassDef)):
                continue
            if isinstance(s, (ast.For, ast.While)):
                n += 1
                ordn = (prefix + '.' if prefix else '') + str(n)
                out[id(s)] = ordn
                sub = walk2(s.body + s.orelse, ordn)
                continue
            n = walk_children(s, prefix, n)
        return n

    def walk_children(s, prefix, n):
        for field in ('body', 'orelse', 'finalbody'):
            blk = getattr(s, field, None)
            if isinstance(blk, list) and blk and isinstance(blk[0], ast.stmt):
                n = walk_from(blk, prefix, n)
        if isinstance(s, ast.Try):
            for h in s.handlers:
                n = walk_from(h.body, prefix, n)
        return n

    def walk_from(stmts, prefix, n):
        for s in stmts:
            if isinstance(s, (ast.FunctionDef, ast.AsyncFunctionDef,
                              ast.ClassDef)):
                continue
            if isinstance(s, (ast.For, ast.While)):
                n += 1
                ordn = (prefix + '.' if prefix else '') + str(n)
                out[id(s)] = ordn
                walk_from(s.body + s.orelse, ordn, 0)
                continue
            n = walk_children(s, prefix, n)
        return n

    def walk2(stmts, prefix):
        return walk_from(stmts, prefix, 0)

    walk_from(body, '', 0)
    return out


# ------------------------------------------------------------------------------
# syntactic effect analysis of a loop body
#
def base_root(node):
    '''root name of a path-like expression: 'x' or 'self.attr' or None'''
    attrs = []
    while True:
        if isinstance(node, ast.Attribute):
            attrs.append(node.attr); node = node.value
        elif isinstance(node, ast.Subscript):
            attrs.append(None); node = node.value
        elif isinstance(node, ast.Call) and isinstance(node.func, ast.Attribute) \
             and node.func.attr in ('values', 'items', 'keys', 'get'):
            attrs.append(None); node = node.func.value
        elif isinstance(node, ast.Call) and isinstance(node.func, ast.Name) \
             and node.func.id in ('enumerate', 'list', 'sorted', 'reversed') \
             and node.args:
            node = node.args[0]
        else:
            break
    if isinstance(node, ast.Name):
        if node.id == 'self':
            named = [a for a in reversed(attrs)]
            if named and named[0] is not None:
                return 'self.' + named[0]
            return 'self'
        return node.id
    return None


class Effects:
    def __init__(self):
        self.assigned = set()
        self.mutated  = set()
        self.aliases  = dict()


def analyze(ex, stmts, eff=None):
    eff = eff or Effects()

    def target(t, aliased=None):
        if isinstance(t, ast.Name):
            eff.assigned.add(t.id)
            if aliased:
                eff.aliases.setdefault(t.id, set()).add(aliased)
        elif isinstance(t, (ast.Tuple, ast.List)):
            for e in t.elts:
                target(e, aliased)
        elif isinstance(t, ast.Starred):
            target(t.value, aliased)
        else:
            r = base_root(t)
            if r: eff.mutated.add(r)

    def visit(n):
        if isinstance(n, ast.stmt) and ex.spec.get('stmt_effects'):
            seg = ast.get_source_segment(ex.fsrc.src, n) or ''
            for prefix, handler in ex.spec['stmt_effects'].items():
                if seg.startswith(prefix):
                    for m in getattr(handler, 'mutates', ()):
                        eff.mutated.add(m)
                    for m in getattr(handler, 'assigns', ()):
                        eff.assigned.add(m)
                    return
        if isinstance(n, ast.stmt) and ex.spec.get('stmt_contracts'):
            seg = ast.get_source_segment(ex.fsrc.src, n) or ''
            for prefix, key in ex.spec['stmt_contracts'].items():
                if seg.startswith(prefix):
                    for m in ex.reg.get(key).get('modifies', ()):
                        eff.mutated.add(m)
                    return
        if isinstance(n, ast.stmt) and ex.spec.get('stmt_ghost'):
            seg = ast.get_source_segment(ex.fsrc.src, n) or ''
            for prefix, handler in ex.spec['stmt_ghost'].items():
                if seg.startswith(prefix):
                    for m in getattr(handler, 'mutates', ()):
                        eff.mutated.add(m)
        if isinstance(n, (ast.FunctionDef, ast.AsyncFunctionDef, ast.Lambda,
                          ast.ClassDef)):
            if isinstance(n, ast.FunctionDef):
                eff.assigned.add(n.name)
            return
        if isinstance(n, ast.Assign):
            al = base_root(n.value) if isinstance(n.value, (ast.Name,
                      ast.Attribute, ast.Subscript, ast.Call)) else None
            for t in n.targets:
                target(t, al)
        elif isinstance(n, ast.AugAssign):
            target(n.target)
        elif isinstance(n, ast.AnnAssign):
            target(n.target)
        elif isinstance(n, ast.For):
            target(n.target, base_root(n.iter))
            if isinstance(n.target, (ast.Name, ast.Tuple)):
                names = [n.target.id] if isinstance(n.target, ast.Name) else \
                        [e.id for e in n.target.elts if isinstance(e, ast.Name)]
                if names:
                    eff.assigned.add('i_' + names[-1])
        elif isinstance(n, ast.Delete):
            for t in n.targets:
                if isinstance(t, ast.Name):
                    eff.assigned.add(t.id)
                else:
                    r = base_root(t)
                    if r:
                        eff.mutated.add(r)
                        hook = ex.spec.get('on_delete', {}).get(r)
                        for m in getattr(hook, 'mutates', ()):
                            eff.mutated.add(m)
        elif isinstance(n, ast.With):
            for it in n.items:
                if it.optional_vars is not None:
                    target(it.optional_vars)
                ch = _attr_chain(it.context_expr)
                we = ex.spec.get('with_effects', {}).get('.'.join(ch) if ch else None)
                if we is not None:
                    for m in getattr(we, 'mutates', ()):
                        eff.mutated.add(m)
        elif isinstance(n, ast.ExceptHandler):
            if n.name:
                eff.assigned.add(n.name)
        elif isinstance(n, ast.Yield):
            eff.mutated.add('yielded')
        elif isinstance(n, ast.Call):
            call_effects(n)
        elif isinstance(n, ast.NamedExpr):
            target(n.target)
        for c in ast.iter_child_nodes(n):
            visit(c)

    def call_effects(n):
        chain = _attr_chain(n.func)
        dotted = '.'.join(chain) if chain else None
        if isinstance(n.func, ast.Attribute) and n.func.attr in MUTATORS:
            r = base_root(n.func.value)
            if r: eff.mutated.add(r)
        if n.func.__class__ is ast.Name and n.func.id == 'setattr' and n.args:
            r = base_root(n.args[0])
            if r == 'self' and len(n.args) > 1:
                # setattr(self, "_%s" % key, ...) : resolved when executed; be
                # conservative: every declared self attribute
                for a in ex.spec.get('self', {}):
                    eff.mutated.add('self.' + a)
            elif r:
                eff.mutated.add(r)
        cs = None
        if not dotted and not isinstance(n.func, ast.Name):
            try:
                tgt = ex.spec.get('calls', {}).get(ast.unparse(n.func))
            except Exception:
                tgt = None
            if tgt is not None and hasattr(tgt, 'mutates'):
                for m in tgt.mutates: eff.mutated.add(m)
                return
        if dotted:
            tgt = ex.spec.get('calls', {}).get(dotted)
            if isinstance(tgt, str):
                cs = ex.reg.get(tgt)
            elif tgt is not None and hasattr(tgt, 'mutates'):
                # the spec replaces this call by a handler: its declared effects
                # are the effects (no lookup of a contract by name)
                for m in tgt.mutates: eff.mutated.add(m)
                return
            e = ex.spec.get('effects', {}).get(dotted) or \
                ex.reg.effects.get(dotted)
            if e is not None:
                for m in getattr(e, 'mutates', ()):
                    eff.mutated.add(m)
        if cs is None and chain and chain[0] == 'self' and len(chain) == 2:
            cs = ex.reg.find_method(ex.fsrc.cls, chain[1], ex.spec)
        if cs is None and isinstance(n.func, ast.Name):
            cs = ex.reg.find_function(ex.fsrc.rel, n.func.id)
            if cs is None and n.func.id in ex.spec.get('nested', {}):
                cs = ex.reg.find_nested(ex.spec, n.func.id)
        if cs is None and chain and len(chain) == 2:
            from .frontend import ModuleEnv
            g = ex.modenv.lookup(chain[0])
            if isinstance(g, ModuleEnv):
                cs = ex.reg.find_function(g.rel, chain[1])
        if cs is None and isinstance(n.func, ast.Attribute):
            # method of a record type: found by method name among contracts.
            # Conservative: if several classes have such a method, the effects
            # of all of them are assumed.
            cands = [c for c in ex.reg.specs.values()
                     if c['qualname'].endswith('.' + n.func.attr)
                     and c.get('self_type') is not None]
            for c in cands[1:]:
                _contract_effects(c, n)
            cs = cands[0] if cands else None
        if cs is not None:
            _contract_effects(cs, n)

    def _contract_effects(cs, n):
        if True:
            params = list(cs['params'])
            amap = dict(zip(params, n.args))
            for k in n.keywords: amap[k.arg] = k.value
            for m in cs.get('modifies', []):
                if m == 'self':
                    r = base_root(n.func.value) if \
                        isinstance(n.func, ast.Attribute) else None
                    if r: eff.mutated.add(r)
                elif m.startswith('self.') or m in cs.get('ghost', {}):
                    eff.mutated.add(m)
                elif m in amap:
                    r = base_root(amap[m])
                    if r: eff.mutated.add(r)

    for s in stmts:
        visit(s)
    return eff


def havoc_set(ex, st, eff):
    '''-> (names to havoc, roots to havoc)'''
    from .symexec import Ref
    roots = set()

    def resolve(name, seen):
        if name in seen: return
        seen.add(name)
        if name.startswith('self.') or name == 'self':
            # a receiver modelled as one record (self_type): its attributes are
            # fields of the root `self`
            if name.startswith('self.') and 'self' in st.env:
                name = 'self'
            roots.add(name); return
        cur = st.env.get(name)
        if isinstance(cur, Ref):
            resolve(cur.root, seen)
        else:
            roots.add(name)
        for al in eff.aliases.get(name, ()):
            resolve(al, seen)
    for m in eff.mutated:
        resolve(m, set())
    return set(eff.assigned), roots


def rely(ex, pre, st):
    """environment steps: `volatile` roots of the spec may change between any
    two loop iterations, constrained only by the spec's rely condition"""
    vol = ex.spec.get('volatile', [])
    if not vol:
        return
    from .symexec import State
    before = dict(pre.env)
    for r in vol:
        st.env[r] = ex.fresh_wf(st, ex.local_type(r), r.replace('.', '_'))
    two = st.fork()
    two.old = before
    for text in ex.spec.get('rely', []):
        st.assume(ex.spec_bool(text, two))


def do_havoc(ex, st, names, roots, keep=()):
    from .symexec import Ref, STALE
    for r in sorted(roots):
        if r in keep: continue
        cur = st.env.get(r)
        if cur is None:
            if r.startswith('self.'):
                raise SpecError('loop mutates %s which the spec does not '
                                'declare' % r)
            continue
        if isinstance(cur, Ref) or cur is STALE:
            continue
        ty = ex.local_type(r)
        if ty is None:
            if isinstance(cur, (PyTuple, PyDict)) or cur.ty in (TPy,):
                if r in names:
                    st.env[r] = STALE; continue
                raise SpecError('loop mutates python-side structure %s: '
                                'declare its type in locals' % r)
            ty = cur.ty
        st.env[r] = ex.fresh_wf(st, ty, r.replace('.', '_'))
    for n in sorted(names):
        if n in keep or n in roots and not isinstance(st.env.get(n), Ref):
            if n in roots: continue
        cur = st.env.get(n)
        ty = ex.local_type(n)
        if ty is None and cur is not None and not isinstance(cur, Ref) \
           and cur is not STALE and not isinstance(cur, (PyTuple, PyDict)) \
           and cur.ty not in (TPy, TNone):
            ty = cur.ty
        if ty is None:
            st.env[n] = STALE
            st.bound.pop(n, None)
            continue
        was_unbound = (cur is None) or (n in st.bound)
        st.env[n] = ex.fresh_wf(st, ty, n)
        if was_unbound:
            st.bound[n] = z3.Bool(C.fresh_name('bound_' + n))
        else:
            st.bound.pop(n, None)


def predeclare(ex, st, names):
    '''locals assigned in the loop but not yet bound get an entry with
    bound=False so that entry and havoc states have the same shape'''
    for n in sorted(names):
        if n not in st.env:
            ty = ex.local_type(n)
            if ty is not None:
                st.env[n] = fresh(ty, n)
                st.bound[n] = z3.BoolVal(False)


def check_havoc_complete(ex, head, after, names, roots, ordinal):
    """safety net for the syntactic effect analysis: whatever differs between
    the loop head and the end of the body must have been havocked"""
    from .symexec import Ref, STALE
    allowed = set(names) | set(roots) | {'clock!'}
    for k, v in after.env.items():
        if k in allowed or k.startswith(('tmp!', 'keys_')):
            continue
        h = head.env.get(k)
        if h is v:
            continue
        if isinstance(v, Val) and isinstance(h, Val) and v.term is not None \
           and h.term is not None and v.term.eq(h.term):
            continue
        if h is None and k not in head.env:
            # a fresh local of the body
            if k in ex.assigned_locals or k.startswith('i_'):
                continue
        if isinstance(v, (PyTuple, PyDict)) or v is STALE or isinstance(v, Ref) \
           or not isinstance(v, Val) or not isinstance(h, Val):
            continue
        raise OutsideSubset('loop %s changes %s, which the effect analysis did '
                            'not havoc (engine safety net); havocked: %s'
                            % (ordinal, k, sorted(allowed)))


def invariants(ex, ordinal):
    invs = ex.spec.get('loops', {}).get(ordinal)
    if invs is None:
        ex.notes.append('loop %s has no invariant in the spec (True assumed)'
                        % ordinal)
        return []
    out = []
    for k, i in enumerate(invs):
        if not isinstance(i, tuple):
            i = ('inv%d' % (k + 1), i)
        if len(i) == 2:
            i = (i[0], i[1], None)
        out.append(i)
    return out


def check_invs(ex, st, ordinal, invs, what):
    for name, text, kind in invs:
        try:
            goal = ex.spec_bool(text, st)
        except OutsideSubset as e:
            raise SpecError('loop %s invariant %s: %s' % (ordinal, name, e))
        # an invariant marked 'post' states the property itself at the loop
        # entry (e.g. argument normalisation), not a proof step
        # an invariant marked 'post' states the property itself at the loop
        # entry; one marked 'dsinv' is a data-structure invariant that *is* the
        # property (e.g. token ownership): its preservation is property-level
        k = 'inv-' + what
        if kind == 'dsinv' or (kind and what == 'entry'):
            k = kind
        ex.oblige(st, 'loop%s/%s:%s' % (ordinal, what, name), goal, k, note=text)


def assume_invs(ex, st, ordinal, invs):
    for name, text, kind in invs:
        st.assume(ex.spec_bool(text, st))


# ------------------------------------------------------------------------------
#
def exec_while(ex, node, st):
    ordinal = ex.loop_ord[id(node)]
    invs = invariants(ex, ordinal)
    eff  = analyze(ex, node.body)
    names, roots = havoc_set(ex, st, eff)
    predeclare(ex, st, names)
    outs  = list()
    after = list()

    st.heads['entry:' + ordinal] = dict(st.env)
    check_invs(ex, st, ordinal, invs, 'entry')

    h = st.fork()
    do_havoc(ex, h, names, roots)
    roots |= set(ex.spec.get('volatile', []))
    assume_invs(ex, h, ordinal, invs)
    rely(ex, h.fork(), h)
    h.heads[ordinal] = dict(h.env)
    if not ex.feasible(h):
        ex.notes.append('loop %s: invariant unsatisfiable after havoc' % ordinal)
    exit_when = ex.spec.get('loop_exit', {}).get(ordinal)
    mark = len(ex.exits)
    cond = truthy(ex.ev(node.test, h))
    pend0 = ex.exits[mark:]
    if exit_when and not ex.specmode:
        # loop-exit obligation: if the condition holds at the loop head, the
        # loop is left within this iteration (no path reaches the next one)
        for k, text in enumerate(exit_when):
            e = h.fork()
            e.pc.append(ex.spec_bool(text, e))
            saved, ex.obls = ex.obls, list()
            n_cont = [0]
            try:
                for s, taken in ex.branch(e, cond):
                    if not taken:
                        continue
                    for kind, s2, val in ex.exec_block(node.body, s):
                        if kind in ('next', 'continue'):
                            n_cont[0] += 1
                            saved_o, ex.obls = ex.obls, saved
                            ex.oblige(s2, 'loop%s/exit-when:%d' % (ordinal, k + 1),
                                      z3.BoolVal(False), 'post',
                                      note='the loop must be left within one '
                                           'iteration once: ' + text)
                            saved, ex.obls = ex.obls, saved_o
            finally:
                ex.obls = saved
            if not n_cont[0]:
                ex.oblige(e, 'loop%s/exit-when:%d' % (ordinal, k + 1),
                          z3.BoolVal(True), 'post',
                          note='no path continues the loop once: ' + text)
            del ex.exits[mark:]
            mark = len(ex.exits)
    del ex.exits[mark:]
    for exc, es, line in pend0:
        outs.append(('raise', es, (exc, line)))

    for s, taken in ex.branch(h, cond):
        if taken:
            for kind, s2, val in ex.exec_block(node.body, s):
                if kind in ('next', 'continue'):
                    check_havoc_complete(ex, h, s2, names, roots, ordinal)
                    check_invs(ex, s2, ordinal, invs, 'preserve')
                elif kind == 'break':
                    after.append(s2)
                else:
                    outs.append((kind, s2, val))
        else:
            if node.orelse:
                for kind, s2, val in ex.exec_block(node.orelse, s):
                    if kind == 'next': after.append(s2)
                    else: outs.append((kind, s2, val))
            else:
                after.append(s)
    for s in ex.merge_all(after):
        outs.append(('next', s, None))
    return outs


def exec_for(ex, node, st):
    from .symexec import Ref, STALE
    from .calls import RangeVal, EnumVal, KeysView
    ordinal = ex.loop_ord[id(node)]

    # ---- what is iterated ------------------------------------------------------
    it_node = node.iter
    start   = None
    path    = None
    if isinstance(it_node, ast.Call) and isinstance(it_node.func, ast.Name) \
       and it_node.func.id == 'enumerate':
        inner = it_node.args[0]
        start = z3.IntVal(0)
        if len(it_node.args) > 1:
            start = ex.as_int(st, ex.ev(it_node.args[1], st))
        it_node = inner
    if isinstance(it_node, (ast.Name, ast.Attribute, ast.Subscript)) and \
       not (isinstance(it_node, ast.Subscript) and
            isinstance(it_node.slice, ast.Slice)):
        path = ex.ev_path(it_node, st)
    if path is not None:
        seq = ex.read_path(st, *path)
    else:
        seq = ex.ev(it_node, st)
        if isinstance(seq.ty, TList):
            # an iterable that is not a variable (e.g. sorted(..)) is nameable in
            # invariants as seq_<loop variable>
            st.env['seq_' + _names(node.target)[-1]] = seq

    if isinstance(seq.ty, TOpt):
        ex.fail(st, seq.ty.is_none(seq.term), 'TypeError')
        seq = Val(seq.ty.elem, seq.ty.val(seq.term))
        if path is not None:
            path = (path[0], path[1] + (('o',),))

    # dict iteration
    kv_mode = None
    if isinstance(seq, KeysView):
        kv_mode, mp, mpath = seq.what, seq.m, seq.path
        keys = KeysView(mp, 'keys').as_list(ex, st)
        seq, path = keys, None
        # the (arbitrary, duplicate-free) enumeration order is nameable in
        # invariants as keys_<loop variable>
        st.env['keys_' + _names(node.target)[-1]] = keys
    elif isinstance(seq.ty, TMap):
        kv_mode, mp, mpath = 'keys', seq, path
        seq, path = KeysView(seq, 'keys').as_list(ex, st), None
        st.env['keys_' + _names(node.target)[-1]] = seq
    elif isinstance(seq, PyDict):
        seq = PyTuple([lift(k) for k in seq.items], True)
    elif isinstance(seq.ty, TSet):
        raise OutsideSubset('iteration over a symbolic set')

    # ---- literal sequences: unroll ---------------------------------------------
    if isinstance(seq, PyTuple):
        return unroll(ex, node, st, seq, start)

    if isinstance(seq, RangeVal):
        lo, hi = seq.lo, seq.hi
        n_of = lambda s: z3.If(hi > lo, hi - lo, 0)
        elem = lambda s, i: Val(TInt, lo + i)
        refmode = False
    elif isinstance(seq.ty, TList):
        lty = seq.ty
        mutable = isinstance(lty.elem, (TList, TRec, TMap, TSet)) or \
                  (isinstance(lty.elem, TOpt) and
                   isinstance(lty.elem.elem, (TList, TRec, TMap, TSet)))
        if kv_mode is not None:
            refmode = (kv_mode in ('values', 'items')) and mpath is not None \
                      and isinstance(mp.ty.v, (TList, TRec, TMap, TSet))
            snap = seq
            n_of = lambda s: lty.len(snap.term)

            def elem(s, i, kv_mode=kv_mode):
                k = Val(lty.elem, z3.Select(lty.arr(snap.term), i))
                if kv_mode == 'keys': return k
                if refmode:
                    v = Ref(mpath[0], mpath[1] + (('k', k.term),))
                else:
                    cur = ex.read_path(s, *mpath) if mpath else mp
                    v = Val(cur.ty.v, z3.Select(cur.ty.val(cur.term), k.term))
                if kv_mode == 'values': return v
                return ('pair', k, v)
        elif path is not None and mutable and start is None or \
             (path is not None and mutable):
            refmode = True
            n_of = lambda s: (lambda v: v.ty.len(v.term))(ex.read_path(s, *path))
            elem = lambda s, i: Ref(path[0], path[1] + (('i', i),))
        else:
            refmode = False
            snap = seq
            n_of = lambda s: lty.len(snap.term)
            elem = lambda s, i: Val(lty.elem, z3.Select(lty.arr(snap.term), i))
    else:
        raise OutsideSubset('for over %s (line %s)' % (seq.ty, node.lineno))

    # ---- names -----------------------------------------------------------------
    tnames = _names(node.target)
    gi = 'i_' + tnames[-1]
    invs = invariants(ex, ordinal)
    eff  = analyze(ex, node.body)
    # the loop's own variables alias the container that is iterated
    own = base_root(node.iter)
    if own:
        for t in tnames:
            eff.aliases.setdefault(t, set()).add(own)
    names, roots = havoc_set(ex, st, eff)
    names |= set(tnames) | {gi}
    # the iterated container may have its elements mutated, not its length
    predeclare(ex, st, names - set(tnames) - {gi})

    st.env[gi] = Val(TInt, z3.IntVal(0))
    st.bound.pop(gi, None)
    for t in tnames:
        if t not in st.env:
            # unbound before the loop
            st.env[t] = STALE
    outs, after = list(), list()

    def bind(s, i):
        e = elem(s, i)
        if start is not None:
            idx = Val(TInt, start + i)
            tgt = node.target
            if not isinstance(tgt, (ast.Tuple, ast.List)) or len(tgt.elts) != 2:
                raise OutsideSubset('enumerate target')
            s.env[tgt.elts[0].id] = idx
            s.bound.pop(tgt.elts[0].id, None)
            bind_one(tgt.elts[1], e, s)
        else:
            bind_one(node.target, e, s)

    def bind_one(tgt, e, s):
        if isinstance(e, tuple) and e[0] == 'pair':
            if not isinstance(tgt, (ast.Tuple, ast.List)) or len(tgt.elts) != 2:
                raise OutsideSubset('items() target')
            bind_one(tgt.elts[0], e[1], s)
            bind_one(tgt.elts[1], e[2], s)
            return
        if isinstance(e, Ref):
            if not isinstance(tgt, ast.Name):
                raise OutsideSubset('tuple target over mutable elements')
            s.env[tgt.id] = e
            s.bound.pop(tgt.id, None)
            return
        ex.bind_target(tgt, e, s)

    st.heads['entry:' + ordinal] = dict(st.env)
    check_invs(ex, st, ordinal, invs, 'entry')

    h = st.fork()
    do_havoc(ex, h, names - {gi}, roots)
    i = z3.Int(C.fresh_name(gi))
    h.env[gi] = Val(TInt, i)
    n = n_of(h)
    h.assume(z3.And(0 <= i, i <= n))
    # loop variables at the loop head: value of the previous iteration (if any)
    for t in tnames:
        cur = h.env.get(t)
        if isinstance(cur, Ref) or cur is None:
            h.env[t] = STALE
    if refmode and not (start is not None):
        for t in tnames:
            h.env[t] = STALE
    elif refmode:
        h.env[tnames[-1]] = STALE
    assume_invs(ex, h, ordinal, invs)
    if not ex.feasible(h):
        ex.notes.append('loop %s: invariant unsatisfiable after havoc' % ordinal)
    h.heads[ordinal] = dict(h.env)

    for s, taken in ex.branch(h, i < n):
        if taken:
            mark = len(ex.exits)
            bind(s, i)
            s.heads[ordinal] = dict(s.env)
            pend = ex.exits[mark:]; del ex.exits[mark:]
            for exc, es, line in pend:
                outs.append(('raise', es, (exc, line)))
            for kind, s2, val in ex.exec_block(node.body, s):
                if kind in ('next', 'continue'):
                    check_havoc_complete(ex, h, s2, names | set(tnames) | {gi},
                                         roots, ordinal)
                    s2.env[gi] = Val(TInt, i + 1)
                    if refmode:
                        s2.env[tnames[-1]] = STALE
                    check_invs(ex, s2, ordinal, invs, 'preserve')
                elif kind == 'break':
                    after.append(s2)
                else:
                    outs.append((kind, s2, val))
        else:
            s.assume(i == n)
            if node.orelse:
                for kind, s2, val in ex.exec_block(node.orelse, s):
                    if kind == 'next': after.append(s2)
                    else: outs.append((kind, s2, val))
            else:
                after.append(s)
    for s in ex.merge_all(after):
        outs.append(('next', s, None))
    return outs


def _names(t):
    if isinstance(t, ast.Name): return [t.id]
    out = []
    for e in t.elts: out.extend(_names(e))
    return out


def unroll(ex, node, st, seq, start):
    outs  = list()
    live  = [st]
    after = list()
    for k, item in enumerate(seq.items):
        nxt = list()
        for s in live:
            if start is not None:
                ex.bind_target(node.target,
                               PyTuple([Val(TInt, z3.simplify(start + k)), item]), s)
            else:
                ex.bind_target(node.target, item, s)
            s.heads[ex.loop_ord[id(node)]] = dict(s.env)
            for kind, s2, val in ex.exec_block(node.body, s):
                if kind in ('next', 'continue'):
                    nxt.append(s2)
                elif kind == 'break':
                    after.append(s2)
                else:
                    outs.append((kind, s2, val))
        live = ex.merge_all(nxt)
        if not live:
            break
    for s in live:
        if node.orelse:
            for kind, s2, val in ex.exec_block(node.orelse, s):
                if kind == 'next': after.append(s2)
                else: outs.append((kind, s2, val))
        else:
            after.append(s)
    for s in ex.merge_all(after):
        outs.append(('next', s, None))
    return outs

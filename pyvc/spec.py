"""pyvc.spec -- the sidecar contract registry and the type namespace `T` used by
/verif/specs/*.py."""

import ast

from . import core as C
from .core import SpecError


class _T:
    Int, Real, Bool, Str, Any, NoneT = C.TInt, C.TReal, C.TBool, C.TStr, \
                                        C.TAny, C.TNone
    @staticmethod
    def Opt(t):        return C.OptOf(t)
    @staticmethod
    def List(t):       return C.TList(t)
    @staticmethod
    def Map(k, v):     return C.TMap(k, v)
    @staticmethod
    def DefMap(k, v):  return C.TDefMap(k, v)
    @staticmethod
    def Set(k):        return C.TSet(k)
    @staticmethod
    def Tuple(*ts):    return C.TTuple(ts)
    @staticmethod
    def Union(*ts):    return C.TUnion(ts)
    @staticmethod
    def Rec(name, **fields):
        return C.TRec(name, fields)
    @staticmethod
    def RecD(name, fields):
        return C.TRec(name, fields)


T = _T()


class Registry:

    def __init__(self):
        self.specs   = dict()      # key -> spec dict
        self.lemmas  = dict()      # name -> lemma dict
        self.defs    = dict()      # spec function name -> (params, text)
        self.consts  = dict()      # names usable in spec expressions
        self.effects = dict()      # dotted call pattern -> handler
        self.modfuncs = dict()     # dotted module function -> handler
        self.constructors = dict() # class name -> handler
        self.optional_keys = dict()  # record name -> keys that may be absent
        self.ambiguous_keys = dict() # record name -> keys absent or present-None
        self.rec_classes = dict()  # record name -> python class names
        self.types   = dict()      # name -> Ty (for forall(..., 'Name'))
        self.finite  = list()      # finite (enumerated) obligations
        self.sums    = dict()      # name -> (elemvar, [params], text, result type)

    # -- registration ------------------------------------------------------------
    def spec(reg, key, **kw):
        self = reg
        rel, qual = key.split(':')
        s = dict(kw)
        frag = None
        if '#' in qual:
            # 'Class.method#label' : a fragment of the method (see `fragment=`)
            qual, frag = qual.split('#', 1)
        s['key'], s['file'], s['qualname'] = key, rel, qual
        if frag:
            s.setdefault('short', '%s#%s' % (qual, frag))
        s.setdefault('short', qual)
        s.setdefault('params', {})
        s.setdefault('requires', [])
        s.setdefault('ensures', [])
        s.setdefault('raises', {})
        s.setdefault('modifies', [])
        s.setdefault('serves', [])
        if key in self.specs:
            raise SpecError('duplicate spec %s' % key)
        self.specs[key] = s
        return s

    def lemma(self, name, **kw):
        l = dict(kw)
        l['name'] = name
        self.lemmas[name] = l
        return l

    def finite_check(self, name, fn, serves, what=''):
        """an obligation family over a finite domain that is read from the
        source on every run (literal call sites, signatures, shipped config
        files) and decided by exhaustive enumeration.  fn() -> list of
        dict(name=, ok=, note=)"""
        self.finite_checks = getattr(self, 'finite_checks', dict())
        self.finite_checks[name] = dict(name=name, fn=fn, serves=serves,
                                        what=what)

    def define_sum(self, name, elemvar, params, text, rty):
        self.sums[name] = (elemvar, list(params), text, rty)

    def define(self, sig, text):
        name, rest = sig.split('(')
        params = [p.strip() for p in rest.rstrip(')').split(',') if p.strip()]
        self.defs[name.strip()] = (params, text)

    # -- lookup ------------------------------------------------------------------
    def get(self, key):
        if key not in self.specs:
            raise SpecError('no spec %s' % key)
        return self.specs[key]

    def find_function(self, rel, name):
        return self.specs.get('%s:%s' % (rel, name))

    def find_method(self, cls, name, caller=None):
        if caller is not None:
            tgt = caller.get('calls', {}).get('self.' + name)
            if isinstance(tgt, str):
                return self.get(tgt)
        cands = [s for s in self.specs.values()
                 if s['qualname'] == '%s.%s' % (cls, name)]
        if len(cands) == 1:
            return cands[0]
        if caller is not None and cls is not None:
            # same file first, then unique by method name within bases
            for s in cands:
                if s['file'] == caller['file']:
                    return s
        if not cands and caller is not None:
            bases = caller.get('bases', [])
            for b in bases:
                for s in self.specs.values():
                    if s['qualname'] == '%s.%s' % (b, name):
                        return s
        return cands[0] if cands else None

    def find_method_by_name(self, name):
        cands = [s for s in self.specs.values()
                 if s['qualname'].endswith('.' + name)
                 and s.get('self_type') is not None]
        return cands[0] if len(cands) == 1 else None

    def find_nested(self, caller, name):
        key = '%s.%s' % (caller['key'], name)
        return self.specs.get(key)


REG = Registry()

"""C20, bounded stand-in: the real dispatch functions of raptor Worker
(_dispatch_func / _dispatch_eval / _dispatch_exec / _dispatch_proc /
_dispatch_shell) of the tree selected by VERIF_REPO run request payloads that
return, print, raise or change the environment; each reports return value and
captured output with exit code 0 exactly when the call succeeded, and the
environment variables and output streams are as before afterwards."""
import asyncio
import os
import sys

from .builders import builder, Stub


def _worker(rp):
    from radical.pilot.raptor.worker import Worker
    w = object.__new__(Worker)
    w._log, w._prof = Stub(), Stub()
    w._task_env = dict(os.environ)
    w.my_method = lambda x, y=1: x + y
    def noisy(x):
        print('to-stdout'); sys.stderr.write('to-stderr'); os.environ['LEAK_FUNC'] = '1'
        return x * 2
    def failing():
        os.environ['LEAK_FAIL'] = '1'
        print('before-raise')
        raise ValueError('payload failed')
    w.noisy, w.failing = noisy, failing
    return w


def _call(w, mode, task):
    fn = getattr(w, '_dispatch_' + mode)
    r = fn(task)
    if asyncio.iscoroutine(r):
        r = asyncio.run(r)
    return r


def cases():
    T = lambda d: {'uid': 'req.0001', 'description': d}
    c = []
    for env in ({}, {'DESCR': 'x'}):
        tag = 'with description environment' if env else 'without description environment'
        c.append(('func returns, prints, sets env, %s' % tag, 'func', T({'function': 'noisy', 'args': [21], 'kwargs': {}, 'environment': dict(env)}),
                  dict(ret=0, val=42, out='to-stdout', err='to-stderr')))
        c.append(('func raises, %s' % tag, 'func', T({'function': 'failing', 'args': [], 'kwargs': {}, 'environment': dict(env)}),
                  dict(ret=1, val=None, out='before-raise', exc='ValueError')))
        c.append(('exec returns, prints, sets env, %s' % tag, 'exec',
                  T({'code': 'import os, sys\nos.environ["LEAK_EXEC"] = "1"\nprint("exec-out")\nsys.stderr.write("exec-err")\nreturn 7', 'pre_exec': [], 'environment': dict(env)}),
                  dict(ret=0, val=7, out='exec-out', err='exec-err')))
        c.append(('exec raises after setting env, %s' % tag, 'exec',
                  T({'code': 'import os\nos.environ["LEAK_EXEC2"] = "1"\nraise RuntimeError("boom")', 'pre_exec': [], 'environment': dict(env)}),
                  dict(ret=1, val=None, exc='RuntimeError')))
        c.append(('eval returns, %s' % tag, 'eval', T({'code': '6 * 7', 'environment': dict(env)}), dict(ret=0, val=42)))
        c.append(('eval raises, %s' % tag, 'eval', T({'code': '1 / 0', 'environment': dict(env)}), dict(ret=1, val=None, exc='ZeroDivisionError')))
        c.append(('proc exits 0, %s' % tag, 'proc', T({'executable': '/bin/echo', 'arguments': ['proc out'], 'environment': dict(env)}), dict(ret=0, out='proc out')))
        c.append(('proc exits 3, %s' % tag, 'proc', T({'executable': '/bin/sh', 'arguments': ['-c', 'exit 3'], 'environment': dict(env)}), dict(ret=3)))
        c.append(('shell exits 0, %s' % tag, 'shell', T({'command': 'echo shell-out; echo shell-err 1>&2', 'environment': dict(env)}), dict(ret=0, out='shell-out', err='shell-err')))
        c.append(('shell exits 2, %s' % tag, 'shell', T({'command': 'exit 2', 'environment': dict(env)}), dict(ret=2)))
    return c


def run_all(rp, tier='quick'):
    viol, n = [], 0
    for name, mode, task, want in cases():
        n += 1
        w = _worker(rp)
        env_before = dict(os.environ)
        so, se = sys.stdout, sys.stderr
        try:
            out, err, ret, val, exc = _call(w, mode, task)
        except Exception as e:
            os.environ.clear(); os.environ.update(env_before) if hasattr(os.environ, 'update') else None
            sys.stdout, sys.stderr = so, se
            viol.append(dict(id='%s:raises' % mode, detail='%s: the dispatcher raised %r' % (name, e), input=dict(mode=mode, description=task['description'])))
            continue
        probs = []
        if sys.stdout is not so or sys.stderr is not se:
            probs.append('the output streams are not restored')
            sys.stdout, sys.stderr = so, se
        env_after = dict(os.environ)
        leaked = sorted(k for k in env_after if k not in env_before)
        changed = sorted(k for k in env_before if env_after.get(k) != env_before[k])
        if leaked or changed:
            probs.append('environment not restored: new %s, changed %s' % (leaked, changed))
        # put the process environment back for the next case, whatever happened
        try:
            for k in leaked: os.environ.pop(k, None)
        except Exception: pass
        as_s = lambda x: x.decode() if isinstance(x, bytes) else (x or '')
        if ret != want['ret']: probs.append('exit code %r, expected %r' % (ret, want['ret']))
        if 'val' in want and val != want['val']: probs.append('return value %r, expected %r' % (val, want['val']))
        if 'out' in want and want['out'] not in as_s(out): probs.append('captured stdout %r lacks %r' % (as_s(out)[:60], want['out']))
        if 'err' in want and want['err'] not in as_s(err): probs.append('captured stderr %r lacks %r' % (as_s(err)[:60], want['err']))
        if 'exc' in want and not (exc and exc[0] and want['exc'] in str(exc[0])): probs.append('exception record %r lacks %s' % (exc, want['exc']))
        if want['ret'] == 0 and exc and exc[0]: probs.append('success reported with an exception record %r' % (exc,))
        if probs:
            viol.append(dict(id='%s:%s' % (mode, name.split(',')[0].replace(' ', '-')), detail='%s: %s' % (name, '; '.join(probs[:3])),
                             input=dict(mode=mode, description={k: v for k, v in task['description'].items()})))
    # the Python-level mapping must be usable afterwards
    return dict(cases=n, violations=viol[:8],
                bound='%d requests: func / exec / eval / proc / shell x returns / raises / prints / changes the environment x with and without a description environment' % n)


@builder('raptor/worker.py:Worker._dispatch_exec', 'raptor/worker.py:Worker._dispatch_func', 'raptor/worker.py:Worker._dispatch_eval')
def worker_replay(case, rp):
    r = run_all(rp)
    for v in r['violations']:
        return dict(confirmed=True, detail=v['detail'], input=v['input'], found_by='bounded native worker dispatch')
    return dict(confirmed=False, detail='%d worker requests behave' % r['cases'])

"""C20, bounded stand-in: the real dispatch functions of raptor Worker
(_dispatch_func / _dispatch_eval / _dispatch_exec / _dispatch_proc /
_dispatch_shell) of the tree selected by VERIF_REPO run request payloads that
return, print, raise or change the environment; each reports return value and
captured output with exit code 0 exactly when the call succeeded, and the
environment variables and output streams are as before afterwards."""
import asyncio
import os
import sys

from .builders import builder, Stub


def _worker(rp):
    from radical.pilot.raptor.worker import Worker
    w = object.__new__(Worker)
    w._log, w._prof = Stub(), Stub()
    w._task_env = dict(os.environ)
    w.my_method = lambda x, y=1: x + y
    def noisy(x):
        print('to-stdout'); sys.stderr.write('to-stderr'); os.environ['LEAK_FUNC'] = '1'
        return x * 2
    def failing():
        os.environ['LEAK_FAIL'] = '1'
        print('before-raise')
        raise ValueError('payload failed')
    w.noisy, w.failing = noisy, failing
    return w


def _call(w, mode, task):
    fn = getattr(w, '_dispatch_' + mode)
    r = fn(task)
    if asyncio.iscoroutine(r):
        r = asyncio.run(r)
    return r


def cases():
    T = lambda d: {'uid': 'req.0001', 'description': d}
    c = []
    for env in ({}, {'DESCR': 'x'}):
        tag = 'with description environment' if env else 'without description environment'
        c.append(('func returns, prints, sets env, %s' % tag, 'func', T({'function': 'noisy', 'args': [21], 'kwargs': {}, 'environment': dict(env)}),
                  dict(ret=0, val=42, out='to-stdout', err='to-stderr')))
        c.append(('func raises, %s' % tag, 'func', T({'function': 'failing', 'args': [], 'kwargs': {}, 'environment': dict(env)}),
                  dict(ret=1, val=None, out='before-raise', exc='ValueError')))
        c.append(('exec returns, prints, sets env, %s' % tag, 'exec',
                  T({'code': 'import os, sys\nos.environ["LEAK_EXEC"] = "1"\nprint("exec-out")\nsys.stderr.write("exec-err")\nreturn 7', 'pre_exec': [], 'environment': dict(env)}),
                  dict(ret=0, val=7, out='exec-out', err='exec-err')))
        c.append(('exec raises after setting env, %s' % tag, 'exec',
                  T({'code': 'import os\nos.environ["LEAK_EXEC2"] = "1"\nraise RuntimeError("boom")', 'pre_exec': [], 'environment': dict(env)}),
                  dict(ret=1, val=None, exc='RuntimeError')))
        c.append(('eval returns, %s' % tag, 'eval', T({'code': '6 * 7', 'environment': dict(env)}), dict(ret=0, val=42)))
        c.append(('eval raises, %s' % tag, 'eval', T({'code': '1 / 0', 'environment': dict(env)}), dict(ret=1, val=None, exc='ZeroDivisionError')))
        c.append(('proc exits 0, %s' % tag, 'proc', T({'executable': '/bin/echo', 'arguments': ['proc out'], 'environment': dict(env)}), dict(ret=0, out='proc out')))
        c.append(('proc exits 3, %s' % tag, 'proc', T({'executable': '/bin/sh', 'arguments': ['-c', 'exit 3'], 'environment': dict(env)}), dict(ret=3)))
        c.append(('shell exits 0, %s' % tag, 'shell', T({'command': 'echo shell-out; echo shell-err 1>&2', 'environment': dict(env)}), dict(ret=0, out='shell-out', err='shell-err')))
        c.append(('shell exits 2, %s' % tag, 'shell', T({'command': 'exit 2', 'environment': dict(env)}), dict(ret=2)))
    return c


def run_all(rp, tier='quick'):
    viol, n = [], 0
    for name, mode, task, want in cases():
        n += 1
        w = _worker(rp)
        env_before = dict(os.environ)
        so, se = sys.stdout, sys.stderr
        try:
            out, err, ret, val, exc = _call(w, mode, task)
        except Exception as e:
            os.environ.clear(); os.environ.update(env_before) if hasattr(os.environ, 'update') else None
            sys.stdout, sys.stderr = so, se
            viol.append(dict(id='%s:raises' % mode, detail='%s: the dispatcher raised %r' % (name, e), input=dict(mode=mode, description=task['description'])))
            continue
        probs = []
        if sys.stdout is not so or sys.stderr is not se:
            probs.append('the output streams are not restored')
            sys.stdout, sys.stderr = so, se
        env_after = dict(os.environ)
        leaked = sorted(k for k in env_after if k not in env_before)
        changed = sorted(k for k in env_before if env_after.get(k) != env_before[k])
        if leaked or changed:
            probs.append('environment not restored: new %s, changed %s' % (leaked, changed))
        # put the process environment back for the next case, whatever happened
        try:
            for k in leaked: os.environ.pop(k, None)
        except Exception: pass
        as_s = lambda x: x.decode() if isinstance(x, bytes) else (x or '')
        if ret != want['ret']: probs.append('exit code %r, expected %r' % (ret, want['ret']))
        if 'val' in want and val != want['val']: probs.append('return value %r, expected %r' % (val, want['val']))
        if 'out' in want and want['out'] not in as_s(out): probs.append('captured stdout %r lacks %r' % (as_s(out)[:60], want['out']))
        if 'err' in want and want['err'] not in as_s(err): probs.append('captured stderr %r lacks %r' % (as_s(err)[:60], want['err']))
        if 'exc' in want and not (exc and exc[0] and want['exc'] in str(exc[0])): probs.append('exception record %r lacks %s' % (exc, want['exc']))
        if want['ret'] == 0 and exc and exc[0]: probs.append('success reported with an exception record %r' % (exc,))
        if probs:
            viol.append(dict(id='%s:%s' % (mode, name.split(',')[0].replace(' ', '-')), detail='%s: %s' % (name, '; '.join(probs[:3])),
                             input=dict(mode=mode, description={k: v for k, v in task['description'].items()})))
    # the Python-level mapping must be usable afterwards
    return dict(cases=n, violations=viol[:8],
                bound='%d requests: func / exec / eval / proc / shell x returns / raises / prints / changes the environment x with and without a description environment' % n)


@builder('raptor/worker.py:Worker._dispatch_exec', 'raptor/worker.py:Worker._dispatch_func', 'raptor/worker.py:Worker._dispatch_eval')
def worker_replay(case, rp):
    r = run_all(rp)
    for v in r['violations']:
        return dict(confirmed=True, detail=v['detail'], input=v['input'], found_by='bounded native worker dispatch')
    return dict(confirmed=False, detail='%d worker requests behave' % r['cases'])


# ------------------------------------------------------------------------------
# request accounting of DefaultWorker: histories of requests, completions and
# failing process starts on the real _request_cb / _result_cb / _alloc / _dealloc
#
import random
import threading


class _FakeProc:
    """stands for mp.Process in raptor.worker_default: start() registers the
    request as running, or raises when the scenario says so"""
    fail_ctor = fail_start = False
    running = None
    next_pid = 1000

    def __init__(self, target=None, args=()):
        if _FakeProc.fail_ctor: raise OSError('cannot create process')
        self.task = args[0]
        _FakeProc.next_pid += 1
        self.pid = _FakeProc.next_pid

    def start(self):
        if _FakeProc.fail_start: raise OSError('cannot fork')
        self.task['pid'] = self.pid           # what _dispatch does in the child
        _FakeProc.running.append(self.task)


def _dworker(rp, n_cores, n_gpus):
    from radical.pilot.raptor.worker_default import DefaultWorker
    w = object.__new__(DefaultWorker)
    w._log, w._prof = Stub(), Stub()
    w._uid = 'worker.0000'
    w._n_cores, w._n_gpus = n_cores, n_gpus
    w._rlock, w._plock = threading.Lock(), threading.Lock()
    w._resources = {'cores': [0] * n_cores, 'gpus': [0] * n_gpus}
    w._res_evt = Stub()
    w._pool = dict()
    w._task_env = dict()
    w.answers = []
    w._res_put = Stub()
    w._res_put.put = lambda t: w.answers.append(t)
    return w


def run_history(rp, ops, n_cores=4, n_gpus=2):
    """ops: ('req', cores, gpus, failure) | ('done', k): the k-th running request
    returns its result.  -> list of problems"""
    import radical.pilot.raptor.worker_default as wd
    saved = wd.mp.Process
    saved_sleep = wd.time.sleep
    w = _dworker(rp, n_cores, n_gpus)
    _FakeProc.running = []
    probs, n_req, started, answered = [], 0, [], []
    # a request that does not fit waits in `while not self._alloc(task)`: here the
    # waiting is cut by finishing the oldest running request during the sleep
    def sleep(dt):
        if not _FakeProc.running:
            raise RuntimeError('request waits for resources although nothing is running')
        t = _FakeProc.running.pop(0)
        w._result_cb([t, 'o', 'e', 0, None, [None, None]])
    class P(_FakeProc): pass
    wd.mp.Process = _FakeProc
    wd.time.sleep = sleep
    try:
        for op in ops:
            if op[0] == 'req':
                n_req += 1
                t = {'uid': 'req.%04d' % n_req, 'cores': op[1], 'gpus': op[2]}
                _FakeProc.fail_ctor, _FakeProc.fail_start = (op[3] == 'ctor'), (op[3] == 'start')
                n_ans = len(w.answers)
                try:
                    w._request_cb([t])
                except Exception as e:
                    probs.append('%s: _request_cb raised %r' % (t['uid'], e)); break
                finally:
                    _FakeProc.fail_ctor = _FakeProc.fail_start = False
                is_run = any(r is t for r in _FakeProc.running)
                is_ans = any(a is t for a in w.answers[n_ans:])
                if is_run == is_ans:
                    probs.append('%s (%s): %s' % (t['uid'], op[3] or 'starts', 'both started and answered' if is_run else 'neither started nor answered'))
                if is_ans and not t.get('exception'):
                    probs.append('%s: answered without a process but carries no exception' % t['uid'])
            elif op[0] == 'done' and _FakeProc.running:
                t = _FakeProc.running.pop(op[1] % len(_FakeProc.running))
                try:
                    w._result_cb([t, 'out', 'err', op[1] % 2, 'val', [None, None]])
                except Exception as e:
                    probs.append('%s: _result_cb raised %r' % (t['uid'], e)); break
                if t.get('exit_code') != op[1] % 2 or t.get('stdout') != 'out':
                    probs.append('%s: the answer does not carry what the call produced' % t['uid'])
            for r in _FakeProc.running:
                if not r.get('slots'):
                    probs.append('%s was started without a grant (no slots)' % r['uid'])
            if probs: break
            # invariant: the cells marked busy are exactly the cells of running requests, no cell twice
            for kind, n in (('cores', n_cores), ('gpus', n_gpus)):
                held = [c for r in _FakeProc.running for c in r['slots'][0][kind]]
                if len(held) != len(set(held)):
                    probs.append('after %s: a %s cell is held by two running requests: %s' % (op, kind[:-1], sorted(held)))
                marked = [i for i, v in enumerate(w._resources[kind]) if v]
                if sorted(held) != marked:
                    probs.append('after %s: %s marked busy %s, held by running requests %s' % (op, kind, marked, sorted(held)))
            for r in _FakeProc.running:
                if len(r['slots'][0]['cores']) != r['cores'] or len(r['slots'][0]['gpus']) != r['gpus']:
                    probs.append('%s runs on %s, asked for %d cores %d gpus' % (r['uid'], r['slots'], r['cores'], r['gpus']))
            if probs: break
        uids = [a['uid'] for a in w.answers]
        if len(uids) != len(set(uids)):
            probs.append('a request was answered twice: %s' % uids)
    finally:
        wd.mp.Process = saved
        wd.time.sleep = saved_sleep
    return probs


def histories(seed, n):
    rnd = random.Random(seed)
    for k in range(n):
        ops = []
        for _ in range(rnd.randint(3, 14)):
            if rnd.random() < 0.65:
                ops.append(('req', rnd.randint(1, 4), rnd.choice([0, 0, 1, 2]), rnd.choice([None, None, None, 'ctor', 'start'])))
            else:
                ops.append(('done', rnd.randint(0, 5)))
        yield k, ops


DIRECTED = [
    ('start fails after the grant', [('req', 2, 1, 'start'), ('req', 4, 2, None)]),
    ('process object cannot be created', [('req', 4, 2, 'ctor'), ('req', 4, 2, None)]),
    ('request waits until a running one returns', [('req', 3, 0, None), ('req', 3, 0, None), ('done', 0)]),
    ('full worker, then all return', [('req', 2, 1, None), ('req', 2, 1, None), ('done', 1), ('done', 0), ('req', 4, 2, None)]),
]


def run_accounting(rp, tier='quick', seed=0):
    viol, n = [], 0
    for name, ops in DIRECTED:
        n += 1
        p = run_history(rp, ops)
        if p: viol.append(dict(id='directed:' + name.replace(' ', '-'), detail='%s: %s' % (name, '; '.join(p[:3])), input=dict(history=ops)))
    n_hist = 400 if tier == 'quick' else 4000
    for k, ops in histories(20260926 + seed, n_hist):
        p = run_history(rp, ops)
        if p:
            viol.append(dict(id='random-%04d' % k, detail='; '.join(p[:3]), input=dict(history=ops)))
            if len(viol) > 5: break
    return dict(cases=n + n_hist, violations=viol,
                bound='%d directed + %d random histories (<= 14 operations) on a worker of 4 cores and 2 GPUs: requests of 1..4 cores and 0..2 GPUs, '
                      'process creation / start failures, completions in any order; real _request_cb / _result_cb / _alloc / _dealloc, mp.Process replaced' % (n, n_hist))


@builder('raptor/worker_default.py:DefaultWorker._request_cb', 'raptor/worker_default.py:DefaultWorker._request_cb#one',
         'raptor/worker_default.py:DefaultWorker._result_cb')
def worker_accounting_replay(case, rp):
    r = run_accounting(rp)
    for v in r['violations']:
        return dict(confirmed=True, detail=v['detail'], input=v['input'], found_by='bounded native worker histories')
    return dict(confirmed=False, detail='%d worker histories keep the accounting natively' % r['cases'])

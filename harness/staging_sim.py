"""C11, bounded stand-in and native replay: the real staging code of the tree
selected by VERIF_REPO (expand_description, tmgr staging_input Default._handle_task,
agent staging_input Default.work / _handle_task_staging, agent staging_output
Default.work, tmgr staging_output Default.work) is run on a file tree in a
temporary directory, with the local staging backend; afterwards the files the
directives name must exist where their URLs say, with the source's content.
"""
import os
import shutil
import tempfile
import threading

from .builders import builder, Stub

ACTIONS = ('Transfer', 'Copy', 'Link', 'Move', 'Tarball')


class World:
    def __init__(self, rp):
        self.rp = rp
        self.root = tempfile.mkdtemp(prefix='verif_staging_')
        self.dirs = {}
        for name, rel in (('client', 'client'), ('endpoint', 'remote'), ('resource', 'remote/sandbox'),
                          ('session', 'remote/sandbox/session.0000'), ('pilot', 'remote/sandbox/session.0000/pilot.0000'),
                          ('task', 'remote/sandbox/session.0000/pilot.0000/task.000000')):
            d = os.path.join(self.root, rel)
            os.makedirs(d, exist_ok=True)
            self.dirs[name] = d
        self.cwd = os.getcwd()
        os.chdir(self.dirs['client'])

    def close(self):
        os.chdir(self.cwd)
        shutil.rmtree(self.root, ignore_errors=True)

    def write(self, where, rel, text):
        p = os.path.join(self.dirs[where], rel)
        os.makedirs(os.path.dirname(p), exist_ok=True)
        open(p, 'w').write(text)
        return p

    def read(self, where, rel):
        p = os.path.join(self.dirs[where], rel)
        if not os.path.exists(p): return None
        if os.path.isdir(p): return '<dir>'
        return open(p).read()

    def task(self, input_staging=(), output_staging=(), stage_on_error=False):
        import radical.pilot as rp
        td = {'executable': '/bin/true', 'input_staging': list(input_staging), 'output_staging': list(output_staging),
              'stage_on_error': stage_on_error}
        from radical.pilot.staging_directives import expand_description
        expand_description(td)
        u = lambda k: 'file://localhost' + self.dirs[k]
        return {'uid': 'task.000000', 'description': td, 'state': 'TMGR_STAGING_INPUT',
                'client_sandbox': u('client'), 'endpoint_fs': u('endpoint'), 'resource_sandbox': u('resource'),
                'session_sandbox': u('session'), 'pilot_sandbox': u('pilot'), 'task_sandbox': u('task'),
                'task_sandbox_path': self.dirs['task'], 'pilot': 'pilot.0000', 'stdout': '', 'stderr': ''}


def _component(cls, rp):
    import radical.pilot.utils as rpu
    c = object.__new__(cls)
    c._log, c._prof = Stub(), Stub()
    c._stager = rpu.StagingHelper(c._log)
    # the sandbox has no SAGA endpoints: the local backend, as a pilot on localhost uses
    from radical.pilot.utils.staging_helper import StagingHelper_Local
    c._stager._backend = StagingHelper_Local(c._log)
    c.adv = []
    def advance(things, state=None, **kw):
        for t in (things if isinstance(things, list) else [things]):
            if state: t['state'] = state
            c.adv.append((t['uid'], t.get('state')))
    c.advance = advance
    c._advance_tasks = lambda tasks, pid=None, state=None, push=True: advance(tasks, state or 'AGENT_STAGING_INPUT_PENDING')
    c._uid = 'stager.0000'
    return c


def stage_in(w, task):
    """client side then agent side, as the components do for one task"""
    rp = w.rp
    import radical.pilot.constants as rpc
    from radical.pilot.tmgr.staging_input.default import Default as TIn
    from radical.pilot.agent.staging_input.default import Default as AIn
    tin = _component(TIn, rp)
    acts = [sd for sd in task['description']['input_staging'] if sd['action'] in (rpc.TRANSFER, rpc.TARBALL)]
    if acts:
        tin._handle_task(task, acts)
    ain = _component(AIn, rp)
    ain.work([task])
    return ain.adv


def stage_out(w, task):
    from radical.pilot.agent.staging_output.default import Default as AOut
    from radical.pilot.tmgr.staging_output.default import Default as TOut
    aout = _component(AOut, w.rp)
    aout._handle_task_stdio = lambda t: None
    aout.work([task])
    tout = _component(TOut, w.rp)
    if task.get('state') != 'FAILED' or True:
        tout.work([task])
    return aout.adv + tout.adv


def _sd(form, action, src, tgt):
    import radical.pilot.constants as rpc
    act = getattr(rpc, action.upper())
    if form == 'dict':
        d = {'source': src, 'action': act}
        if tgt is not None: d['target'] = tgt
        return d
    return None


def input_cases():
    """(name, directive, where the source is put, (where, rel) the target must be)"""
    out = []
    for action in ACTIONS:
        on_client = action in ('Transfer', 'Tarball')
        swhere = 'client' if on_client else 'pilot'
        sprefix = 'client:///' if on_client else 'pilot:///'
        for tname, tgt, want in (('explicit task:///', 'task:///in/data.%s' % action, ('task', 'in/data.%s' % action)),
                                 ('default target', None, ('task', 'src.%s' % action)),
                                 ('relative target', 'sub/d.%s' % action, ('task', 'sub/d.%s' % action)),
                                 ('pilot sandbox', 'pilot:///shared/d.%s' % action, ('pilot', 'shared/d.%s' % action))):
            if action in ('Copy', 'Link', 'Move') and want[0] == 'pilot' and False: continue
            out.append(('%s, %s, dict form' % (action, tname), ('dict', action, sprefix + 'src.%s' % action, tgt),
                        (swhere, 'src.%s' % action), want))
    # the string short forms (TRANSFER): > >> < <<
    for op, flip in (('>', False), ('>>', False), ('<', True), ('<<', True)):
        s, t = 'src.short', 'renamed.%d' % len(out)
        text = ('%s %s %s' % (t, op, s)) if flip else ('%s %s %s' % (s, op, t))
        out.append(('short form "%s"' % op, ('str', 'Transfer', text, None), ('client', s), ('task', t)))
    out.append(('dict form without action (default)', ('dict-noaction', 'Transfer', 'client:///src.noact', 'task:///got.noact'),
                ('client', 'src.noact'), ('task', 'got.noact')))
    out.append(('short form, bare name', ('str', 'Transfer', 'src.short', None), ('client', 'src.short'), ('task', 'src.short')))
    out.append(('short form, path', ('str', 'Transfer', 'data/deep/src.short', None), ('client', 'data/deep/src.short'), ('task', 'src.short')))
    return out


def run_input_case(rp, case):
    name, (form, action, src, tgt), (swhere, srel), (twhere, trel) = case
    w = World(rp)
    try:
        content = 'content of %s' % name
        w.write(swhere, srel, content)
        sd = _sd(form, action, src, tgt) if form == 'dict' else ({'source': src, 'target': tgt} if form == 'dict-noaction' else src)
        try:
            task = w.task(input_staging=[sd])
            adv = stage_in(w, task)
        except Exception as e:
            return '%s: staging raised %r' % (name, e)
        if task.get('state') == 'FAILED' or any(s == 'FAILED' for u, s in adv):
            return '%s: the task was failed by input staging (%s)' % (name, task.get('exception'))
        got = w.read(twhere, trel)
        if got != content:
            return '%s: after input staging %s:///%s %s (directive %r)' % (
                name, twhere, trel, 'does not exist' if got is None else 'has other content', sd)
        return None
    finally:
        w.close()


def output_cases():
    out = []
    for action, twhere, tgt in (('Transfer', 'client', 'client:///out/res.t'), ('Transfer', 'client', None),
                                ('Copy', 'pilot', 'pilot:///keep/res.c'), ('Link', 'pilot', 'pilot:///keep/res.l'),
                                ('Move', 'pilot', 'pilot:///keep/res.m')):
        for outcome in ('DONE', 'FAILED', 'FAILED+stage_on_error'):
            rel = tgt.split(':///')[1] if tgt else 'result.dat'
            out.append(('%s output, task %s%s' % (action, outcome, '' if tgt else ', default target'), action, tgt, (twhere, rel), outcome))
    return out


def run_output_case(rp, case):
    name, action, tgt, (twhere, trel), outcome = case
    w = World(rp)
    try:
        content = 'output of %s' % name
        w.write('task', 'result.dat', content)
        sd = _sd('dict', action, 'task:///result.dat', tgt)
        task = w.task(output_staging=[sd], stage_on_error=outcome.endswith('stage_on_error'))
        task['target_state'] = 'DONE' if outcome == 'DONE' else 'FAILED'
        task['state'] = 'AGENT_STAGING_OUTPUT'
        try:
            stage_out(w, task)
        except Exception as e:
            return '%s: staging raised %r' % (name, e)
        got = w.read(twhere, trel)
        want_staged = outcome != 'FAILED'
        if want_staged and got != content:
            return '%s: after output staging %s:///%s %s' % (name, twhere, trel, 'does not exist' if got is None else 'has other content')
        if not want_staged and got is not None:
            return '%s: the task failed and staging on error was not requested, but %s:///%s was staged' % (name, twhere, trel)
        if task.get('state') != task['target_state']:
            return '%s: the agent determined the outcome %s, after output staging the task ends %s' % (name, task['target_state'], task.get('state'))
        return None
    finally:
        w.close()


def isolation_case(rp):
    """a directive that cannot be carried out fails that task only"""
    w = World(rp)
    try:
        w.write('client', 'there.dat', 'x')
        from radical.pilot.tmgr.staging_input.default import Default as TIn
        import radical.pilot.constants as rpc
        good = w.task(input_staging=['there.dat']); good['uid'] = 'task.000001'
        bad  = w.task(input_staging=['missing.dat'])
        tin = _component(TIn, rp)
        res = {}
        for t in (bad, good):
            try:
                tin._handle_task(t, [sd for sd in t['description']['input_staging'] if sd['action'] == rpc.TRANSFER])
                res[t['uid']] = 'ok'
            except Exception as e:
                res[t['uid']] = 'failed'
        if res['task.000001'] != 'ok':
            return 'a missing source of task.000000 failed task.000001 as well: %s' % res
        return None
    finally:
        w.close()


def bulk_output_case(rp):
    """the agent output stager on a bulk of three tasks with different directives: every
    task gets exactly its own outputs staged, nothing of its neighbours"""
    import radical.pilot.constants as rpc
    from radical.pilot.agent.staging_output.default import Default as AOut
    w = World(rp)
    try:
        tasks = []
        for i, sds in enumerate(([('Copy', 'a.dat', 'pilot:///keep/a.copy')], [],
                                 [('Link', 'c.dat', 'pilot:///keep/c.link'), ('Move', 'c2.dat', 'pilot:///keep/c2.moved')])):
            tb = os.path.join(w.dirs['pilot'], 'task.%06d' % i)
            os.makedirs(tb, exist_ok=True)
            for act, src, tgt in sds:
                open(os.path.join(tb, src), 'w').write('content of %s' % src)
            t = w.task(output_staging=[_sd('dict', act, 'task:///' + src, tgt) for act, src, tgt in sds])
            t['uid'] = 'task.%06d' % i
            t['task_sandbox'] = 'file://localhost' + tb
            t['task_sandbox_path'] = tb
            t['target_state'] = 'DONE'
            t['state'] = 'AGENT_STAGING_OUTPUT'
            tasks.append(t)
        aout = _component(AOut, rp)
        aout._handle_task_stdio = lambda t: None
        try:
            aout.work(tasks)
        except Exception as e:
            return 'agent output staging of a bulk raised %r' % e
        failed = [u for u, st in aout.adv if st == 'FAILED']
        if failed:
            return 'a bulk of three tasks with valid directives: %s failed in agent output staging (%s)' % (
                failed, [t.get('exception') for t in tasks if t['uid'] in failed])
        for rel, want in (('keep/a.copy', 'content of a.dat'), ('keep/c.link', 'content of c.dat'), ('keep/c2.moved', 'content of c2.dat')):
            got = w.read('pilot', rel)
            if got != want:
                return 'after agent output staging of a bulk pilot:///%s %s' % (rel, 'does not exist' if got is None else 'has other content: %r' % got)
        return None
    finally:
        w.close()


def url_context_case(rp):
    """pilot-level staging hands complete_url a context whose entries are Url objects
    (Session._get_*_sandbox): resolving one directive must not influence the next"""
    import radical.utils as ru
    from radical.pilot.staging_directives import complete_url
    for as_url in (False, True):
        mk = (lambda x: ru.Url(x)) if as_url else (lambda x: x)
        ctx = {k: mk('file://localhost/base/%s' % k) for k in ('pwd', 'client', 'pilot', 'session', 'resource', 'endpoint', 'task')}
        before = {k: str(v) for k, v in ctx.items()}
        for path in ('pilot:///a.dat', 'pilot:///b.dat', 'session:///s/x', 'rel.dat', 'client:///c.dat', 'resource:///r.dat', 'pilot:///a.dat'):
            got = str(complete_url(path, ctx))
            schema, rel = (path.split(':///', 1) + [None])[:2] if ':///' in path else ('pwd', path)
            want = 'file://localhost/base/%s/%s' % (schema, rel)
            if got.replace('//%s' % rel, '/%s' % rel) != want:
                return 'complete_url(%r) with %s context entries gives %s, expected %s (earlier directives were resolved with the same context)' % (
                    path, 'Url' if as_url else 'string', got, want)
            after = {k: str(v) for k, v in ctx.items()}
            if after != before:
                ch = sorted(k for k in before if before[k] != after[k])
                return 'complete_url(%r) changed the context entries %s: %s' % (path, ch, [after[k] for k in ch])
    return None


def run_all(rp, tier='quick'):
    viol, n = [], 0
    n += 1
    p = url_context_case(rp)
    if p: viol.append(dict(id='url-context', detail=p, input={}))
    n += 1
    p = bulk_output_case(rp)
    if p: viol.append(dict(id='bulk-output', detail=p, input={}))
    for case in input_cases():
        n += 1
        p = run_input_case(rp, case)
        if p: viol.append(dict(id='in:' + case[0].replace(' ', '-').replace(',', '').replace('"', ''), detail=p, input=dict(directive=case[1])))
    for case in output_cases():
        n += 1
        p = run_output_case(rp, case)
        if p: viol.append(dict(id='out:' + case[0].replace(' ', '-').replace(',', ''), detail=p, input=dict(action=case[1], target=case[2], outcome=case[4])))
    n += 1
    p = isolation_case(rp)
    if p: viol.append(dict(id='isolation', detail=p, input={}))
    return dict(cases=n, violations=viol,
                bound='%d scenarios: 5 actions x 4 target forms (dict form) + 6 string short forms on the input side, '
                      '5 action/target forms x 3 task outcomes on the output side, one failure-isolation scenario, one sequence of directives resolved against one context (string and Url entries); '
                      'local staging backend on a temporary file tree (no remote endpoint)' % n)


KEYS = ['staging_directives.py:expand_staging_directives', 'staging_directives.py:complete_url',
        'agent/staging_input/default.py:Default._handle_task_staging#dispatch', 'tmgr/staging_output/default.py:Default.work#triage',
        'tmgr/staging_output/default.py:Default._handle_task#final', 'tmgr/staging_output/default.py:Default.work#pass-on',
        'tmgr/staging_output/default.py:Default.work#staged', 'agent/staging_output/default.py:Default.work#triage']


@builder(*KEYS)
def staging_replay(case, rp):
    import json, fnmatch
    kf = json.load(open(os.path.join(os.path.dirname(os.path.dirname(os.path.abspath(__file__))), 'known_findings.json')))
    skip = [f.get('case', '') for f in kf.get('findings', []) if f.get('status') != 'fixed' and f.get('bounded') == 'staging-e2e']
    r = run_all(rp)
    for v in r['violations']:
        if any(fnmatch.fnmatch(v['id'], s) for s in skip): continue
        return dict(confirmed=True, detail=v['detail'], input=v['input'], found_by='bounded native staging scenarios')
    return dict(confirmed=False, detail='%d staging scenarios hold natively' % r['cases'])

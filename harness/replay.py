"""native replay of a verifier counterexample on the real code ($VERIF_REPO/src).

usage: /venv/bin/python harness/replay.py <replay.json>
prints one JSON line: {"confirmed": true|false|null, "detail": ...}
"""
import json
import os
import sys
import traceback

sys.path.insert(0, os.path.dirname(os.path.dirname(os.path.abspath(__file__))))


def main():
    case = json.load(open(sys.argv[1]))
    try:
        from harness.rp_boot import boot
        rp = boot()
        from harness import builders
        from harness import sched_sim                  # noqa: registers builders
        from harness import bf_sim                     # noqa
        from harness import lm_sim                     # noqa
        from harness import staging_sim                # noqa
        from harness import script_sim                 # noqa
        from harness import wait_sim                   # noqa
        from harness import slot_sim                   # noqa
        from harness import pilot_sim                  # noqa
        from harness import nodefile_sim               # noqa
        from harness import worker_sim                 # noqa
        from harness import app_sim                    # noqa
        if 'bounded_check' in case and 'function' not in case:
            # a violation found by a bounded stand-in: run that stand-in again on the real
            # code (both tiers' samples) and look for the same case
            from harness import run_bounded
            want = (case.get('case') or {}).get('id')
            hit = None
            for tier in ('quick', 'thorough'):
                r = run_bounded.CHECKS[case['bounded_check']](rp, int(os.environ.get('VERIF_SEED', '0') or 0), tier)
                hit = next((v for v in r['violations'] if v['id'] == want), None) or \
                      next((v for v in r['violations'] if v['id'].split(':')[-1] == str(want).split(':')[-1]), None)
                if hit: break
            out = dict(confirmed=bool(hit), detail=(hit or {}).get('detail') or 'the bounded check %s does not show case %s' % (case['bounded_check'], want),
                       input=(hit or {}).get('input'))
            print(json.dumps(out, default=str))
            return
        fn = builders.BUILDERS.get(case['function'])
        if fn is None:
            out = dict(confirmed=None,
                       detail='no native builder for %s' % case['function'])
        else:
            out = fn(case, rp)
    except Exception as e:
        out = dict(confirmed=None, detail='replay crashed: %r' % e,
                   traceback=traceback.format_exc()[-1500:])
    print(json.dumps(out, default=str))


if __name__ == '__main__':
    main()

"""native replay of a verifier counterexample on the real code ($VERIF_REPO/src).

usage: /venv/bin/python harness/replay.py <replay.json>
prints one JSON line: {"confirmed": true|false|null, "detail": ...}
"""
import json
import os
import sys
import traceback

sys.path.insert(0, os.path.dirname(os.path.dirname(os.path.abspath(__file__))))


def main():
    case = json.load(open(sys.argv[1]))
    try:
        from harness.rp_boot import boot
        rp = boot()
        from harness import builders
        from harness import sched_sim                  # noqa: registers builders
        from harness import bf_sim                     # noqa
        from harness import lm_sim                     # noqa
        from harness import staging_sim                # noqa
        from harness import script_sim                 # noqa
        from harness import wait_sim                   # noqa
        from harness import slot_sim                   # noqa
        from harness import pilot_sim                  # noqa
        from harness import nodefile_sim               # noqa
        from harness import worker_sim                 # noqa
        from harness import app_sim                    # noqa
        fn = builders.BUILDERS.get(case['function'])
        if fn is None:
            out = dict(confirmed=None,
                       detail='no native builder for %s' % case['function'])
        else:
            out = fn(case, rp)
    except Exception as e:
        out = dict(confirmed=None, detail='replay crashed: %r' % e,
                   traceback=traceback.format_exc()[-1500:])
    print(json.dumps(out, default=str))


if __name__ == '__main__':
    main()

"""C19, bounded stand-in: convert_slots_to_new / convert_slots_to_old of the tree
selected by VERIF_REPO over every accepted encoding of cores and GPUs (ints,
{'index','occupation'} dicts, RO objects, (index, occupation) pairs); nodes, core
and GPU indices (and shares) must survive."""
import copy
import itertools

from .builders import builder


def encodings(rp):
    from radical.pilot.resource_config import RO
    return {'ints' : lambda idx: [i for i in idx],
            'dicts': lambda idx: [{'index': i, 'occupation': 1.0} for i in idx],
            'ros'  : lambda idx: [RO(index=i, occupation=1.0) for i in idx],
            'pairs': lambda idx: [(i, 1.0) for i in idx]}


def idx_of(x):
    if isinstance(x, int): return x
    if isinstance(x, (tuple, list)): return x[0]
    if isinstance(x, dict): return x['index']
    return x.index


def run_all(rp, tier='quick'):
    from radical.pilot.utils.misc import convert_slots_to_new, convert_slots_to_old
    enc = encodings(rp)
    viol, n = [], 0
    for ce, ge in itertools.product(enc, repeat=2):
        for cores, gpus in (([0], []), ([3, 5], [1]), ([0, 1, 4, 5], [0, 2]), ([7], [3, 1])):
            n += 1
            old = [{'node_name': 'n1', 'node_index': 4, 'cores': enc[ce](cores), 'gpus': enc[ge](gpus), 'lfs': 3, 'mem': 5},
                   {'node_name': 'n2', 'node_index': 9, 'cores': enc[ce](cores[::-1]), 'gpus': enc[ge](gpus), 'lfs': 0, 'mem': 0}]
            name = 'cores as %s, gpus as %s, cores %s gpus %s' % (ce, ge, cores, gpus)
            try:
                new = convert_slots_to_new(copy.deepcopy(old))
            except Exception as e:
                viol.append(dict(id='to-new:%s-%s' % (ce, ge), detail='%s: convert_slots_to_new raised %r' % (name, e), input=dict(slots=str(old)[:300])))
                continue
            probs = []
            for o, s_ in zip(old, new):
                if s_['node_name'] != o['node_name'] or s_['node_index'] != o['node_index']:
                    probs.append('node %s/%s became %s/%s' % (o['node_name'], o['node_index'], s_['node_name'], s_['node_index']))
                if [idx_of(c) for c in s_['cores']] != [idx_of(c) for c in o['cores']]:
                    probs.append('core indices %s became %s' % ([idx_of(c) for c in o['cores']], [idx_of(c) for c in s_['cores']]))
                if [idx_of(g) for g in s_['gpus']] != [idx_of(g) for g in o['gpus']]:
                    probs.append('GPU indices %s became %s' % ([idx_of(g) for g in o['gpus']], [idx_of(g) for g in s_['gpus']]))
            try:
                back = convert_slots_to_old(copy.deepcopy(new))
                for o, b in zip(old, back):
                    if [c[0] for c in b['cores']] != [idx_of(c) for c in o['cores']] or \
                       [g[0] for g in b['gpus']] != [idx_of(g) for g in o['gpus']] or b['node_index'] != o['node_index']:
                        probs.append('after new -> old: cores %s gpus %s node %s (from cores %s gpus %s node %s)'
                                     % (b['cores'], b['gpus'], b['node_index'], [idx_of(c) for c in o['cores']], [idx_of(g) for g in o['gpus']], o['node_index']))
            except Exception as e:
                probs.append('convert_slots_to_old raised %r' % e)
            if probs:
                viol.append(dict(id='roundtrip:%s-%s' % (ce, ge), detail='%s: %s' % (name, '; '.join(probs[:2])), input=dict(slots=str(old)[:300])))
    # new-format slots as components hand them around (version set), cores and GPUs in any
    # mix of the accepted encodings, straight into convert_slots_to_old
    for ce, ge in itertools.product(('ints', 'dicts', 'ros'), repeat=2):
        for cores, gpus in (([0], []), ([3, 5], [1]), ([], [2, 0]), ([0, 1, 4, 5], [0, 2])):
            n += 1
            slots = [{'version': 1, 'node_name': 'n1', 'node_index': 4, 'cores': enc[ce](cores), 'gpus': enc[ge](gpus), 'lfs': 3, 'mem': 5}]
            name = 'new-format slot, cores as %s, gpus as %s, cores %s gpus %s' % (ce, ge, cores, gpus)
            try:
                back = convert_slots_to_old(copy.deepcopy(slots))
                b = back[0]
                if b['cores'] != [[c] for c in cores] or b['gpus'] != [[g] for g in gpus] or b.get('node_index', b.get('node_id')) != 4:
                    viol.append(dict(id='to-old:%s-%s' % (ce, ge), input=dict(slots=str(slots)[:300]),
                                     detail='%s: convert_slots_to_old gives cores %s gpus %s' % (name, str(b['cores'])[:80], str(b['gpus'])[:80])))
            except Exception as e:
                viol.append(dict(id='to-old:%s-%s' % (ce, ge), detail='%s: convert_slots_to_old raised %r' % (name, e), input=dict(slots=str(slots)[:300])))
    # one violation per encoding pair is enough
    seen, out = set(), []
    for v in viol:
        if v['id'] in seen: continue
        seen.add(v['id']); out.append(v)
    return dict(cases=n, violations=out[:6],
                bound='%d conversions: 4 encodings of cores x 4 encodings of GPUs x 4 index sets, old -> new -> old; 3 x 3 encodings x 4 index sets of new-format slots -> old' % n)


@builder('utils/misc.py:convert_slots_to_new', 'utils/misc.py:convert_slots_to_old')
def slot_replay(case, rp):
    r = run_all(rp)
    for v in r['violations']:
        return dict(confirmed=True, detail=v['detail'], input=v['input'], found_by='bounded native conversion sweep')
    return dict(confirmed=False, detail='%d slot conversions preserve nodes and indices' % r['cases'])

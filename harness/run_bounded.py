"""bounded stand-ins (labelled bounded, never counted as proved): run the real
code of $VERIF_REPO natively over an enumerated / sampled space and report what
failed.

usage: /venv/bin/python harness/run_bounded.py <name> [--seed N] [--tier quick|thorough]
prints one JSON line: {"cases": n, "bound": "...", "violations": [{"id":, "detail":, "input":}]}
"""
import json
import os
import sys
import traceback

sys.path.insert(0, os.path.dirname(os.path.dirname(os.path.abspath(__file__))))


def sched_histories(rp, seed, tier):
    from harness import sched_sim
    viol, n = [], 0
    for name, probs, hist in sched_sim.directed(rp):
        n += 1
        if probs:
            viol.append(dict(id='directed:' + name, detail='; '.join(probs[:3]), input=dict(history=hist)))
    n_hist = 150 if tier == 'quick' else 1500
    import re
    def kinds(probs):
        # the kinds of problem a history shows, without task names and numbers: a recorded
        # finding names a kind, so that a history failing in another way is still reported
        ks = sorted(set(re.sub(r'[^a-z]+', '-', re.sub(r"\bt\d+\b|\[[^\]]*\]|\d+", '', p.lower())).strip('-')[:60] for p in probs))
        return '+'.join(ks)
    for probs, hist, k in sched_sim.random_histories(rp, n_hist=n_hist, seed=20240917 + seed):
        viol.append(dict(id='random-%04d:%s' % (k, kinds(probs)), detail='; '.join(probs[:3]), input=dict(history=hist)))
        if len(viol) > 5: break
    return dict(cases=n + n_hist, violations=viol,
                bound='%d directed scenarios + %d random histories (<= 14 operations, <= 2 nodes x 4 cores, 1 GPU per node, '
                      'priorities 0..2) of the real Continuous scheduler driven through the real loop body of _schedule_tasks' % (n, n_hist))


def bf_histories(rp, seed, tier):
    from harness import bf_sim
    viol, n = [], 0
    for name, ops in bf_sim.DIRECTED:
        n += 1
        probs = bf_sim.run_history(rp, ops)
        if probs:
            viol.append(dict(id='directed:' + name, detail='; '.join(probs[:3]), input=dict(history=ops)))
    n_hist = 300 if tier == 'quick' else 3000
    for k, probs, ops in bf_sim.random_histories(rp, n_hist, 4711 + seed):
        viol.append(dict(id='random-%04d' % k, detail='; '.join(probs[:3]), input=dict(history=ops)))
        if len(viol) > 5: break
    return dict(cases=n + n_hist, violations=viol,
                bound='%d directed + %d random histories (<= 12 operations, 3 pilots of 1/2/4 cores, tasks of 1..3 cores) of the real '
                      'Backfilling scheduler: add / remove / re-add pilots, pilot state notifications, submissions, task completions' % (n, n_hist))


def lm_placements(rp, seed, tier):
    from harness import lm_sim
    return lm_sim.run_all(rp, tier)


def staging_e2e(rp, seed, tier):
    from harness import staging_sim
    return staging_sim.run_all(rp, tier)


def task_scripts(rp, seed, tier):
    from harness import script_sim
    return script_sim.run_all(rp, tier)


def wait_calls(rp, seed, tier):
    from harness import wait_sim
    return wait_sim.run_all(rp, tier)


def slot_formats(rp, seed, tier):
    from harness import slot_sim
    return slot_sim.run_all(rp, tier)


def pilot_sizing(rp, seed, tier):
    from harness import pilot_sim
    return pilot_sim.run_all(rp, tier)


def node_files(rp, seed, tier):
    from harness import nodefile_sim
    return nodefile_sim.run_all(rp, tier)


def worker_dispatch(rp, seed, tier):
    from harness import worker_sim
    return worker_sim.run_all(rp, tier)


def worker_histories(rp, seed, tier):
    from harness import worker_sim
    return worker_sim.run_accounting(rp, tier, seed)


def app_placements(rp, seed, tier):
    from harness import app_sim
    return app_sim.run_all(rp, tier, seed)


def executor_ops(rp, seed, tier):
    """the native operation sequences of the executor replay builders, run on every check:
    watcher / cancel interleavings at operation granularity, launch with pending cancel,
    registration before launch, an error after the process exists"""
    from harness import builders
    viol, n = [], 0
    for key in ('agent/executing/popen.py:Popen.work', 'agent/executing/popen.py:Popen._launch_task',
                'agent/executing/base.py:AgentExecutingComponent.is_canceled'):
        r = builders.BUILDERS[key](dict(function=key), rp)
        import re
        m = re.search(r'(\d+)', r.get('detail') or '')
        n += int(m.group(1)) if m and not r.get('confirmed') else 1
        if r.get('confirmed'):
            viol.append(dict(id=key.split(':')[-1], detail=r['detail'], input=r.get('input')))
    return dict(cases=n, violations=viol,
                bound='%d native executor scenarios: 111 watcher / cancel operation sequences on two tasks, registration before launch, '
                      '6 launch scenarios (pending cancel x exit code), an error after the process exists, intake cancel with and without a process' % n)


CHECKS = {'executor-ops': executor_ops, 'app-placements': app_placements, 'worker-histories': worker_histories, 'worker-dispatch': worker_dispatch, 'node-files': node_files, 'pilot-sizing': pilot_sizing, 'slot-formats': slot_formats, 'wait-calls': wait_calls, 'sched-histories': sched_histories, 'bf-histories': bf_histories, 'lm-placements': lm_placements,
          'staging-e2e': staging_e2e, 'task-scripts': task_scripts}


def main():
    name = sys.argv[1]
    seed, tier = 0, 'quick'
    a = sys.argv[2:]
    while a:
        if a[0] == '--seed': seed = int(a[1]); a = a[2:]
        elif a[0] == '--tier': tier = a[1]; a = a[2:]
        else: a = a[1:]
    try:
        from harness.rp_boot import boot
        rp = boot()
        out = CHECKS[name](rp, seed, tier)
    except Exception as e:
        print(json.dumps(dict(error='%r' % e, traceback=traceback.format_exc()[-1500:])))
        sys.exit(3)
    print(json.dumps(out, default=str))


if __name__ == '__main__':
    main()

"""C10, bounded stand-in and native replay: the real script generators of the tree
selected by VERIF_REPO (AgentExecutingComponent._create_exec_script /
_create_launch_script with the real FORK launch method) write the launch and exec
scripts for generated task descriptions; the scripts are executed with bash in a
temporary sandbox; a probe executable records its argv and environment; the
oracle compares with the description.
"""
import json
import os
import shutil
import subprocess
import sys
import tempfile

from .builders import builder, Stub, AttrDict

PROBE = r'''#!%s
import json, os, sys
out = os.environ.get('PROBE_OUT')
rec = dict(argv=sys.argv[1:], env=dict(os.environ), cwd=os.getcwd())
with open(out, 'a') as f: f.write(json.dumps(rec) + '\n')
sys.stdout.write('probe-stdout\n'); sys.stderr.write('probe-stderr\n')
sys.exit(int(os.environ.get('PROBE_EXIT', '0')))
''' % sys.executable


class World:
    def __init__(self, rp):
        self.rp = rp
        self.root = os.path.realpath(tempfile.mkdtemp(prefix='verif_script_'))
        self.psbox = os.path.join(self.root, 'session.0001', 'pilot.0000')
        self.tsbox = os.path.join(self.psbox, 'task.000000')
        os.makedirs(os.path.join(self.psbox, 'env'))
        os.makedirs(self.tsbox)
        open(os.path.join(self.psbox, 'env', 'lm_fork.sh'), 'w').write('# launcher env\nexport LM_ENV_LOADED=1\n')
        for n in ('gtod', 'prof'):
            p = os.path.join(self.psbox, n)
            open(p, 'w').write('#!/bin/sh\nexit 0\n'); os.chmod(p, 0o755)
        self.probe = os.path.join(self.root, 'probe')
        open(self.probe, 'w').write(PROBE); os.chmod(self.probe, 0o755)
        self.out = os.path.join(self.root, 'probe.out')
        self.trace = os.path.join(self.root, 'trace.log')

    def close(self):
        shutil.rmtree(self.root, ignore_errors=True)

    def executor(self):
        from radical.pilot.agent.executing.popen import Popen
        e = object.__new__(Popen)
        e._log, e._prof = Stub(), Stub()
        e._prof.enabled = False
        e._pwd = self.psbox
        e.sid, e.pid, e.resource = 'session.0001', 'pilot.0000', 'local.localhost'
        e.rsbox = self.root
        e.ssbox = '$RP_RESOURCE_SANDBOX/$RP_SESSION_ID/'
        e.psbox = '$RP_SESSION_SANDBOX/pilot.0000'
        e.gtod, e.prof, e.rp_ctrl = '$RP_PILOT_SANDBOX/gtod', '$RP_PILOT_SANDBOX/prof', '/bin/true'
        e._reg = {'bridges.control_pubsub': {'addr_pub': 'tcp://10.0.0.1:10001', 'addr_sub': 'tcp://10.0.0.1:10002'}}
        e._session = AttrDict(reg_addr='tcp://10.0.0.1:10000', rcfg=AttrDict(task_pre_exec=[]), cfg=AttrDict())
        return e

    def launcher(self, rank_from_env=False):
        from radical.pilot.agent.launch_method.fork import Fork
        lm = object.__new__(Fork)
        lm.name = 'FORK'; lm._log = Stub(); lm._env_sh = 'env/lm_fork.sh'; lm.node_name = 'localhost'
        if rank_from_env:
            lm.get_rank_cmd = lambda: 'export RP_RANK=$FAKE_RANK\n'
        return lm

    def task(self, **kw):
        td = dict(executable=self.probe, arguments=[], environment={}, pre_exec=[], post_exec=[], pre_launch=[], post_launch=[],
                  ranks=1, cores_per_rank=1, gpus_per_rank=0.0, threading_type='', gpu_type='', named_env=None,
                  pre_exec_sync=False, stdout=None, stderr=None, startup_timeout=0, services=[])
        td.update({k: (v.replace('@ROOT@', self.root) if isinstance(v, str) else v) for k, v in kw.items()})
        t = dict(uid='task.000000', name='', description=td, task_sandbox_path=self.tsbox,
                 slots=[{'node_name': 'localhost', 'node_index': 0, 'cores': [{'index': 0, 'occupation': 1.0}], 'gpus': [], 'lfs': 0, 'mem': 0}])
        return t

    def run(self, task, rank_from_env=False, extra_env=None, exec_only=False):
        e, lm = self.executor(), self.launcher(rank_from_env)
        # the real Popen._handle_task: stdio file names, launcher lookup, both scripts;
        # only the process spawn (_launch_task) is replaced - the scripts are run below
        e._rm = Stub()
        e._rm.find_launcher = lambda t: (lm, 'FORK')
        e._launch_task = lambda t: None
        e._handle_task(task)
        launch_full = task['launch_path']
        exec_full = os.path.join(self.tsbox, os.path.basename(task['exec_path']))
        env = {'PATH': os.environ.get('PATH', '/usr/bin:/bin'), 'HOME': self.root, 'PROBE_OUT': self.out, 'TRACE': self.trace,
               'RP_PILOT_SANDBOX_PRESET': '1'}
        env.update(extra_env or {})
        if os.path.exists(self.out): os.remove(self.out)
        script = exec_full if exec_only else launch_full
        p = subprocess.run(['/bin/bash', script], cwd=self.tsbox, env=env, capture_output=True, text=True, timeout=60)
        recs = [json.loads(l) for l in open(self.out)] if os.path.exists(self.out) else []
        return p, recs


def _trace(tag):
    return 'echo %s >> $TRACE' % tag


def cases():
    """(name, kwargs for the description, expectation function name)"""
    out = []
    arglists = [[], ['plain'], ['two words', 'x'], ['quo"te', "sing'le"], ['*', '?', '[a]'], ['', 'after-empty'],
                ['back\\slash', 'semi;colon', 'amp&'], ['\u00fcml\u00e4ut', '\u65e5\u672c'],
                ['-n', '--flag=va lue'], ['new\nline'], ['tab\there', ' lead', 'trail '], ['#hash', '!bang', '~', '>', '|']]
    for a in arglists:
        out.append(('arguments %r' % (a,), dict(arguments=a), 'argv'))
    envs = [{'A': '1'}, {'SPACED': 'two words'}, {'EMPTY': ''}, {'PATHLIKE': '/a/b:/c'}, {'EQ': 'k=v'}, {'UML': '\u00fc'},
            {'SQ': "it's"}, {'DQ': 'say "hi"'}, {'BSL': 'a\\b'}, {'GLOB': '*'}, {'SEMI': 'a;b'}, {'HASH': '#x'}]
    for ev in envs:
        out.append(('environment %r' % (ev,), dict(environment=ev), 'env'))
    out.append(('stdout / stderr named', dict(stdout='my.out', stderr='my.err'), 'stdio'))
    out.append(('stdout / stderr default', dict(), 'stdio'))
    out.append(('stdout named, stderr default', dict(stdout='only.out'), 'stdio'))
    out.append(('stdout default, stderr named', dict(stderr='only.err'), 'stdio'))
    out.append(('stdout relative, stderr absolute', dict(stdout='rel.out', stderr='@ROOT@/abs.err'), 'stdio'))
    out.append(('stdout absolute, stderr relative', dict(stdout='@ROOT@/abs.out', stderr='rel.err'), 'stdio'))
    out.append(('stdout absolute, stderr default', dict(stdout='@ROOT@/abs2.out'), 'stdio'))
    out.append(('stdout / stderr in a sub-directory of the sandbox', dict(stdout='logs/o.txt', stderr='logs/e.txt', pre_launch=['mkdir -p logs']), 'stdio'))
    out.append(('pre before, post after', dict(pre_exec=[_trace('pre')], post_exec=[_trace('post')], arguments=['x']), 'order'))
    out.append(('failing pre_exec', dict(pre_exec=['false'], post_exec=[_trace('post')]), 'pre-fails'))
    out.append(('failing post_exec', dict(post_exec=['false']), 'post-fails'))
    out.append(('exit code of the executable', dict(), 'exit-code'))
    out.append(('per-rank pre_exec', dict(pre_exec=[{'0': _trace('rank0'), '1': _trace('rank1')}, _trace('all')], ranks=2), 'per-rank'))
    out.append(('mixed pre_exec, dict names rank 0 only, 3 ranks',
                dict(pre_exec=[_trace('all'), {'0': _trace('rank0')}], post_exec=[_trace('post')], ranks=3), 'per-rank-partial'))
    out.append(('failing global pre_exec next to a per-rank dict',
                dict(pre_exec=['false', {'0': _trace('rank0')}], ranks=2), 'per-rank-fail'))
    out.append(('RP_* variables', dict(cores_per_rank=3, gpus_per_rank=2.0), 'rp-vars'))
    out.append(('RP_* variables, shared GPU', dict(cores_per_rank=1, gpus_per_rank=0.5), 'rp-vars'))
    return out


def run_case(rp, case):
    name, kw, kind = case
    w = World(rp)
    try:
        task = w.task(**kw)
        td = task['description']
        if kind == 'per-rank':
            probs = []
            for rank in ('0', '1'):
                if os.path.exists(w.trace): os.remove(w.trace)
                p, recs = w.run(task, rank_from_env=True, extra_env={'FAKE_RANK': rank, 'RP_TASK_SANDBOX': w.tsbox,
                                'RP_PILOT_SANDBOX': w.psbox}, exec_only=True)
                tr = open(w.trace).read().split() if os.path.exists(w.trace) else []
                if tr != ['rank%s' % rank, 'all']:
                    probs.append('rank %s ran pre_exec entries %s (expected its own entry and the common one)' % (rank, tr))
                if len(recs) != 1: probs.append('rank %s: executable ran %d times' % (rank, len(recs)))
            return '; '.join(probs) or None
        if kind in ('per-rank-partial', 'per-rank-fail'):
            probs = []
            for rank in [str(r) for r in range(td['ranks'])]:
                if os.path.exists(w.trace): os.remove(w.trace)
                p, recs = w.run(task, rank_from_env=True, extra_env={'FAKE_RANK': rank, 'RP_TASK_SANDBOX': w.tsbox,
                                'RP_PILOT_SANDBOX': w.psbox}, exec_only=True)
                tr = open(w.trace).read().split() if os.path.exists(w.trace) else []
                if kind == 'per-rank-fail':
                    if recs: probs.append('rank %s: a global pre_exec command failed but the executable ran' % rank)
                    if p.returncode == 0: probs.append('rank %s: a global pre_exec command failed but the script exits 0' % rank)
                else:
                    want = ['all'] + (['rank0'] if rank == '0' else []) + ['post']
                    if tr != want: probs.append('rank %s ran pre / post entries %s (expected %s)' % (rank, tr, want))
                    if len(recs) != 1: probs.append('rank %s: executable ran %d times' % (rank, len(recs)))
            return '; '.join(probs[:3]) or None
        extra = {}
        if kind == 'exit-code': extra['PROBE_EXIT'] = '7'
        p, recs = w.run(task, extra_env=extra)
        if kind == 'pre-fails':
            if recs: return 'a pre_exec command failed but the executable ran'
            if p.returncode == 0: return 'a pre_exec command failed but the script exits 0'
            return None
        if kind == 'post-fails':
            if len(recs) != 1: return 'executable ran %d times' % len(recs)
            if p.returncode == 0: return 'a post_exec command failed but the script exits 0'
            return None
        if kind == 'exit-code':
            if p.returncode != 7: return 'the executable exits 7, the launch script exits %s' % p.returncode
            return None
        if len(recs) != 1:
            return 'the executable ran %d times (rc %s): %s' % (len(recs), p.returncode, (p.stderr or p.stdout)[-300:].replace('\n', ' | '))
        rec = recs[0]
        if p.returncode != 0:
            return 'script exits %s although the executable exits 0: %s' % (p.returncode, p.stderr[-200:])
        if kind == 'argv':
            if rec['argv'] != td['arguments']:
                return 'argv is %r, described arguments are %r' % (rec['argv'], td['arguments'])
        if kind == 'env':
            for k, v in td['environment'].items():
                if rec['env'].get(k) != v:
                    return 'environment variable %s is %r in the task, described as %r' % (k, rec['env'].get(k), v)
        if rec['cwd'] != w.tsbox:
            return 'the executable runs in %s, not in the task sandbox' % rec['cwd']
        if kind == 'stdio':
            so = os.path.join(w.tsbox, td.get('stdout') or 'task.000000.out')
            se = os.path.join(w.tsbox, td.get('stderr') or 'task.000000.err')
            if not os.path.exists(so) or 'probe-stdout' not in open(so).read(): return 'stdout of the executable is not in %s' % so
            if not os.path.exists(se) or 'probe-stderr' not in open(se).read(): return 'stderr of the executable is not in %s' % se
        if kind == 'order':
            tr = open(w.trace).read().split() if os.path.exists(w.trace) else []
            if tr != ['pre', 'post']: return 'pre / post commands ran as %s' % tr
        if kind == 'rp-vars':
            e = rec['env']
            gpr = td['gpus_per_rank']
            want = {'RP_TASK_ID': 'task.000000', 'RP_TASK_NAME': 'task.000000', 'RP_PILOT_ID': 'pilot.0000', 'RP_SESSION_ID': 'session.0001',
                    'RP_TASK_SANDBOX': w.tsbox, 'RP_PILOT_SANDBOX': w.psbox, 'RP_RANK': '0', 'RP_RANKS': '1',
                    'RP_CORES_PER_RANK': str(td['cores_per_rank']), 'RP_GPUS_PER_RANK': ('%d' % gpr) if int(gpr) == gpr else ('%f' % gpr),
                    'RP_REGISTRY_ADDRESS': 'tcp://10.0.0.1:10000', 'RP_CONTROL_PUB_ADDRESS': 'tcp://10.0.0.1:10001',
                    'RP_CONTROL_SUB_ADDRESS': 'tcp://10.0.0.1:10002'}
            for k, v in want.items():
                got = e.get(k)
                if k.endswith('_SANDBOX') and got: got = os.path.normpath(got)
                if got != v:
                    return '%s is %r in the task, expected %r' % (k, e.get(k), v)
        return None
    except subprocess.TimeoutExpired:
        return 'the script did not finish within 60 s'
    finally:
        w.close()


def run_all(rp, tier='quick'):
    viol, n = [], 0
    for case in cases():
        n += 1
        p = run_case(rp, case)
        if p:
            import re
            viol.append(dict(id=re.sub(r'[^a-zA-Z0-9]+', '-', case[0])[:60].strip('-'), detail='%s: %s' % (case[0], p), input=dict(description=case[1])))
    return dict(cases=n, violations=viol,
                bound='%d generated descriptions (13 argument lists, 10 environment maps, stdio names, pre/post order and failure, '
                      'per-rank entries on 2 ranks, exit code, RP_* variables), scripts run with /bin/bash under the FORK launch method' % n)


@builder('agent/executing/base.py:AgentExecutingComponent._get_rp_env', 'agent/executing/base.py:AgentExecutingComponent._get_prep_exec',
         'agent/executing/base.py:AgentExecutingComponent._get_task_env', 'agent/executing/base.py:AgentExecutingComponent._get_exec',
         'agent/executing/base.py:AgentExecutingComponent._get_launch', 'agent/launch_method/base.py:LaunchMethod.get_exec',
         'agent/launch_method/base.py:LaunchMethod._create_arg_string', 'agent/executing/popen.py:Popen._handle_task#stdio')
def script_replay(case, rp):
    import fnmatch
    kf = json.load(open(os.path.join(os.path.dirname(os.path.dirname(os.path.abspath(__file__))), 'known_findings.json')))
    skip = [f.get('case', '') for f in kf.get('findings', []) if f.get('status') != 'fixed' and f.get('bounded') == 'task-scripts']
    r = run_all(rp)
    for v in r['violations']:
        if any(fnmatch.fnmatch(v['id'], s) for s in skip): continue
        return dict(confirmed=True, detail=v['detail'], input=v['input'], found_by='bounded native script execution')
    return dict(confirmed=False, detail='%d generated scripts behave as described' % r['cases'])

"""import radical.pilot from $VERIF_REPO/src (default /repo) under /venv/bin/python.

`import radical.pilot` raises in this environment because src/radical/pilot/VERSION
is missing; radical.utils.get_version is patched here (nothing in /repo is edited).
"""
import os
import sys

REPO = os.environ.get('VERIF_REPO', '/repo')


def boot():
    import radical.utils as ru
    ru.get_version = lambda *a, **k: ('0.0', '0', '0', '0', '0.0')
    import radical
    src = os.path.join(REPO, 'src', 'radical')
    # drop the editable-install finder so that the tree under test is the one
    # named by VERIF_REPO
    sys.meta_path[:] = [f for f in sys.meta_path
                        if 'editable' not in repr(f).lower()
                        and 'radical_pilot' not in repr(f).lower()]
    for k in list(sys.path_hooks):
        if 'editable' in repr(k).lower():
            sys.path_hooks.remove(k)
    try:
        radical.__path__ = [p for p in list(radical.__path__)
                            if 'editable' not in str(p)] + [src]
    except Exception:
        radical.__path__.append(src)
    sys.path_importer_cache.clear()
    import radical.pilot as rp
    assert os.path.realpath(rp.__file__).startswith(os.path.realpath(REPO)), \
           (rp.__file__, REPO)
    return rp


class Stub:
    """object whose every attribute is a no-op callable (logger / profiler)"""
    def __getattr__(self, name):
        return lambda *a, **k: None

"""C09, bounded stand-in and native replay: the real launch methods of the tree
selected by VERIF_REPO generate commands for enumerated placements; a small
interpreter per launcher reads the command (and any host / rank / node file it
names) the way the launcher's documented command line reads it, and the result is
compared with the placement: as many processes as ranks, exactly the nodes of
the placement, independent of earlier generations.

What is assumed: the reading of each launcher's command line below (A14).
"""
import copy
import itertools
import os
import re
import shutil
import tempfile
from collections import Counter

from .builders import builder, Stub, AttrDict


def _slot(node, idx, cores, gpus=()):
    return {'node_name': node, 'node_index': idx,
            'cores': [{'index': c, 'occupation': 1.0} for c in cores],
            'gpus': [{'index': g, 'occupation': 1.0} for g in gpus], 'lfs': 0, 'mem': 0}


def placements(big=False):
    """(name, slots): ranks over nodes with multiplicities, 1..2 cores per rank"""
    out = []
    shapes = [(1,), (2,), (1, 1), (2, 1), (1, 2), (3,), (1, 1, 1), (2, 2), (1, 3), (2, 1, 1)]
    for shape in shapes:
        for cpr in (1, 2):
            for gpr in (0, 1):
                slots = []
                for n, k in enumerate(shape):
                    for r in range(k):
                        slots.append(_slot('node%02d' % (n + 3), n + 3, list(range(r * cpr, r * cpr + cpr)),
                                           list(range(r * gpr, r * gpr + gpr))))
                out.append(('%s ranks/node, %d cores, %d gpus per rank' % ('+'.join(map(str, shape)), cpr, gpr), slots))
    # core sets with a hole (what a rank file has to spell out)
    out.append(('2 ranks on one node, cores [0,1,4,5] and [2,3,6,7]',
                [_slot('node03', 3, [0, 1, 4, 5]), _slot('node03', 3, [2, 3, 6, 7])]))
    out.append(('1+1 ranks, cores [1,3,5] each', [_slot('node03', 3, [1, 3, 5]), _slot('node04', 4, [1, 3, 5])]))
    # ranks in cyclic / interleaved node order (a scheduler that spreads ranks over nodes)
    out.append(('2+2 ranks in cyclic node order', [_slot('node03', 3, [0]), _slot('node04', 4, [0]), _slot('node03', 3, [1]), _slot('node04', 4, [1])]))
    out.append(('2+1 ranks, node order 3,4,3', [_slot('node03', 3, [0]), _slot('node04', 4, [0]), _slot('node03', 3, [1])]))
    out.append(('1+2+1 ranks, node order 5,3,4,3', [_slot('node05', 5, [0]), _slot('node03', 3, [0]), _slot('node04', 4, [0]), _slot('node03', 3, [1])]))
    if big:
        for nn, per in ((43, 1), (50, 2), (45, 1)):
            slots = [_slot('n%03d' % n, n, [r]) for n in range(nn) for r in range(per)]
            out.append(('%d nodes x %d ranks (beyond the host-list threshold)' % (nn, per), slots))
    return out


def mk_task(slots, sbox, uid='task.000007', use_mpi=None):
    cpr = len(slots[0]['cores']) if slots else 1
    gpr = len(slots[0]['gpus']) if slots else 0
    td = {'ranks': len(slots), 'cores_per_rank': cpr, 'gpus_per_rank': float(gpr), 'executable': '/bin/true',
          'use_mpi': (len(slots) > 1) if use_mpi is None else use_mpi, 'mem_per_rank': 0, 'metadata': {},
          'threading_type': '', 'environment': {}}
    return {'uid': uid, 'description': td, 'slots': copy.deepcopy(slots), 'task_sandbox_path': sbox, 'partition': 0}


def mk_lm(rp, kind, sbox):
    """launcher objects as _init_from_info leaves them (no probing of the host)"""
    import importlib
    mods = dict(FORK='fork.Fork', SSH='ssh.SSH', RSH='rsh.RSH', CCMRUN='ccmrun.CCMRun', APRUN='aprun.APRun',
                MPIRUN='mpirun.MPIRun', MPIRUN_MPT='mpirun.MPIRun', MPIRUN_CCMRUN='mpirun.MPIRun', MPIRUN_DPLACE='mpirun.MPIRun',
                MPIEXEC='mpiexec.MPIExec', MPIEXEC_RF='mpiexec.MPIExec', MPIEXEC_HF='mpiexec.MPIExec', MPIEXEC_PALS='mpiexec.MPIExec',
                MPIEXEC_MPT='mpiexec.MPIExec', SRUN='srun.Srun', PRTE='prte.PRTE', IBRUN='ibrun.IBRun')
    mod, cls = mods[kind].split('.')
    C = getattr(importlib.import_module('radical.pilot.agent.launch_method.' + mod), cls)
    lm = object.__new__(C)
    lm.name = kind
    lm._log, lm._prof = Stub(), Stub()
    lm._env_sh = 'env/lm_%s.sh' % kind.lower()
    lm._command = {'FORK': '', 'SSH': '/usr/bin/ssh -o StrictHostKeyChecking=no', 'RSH': '/usr/bin/rsh', 'CCMRUN': '/bin/ccmrun',
                   'APRUN': '/bin/aprun', 'SRUN': '/bin/srun', 'PRTE': '/bin/prun', 'IBRUN': '/bin/ibrun'}.get(kind, '/bin/' + mod)
    lm.node_name = 'node03'
    nodes = [{'index': i, 'name': 'node%02d' % i, 'cores': [0.0] * 8, 'gpus': [0.0] * 2} for i in range(8)]
    lm._rm_info = AttrDict(details={'oversubscribe': False}, cores_per_node=8, gpus_per_node=2, threads_per_core=1,
                           requested_gpus=2, node_list=nodes)
    lm._lm_cfg = {}
    if mod in ('mpirun', 'mpiexec'):
        lm._mpt = kind.endswith('_MPT'); lm._rsh = False
        lm._ccmrun = '/bin/ccmrun' if kind.endswith('_CCMRUN') else ''
        lm._dplace = '/bin/dplace' if kind.endswith('_DPLACE') else ''
        lm._omplace = ''
        lm._mpi_version = '4.1'
        lm._mpi_flavor = 'PALS' if kind.endswith('_PALS') else 'OMPI'
        lm._use_rf = kind.endswith('_RF'); lm._use_hf = kind.endswith('_HF'); lm._can_os = False
    if mod == 'srun':
        lm._vmajor, lm._exact, lm._traverse = 22, False, False
    if mod == 'prte':
        lm._details = {'dvm_list': {0: {'dvm_uri': 'prte-uri-0', 'nodes': [n['name'] for n in nodes]}}}
        lm._verbose = False
    return lm


# -- interpreters: command (+ files) -> (number of processes, Counter of hosts named or None) ---------
def _opt(cmd, *names):
    for n in names:
        m = re.search(r'(?:^|\s)%s[ =]+(\S+)' % re.escape(n), cmd)
        if m: return m.group(1)
    return None


def read_cmd(kind, lm, cmd, task):
    base = kind.split('_')[0]
    if base == 'FORK':
        return (1 if cmd.strip() == '/bin/true' else None), Counter([lm.node_name])
    if base in ('SSH', 'RSH'):
        parts = cmd[len(lm._command):].split()
        return 1, Counter(parts[:1])
    if base in ('CCMRUN', 'APRUN'):
        return int(_opt(cmd, '-n')), None
    if base == 'IBRUN':
        return int(_opt(cmd, '-n')), None
    if base == 'PRTE':
        hosts = Counter()
        h = _opt(cmd, '--host')
        if h:
            for item in h.split(','):
                name, k = item.rsplit(':', 1)
                hosts[name] += int(k)
        return int(_opt(cmd, '--np')), hosts
    if base == 'SRUN':
        n = int(_opt(cmd, '--ntasks'))
        nl = _opt(cmd, '--nodelist')
        nf = _opt(cmd, '--nodefile')
        if nf: names = open(nf).read().strip().split(',')
        else:  names = nl.split(',') if nl else []
        nn = _opt(cmd, '--nodes')
        if nn is not None and names and int(nn) != len(set(names)):
            return ('--nodes %s but %d nodes listed' % (nn, len(set(names)))), None
        if len(names) != len(set(names)):
            return ('the node list names a node twice (%s)' % ','.join(names)), None
        return n, set(names)
    if base == 'MPIRUN':
        n = int(_opt(cmd, '-np'))
        hf = _opt(cmd, '-hostfile', '-file')
        if hf:
            hosts = [l.split()[0] for l in open(hf).read().strip().split('\n') if l.strip()]
            mult = Counter()
            for l in open(hf).read().strip().split('\n'):
                p = l.split()
                k = 1
                for q in p[1:]:
                    if q.startswith('slots='): k = int(q[6:])
                mult[p[0]] += k
            if lm._mpt: return n * sum(mult.values()), mult
            return n, mult
        if lm._mpt:
            m = re.search(r'%s\s+(\S+)\s+-np' % re.escape(lm._command), cmd)
            hosts = Counter(m.group(1).split(',')) if m else Counter()
            return n * sum(hosts.values()), hosts
        return n, Counter(_opt(cmd, '-host').split(','))
    if base == 'MPIEXEC':
        n = int(_opt(cmd, '-np'))
        rf = _opt(cmd, '-rf')
        if rf:
            text = open(rf).read()
            hosts = Counter(re.findall(r'rank \d+=(\S+) ', text))
            # cores each rank is pinned to: comma lists and a-b ranges
            pins = []
            for m in re.finditer(r'rank (\d+)=(\S+) slots=(\S+)', text):
                cs = set()
                for part in m.group(3).split(','):
                    if '-' in part:
                        a, b = part.split('-'); cs |= set(range(int(a), int(b) + 1))
                    else:
                        cs.add(int(part))
                pins.append((m.group(2), cs))
            want = [(s_['node_name'], set(c['index'] for c in s_['cores'])) for s_ in task['slots']]
            if pins != want:
                return ('the rank file pins ranks to %s, the placement says %s' % (pins, want)), None
            return n, hosts
        hf = _opt(cmd, '--hostfile', '-f')
        hosts = Counter()
        for l in open(hf).read().strip().split('\n'):
            if not l.strip(): continue
            if ' slots=' in l:
                name, k = l.split(' slots='); hosts[name] += int(k)
            elif ':' in l:
                name, k = l.rsplit(':', 1); hosts[name] += int(k)
            else:
                hosts[l.strip()] += 0
        if sum(hosts.values()) == 0:
            ppn = _opt(cmd, '--ppn')
            return n, set(hosts)              # plain host list: names only
        return n, hosts
    raise KeyError(kind)


KINDS = ['FORK', 'SSH', 'RSH', 'CCMRUN', 'APRUN', 'MPIRUN', 'MPIRUN_MPT', 'MPIRUN_CCMRUN', 'MPIRUN_DPLACE', 'MPIEXEC', 'MPIEXEC_RF',
         'MPIEXEC_HF', 'MPIEXEC_PALS', 'SRUN', 'PRTE', 'IBRUN']


def check_kind(rp, kind, big=False):
    """-> list of (placement name, problem)"""
    out = []
    sbox = tempfile.mkdtemp(prefix='verif_lm_')
    try:
        plist = placements(big)
        for pname, slots in plist:
            lm = mk_lm(rp, kind, sbox)
            task = mk_task(slots, sbox)
            want_n = len(slots)
            want_hosts = Counter(s['node_name'] for s in slots)
            try:
                ok, why = lm.can_launch(task)
            except Exception as e:
                ok, why = True, ''
            try:
                cmd = lm.get_launch_cmds(task, '/bin/true')
            except Exception as e:
                if ok and kind.split('_')[0] not in ('SSH', 'RSH') and not (kind == 'FORK'):
                    out.append((pname, 'can_launch accepts the task but get_launch_cmds raises %r' % e))
                continue
            if not ok:
                # refused: no command will be used; nothing to compare
                continue
            try:
                n, hosts = read_cmd(kind, lm, cmd, task)
            except Exception as e:
                out.append((pname, 'command not readable (%r): %s' % (e, cmd[:120]))); continue
            if isinstance(n, str):
                out.append((pname, '%s: %s' % (n, cmd[:160]))); continue
            if n != want_n:
                out.append((pname, 'the command starts %s processes, the task has %d ranks: %s' % (n, want_n, cmd[:160])))
            if hosts is not None:
                named = set(hosts)
                if named - set(want_hosts):
                    out.append((pname, 'names node(s) %s outside the placement %s: %s' % (sorted(named - set(want_hosts)), sorted(want_hosts), cmd[:160])))
                if set(want_hosts) - named:
                    out.append((pname, 'omits node(s) %s of the placement: %s' % (sorted(set(want_hosts) - named), cmd[:160])))
                if isinstance(hosts, Counter) and sum(hosts.values()) and kind not in ('FORK',) and hosts != want_hosts:
                    out.append((pname, 'ranks per node %s differ from the placement %s: %s' % (dict(hosts), dict(want_hosts), cmd[:160])))
            # independence of earlier generations: same launcher object, other tasks first
            lm2 = mk_lm(rp, kind, sbox)
            for oname, oslots in plist[:3] + plist[-2:]:
                try: lm2.get_launch_cmds(mk_task(oslots, sbox, uid='task.000001'), '/bin/other')
                except Exception: pass
            try:
                cmd2 = lm2.get_launch_cmds(mk_task(slots, sbox), '/bin/true')
                if cmd2 != cmd:
                    out.append((pname, 'the command depends on earlier generations: %r vs %r' % (cmd2[:140], cmd[:140])))
            except Exception as e:
                out.append((pname, 'raises after earlier generations only: %r' % e))
    finally:
        shutil.rmtree(sbox, ignore_errors=True)
    return out


def fork_locality(rp):
    """FORK starts the process on the executor's own node: it must refuse a task that is
    placed anywhere else, whatever the two names look like"""
    out = []
    sbox = tempfile.mkdtemp(prefix='verif_lm_')
    try:
        for local, node, want in (('node10', 'node10', True), ('node10', 'localhost', True), ('node10', 'node1', False),
                                  ('node10', 'node100', False), ('nid00012', 'nid0001', False), ('a.b.c', 'a', False),
                                  ('node1', 'node10', False), ('n', '', False)):
            lm = mk_lm(rp, 'FORK', sbox)
            lm.node_name = local
            task = mk_task([_slot(node, 1, [0])], sbox, use_mpi=False)
            try:
                ok, why = lm.can_launch(task)
            except Exception as e:
                out.append(('local node %r, task on %r' % (local, node), 'can_launch raises %r' % e)); continue
            if bool(ok) != want:
                out.append(('local node %r, task on %r' % (local, node),
                            'FORK %s a task placed on node %r while running on node %r' % ('accepts' if ok else 'refuses', node, local)))
    finally:
        shutil.rmtree(sbox, ignore_errors=True)
    return out


def run_all(rp, tier='quick'):
    viol, n = [], 0
    for pname, p in fork_locality(rp):
        viol.append(dict(id='FORK:locality', detail='FORK, %s: %s' % (pname, p), input=dict(launcher='FORK', case=pname)))
    n += 8
    for kind in KINDS:
        probs = check_kind(rp, kind, big=True)
        n += len(placements(True))
        seen = set()
        for pname, p in probs:
            key = p.split(':')[0][:60]
            if key in seen: continue
            seen.add(key)
            viol.append(dict(id='%s:%s' % (kind, re.sub(r'[^a-z0-9]+', '-', key.lower()).strip('-')[:50]),
                             detail='%s, placement %s: %s' % (kind, pname, p), input=dict(launcher=kind, placement=pname)))
    return dict(cases=n, violations=viol,
                bound='%d launcher flavours x %d placements (1..4 ranks over 1..3 nodes with multiplicities, 1..2 cores and 0..1 GPUs per rank, '
                      'and 43..50 nodes beyond the host-list threshold); JSRUN, FLUX, DRAGON not covered (other slot structure / services)'
                      % (len(KINDS), len(placements(True))))


@builder(*['agent/launch_method/%s.get_launch_cmds' % mc for mc in
           ('fork.py:Fork', 'ssh.py:SSH', 'rsh.py:RSH', 'ccmrun.py:CCMRun', 'aprun.py:APRun', 'mpirun.py:MPIRun',
            'mpiexec.py:MPIExec', 'srun.py:Srun', 'prte.py:PRTE', 'ibrun.py:IBRun')])
def lm_replay(case, rp):
    import json
    kf = json.load(open(os.path.join(os.path.dirname(os.path.dirname(os.path.abspath(__file__))), 'known_findings.json')))
    skip = [f.get('case', '') for f in kf.get('findings', []) if f.get('status') != 'fixed' and f.get('bounded') == 'lm-placements']
    fn = case.get('function', '')
    base = {'fork': 'FORK', 'ssh': 'SSH', 'rsh': 'RSH', 'ccmrun': 'CCMRUN', 'aprun': 'APRUN', 'mpirun': 'MPIRUN', 'mpiexec': 'MPIEXEC',
            'srun': 'SRUN', 'prte': 'PRTE', 'ibrun': 'IBRUN'}[fn.split('/')[-1].split('.py')[0]]
    for kind in [k for k in KINDS if k.split('_')[0] == base]:
        for pname, p in check_kind(rp, kind, big=True):
            vid = '%s:%s' % (kind, re.sub(r'[^a-z0-9]+', '-', p.split(':')[0][:60].lower()).strip('-')[:50])
            import fnmatch
            if any(fnmatch.fnmatch(vid, s) for s in skip): continue
            return dict(confirmed=True, detail='%s, placement %s: %s' % (kind, pname, p), input=dict(launcher=kind, placement=pname),
                        found_by='bounded native enumeration of placements')
    return dict(confirmed=False, detail='all enumerated placements are enacted by the %s commands' % base)

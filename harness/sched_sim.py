"""native replay / bounded stand-in for C04 and the scheduler part of C08: the real
agent scheduler (Continuous, built with object.__new__, fake queues, recording
`advance`) is driven through histories of arrivals, completions, cancel
requests and iterations of the real loop body of `_schedule_tasks`; the oracle
states the clauses of C04 / C08 at operation granularity.

Everything here runs the code of the tree selected by VERIF_REPO; nothing of the
scheduler is re-implemented except the queues, the clock and `advance`.
"""
import copy
import queue
import random
import sys
import threading
from collections import defaultdict

from .builders import builder, Stub, AttrDict, exec_fragment, mk_sched

STARTED, FAILED, CANCELED = 'AGENT_EXECUTING_PENDING', 'FAILED', 'CANCELED'


class _Q:
    def __init__(self): self.q = []
    def get(self, timeout=None):
        if not self.q: raise queue.Empty()
        return self.q.pop(0)
    def put(self, x): self.q.append(x)


class _Term:
    def is_set(self): return False


class Sim:

    def __init__(self, rp, n_nodes=2, cpn=2, gpn=1, partition_ids=None):
        nodes = [{'index': i, 'name': 'n%d' % i, 'cores': [0.0] * cpn, 'gpus': [0.0] * gpn,
                  'lfs': 0, 'mem': 0} for i in range(n_nodes)]
        self.rp, self.n_nodes, self.cpn, self.gpn = rp, n_nodes, cpn, gpn
        c = mk_sched(rp, nodes, cpn, gpn)
        c._partition_ids = list(partition_ids or [])
        c._waitpool, c._ts_map, c._ts_valid = defaultdict(dict), defaultdict(set), False
        c._active_cnt, c._named_envs = 0, []
        c._queue_sched, c._queue_unsched, c._term = _Q(), _Q(), _Term()
        c._raptor_queues, c._raptor_tasks, c._raptor_lock = dict(), dict(), threading.RLock()
        c._cancel_list, c._cancel_lock = [], threading.RLock()
        c._scheduler_process = True
        c._uid = 'agent.scheduling.0'
        c.slot_status = lambda *a, **k: None
        c.advance = self.advance
        self.c = c
        self.reports = []          # (uid, state, push)
        self.arrived = dict()      # uid -> task
        self.completed = set()
        self.started_at = dict()   # uid -> step
        self.step_no = 0
        self.idle_nodes = copy.deepcopy(nodes)

    # -- the component's advance: record + what the real one does to the task ------
    def advance(self, things, state=None, publish=True, push=False, **kw):
        for t in (things if isinstance(things, list) else [things]):
            if state in (STARTED, FAILED, CANCELED):
                self.reports.append((t['uid'], state, push, copy.deepcopy(t.get('slots'))))
                if state == STARTED:
                    self.started_at[t['uid']] = self.step_no
            if state:
                t['state'] = state

    # -- operations -------------------------------------------------------------------
    def task(self, uid, ranks=1, cpr=1, gpr=0.0, prio=0, **extra):
        td = {'ranks': ranks, 'ranks_per_node': None, 'cores_per_rank': cpr, 'gpus_per_rank': gpr,
              'lfs_per_rank': 0, 'mem_per_rank': 0, 'tags': {}, 'partition': None, 'priority': prio,
              'named_env': None, 'raptor_id': None, 'mode': 'task.executable', 'slots': None}
        td.update(extra)
        return {'uid': uid, 'description': td, 'state': 'AGENT_SCHEDULING_PENDING'}

    def arrive(self, tasks):
        for t in tasks: self.arrived[t['uid']] = t
        self.c.work(tasks)

    def cancel(self, uids):
        # what BaseComponent._control_cb does for a scheduler on 'cancel_tasks'
        with self.c._cancel_lock:
            self.c._cancel_list += list(uids)
        self.c.control_cb('control_pubsub', {'cmd': 'cancel_tasks', 'arg': {'uids': list(uids)}})

    def complete(self, uid):
        self.completed.add(uid)
        self.c._queue_unsched.put(self.arrived[uid])

    def step(self, n=1):
        """n iterations of the real loop body of AgentSchedulingComponent._schedule_tasks"""
        for _ in range(n):
            self.step_no += 1
            term = self.c._term
            env = dict(self=self.c, time=AttrDict(sleep=lambda s: None), resources=self.resources)
            calls = [0]
            def is_set():
                # the loop head of the fragment (module level of the exec'd text) sees
                # "not set" once, then "set"; the drain loops inside the callees see
                # "not set" throughout the iteration
                if sys._getframe(1).f_code.co_name == '<module>':
                    calls[0] += 1
                    return calls[0] > 1
                return False
            term.is_set = is_set
            try:
                exec_fragment(self.rp, 'agent/scheduler/base.py', 'AgentSchedulingComponent._schedule_tasks',
                              'while not self._term.is_set():', env)
            except Exception as e:
                # the loop has no handler of its own: the scheduler process dies here
                self.crashed = 'the scheduling loop raised %r (iteration %d): the scheduler process ends, every waiting task is stranded' % (e, self.step_no)
                return
            self.resources = env['resources']

    resources = True
    crashed = None

    # -- the oracle ---------------------------------------------------------------------
    def where(self, uid):
        w = []
        kinds = [s for u, s, p, sl in self.reports if u == uid]
        w += kinds
        for prio, pool in self.c._waitpool.items():
            if uid in pool: w.append('waiting')
        for item, flag in self.c._queue_sched.q:
            if flag == self.c._SCHEDULE and any(t['uid'] == uid for t in item): w.append('queued')
        for name, ts in self.c._raptor_tasks.items():
            if any(t['uid'] == uid for t in ts): w.append('raptor-backlog')
        return w

    def fits_idle(self, t):
        """reference: does the request fit the idle pilot (no tags, scattered mode)"""
        td = t['description']
        cps = td['cores_per_rank'] or 1
        gps = td['gpus_per_rank']
        if cps > self.cpn or gps > self.gpn: return False
        per_node = self.cpn // cps
        if gps:
            per_node = min(per_node, int(self.gpn // gps))
        return per_node * self.n_nodes >= td['ranks'] and td['ranks'] >= 1

    def check(self):
        probs = []
        if self.crashed:
            return [self.crashed]
        for uid, t in self.arrived.items():
            w = self.where(uid)
            if t['description'].get('raptor_id') and 'raptor' not in ''.join(w) and not w:
                continue
            if len(w) != 1:
                probs.append('%s is %s (expected exactly one of started / waiting / failed / canceled)'
                             % (uid, ' and '.join(w) if w else 'nowhere: lost'))
        for uid, state, push, slots in self.reports:
            if state == STARTED and (not slots or not push):
                probs.append('%s passed on for execution without %s' % (uid, 'a placement' if not slots else 'being pushed'))
        # the count of running tasks the scheduler keeps
        running = [u for u, s, p, sl in self.reports if s == STARTED and u not in self.completed]
        pending_rel = sum(len(x) if isinstance(x, list) else 1 for x in self.c._queue_unsched.q)
        if self.c._active_cnt != len(running) + pending_rel:
            probs.append('the scheduler counts %d placed tasks, %d hold a placement'
                         % (self.c._active_cnt, len(running) + pending_rel))
        # held placements do not overlap and are exactly what is marked busy
        busy = set()
        for u, s, p, sl in self.reports:
            if s == STARTED and (u not in self.completed or any(
                    (t['uid'] if isinstance(t, dict) else None) == u for t in self.c._queue_unsched.q)):
                for slot in sl or []:
                    for core in slot['cores']:
                        key = (slot['node_index'], 'c', core['index'])
                        if key in busy: probs.append('core %s held by two running tasks' % (key,))
                        busy.add(key)
        marked = {(n['index'], 'c', i) for n in self.c.nodes for i, v in enumerate(n['cores']) if v}
        if marked != busy:
            probs.append('cores marked busy %s differ from cores held by running tasks %s' % (sorted(marked), sorted(busy)))
        return probs

    def check_failures(self):
        probs = []
        for uid, state, push, slots in self.reports:
            if state != FAILED: continue
            t = self.arrived[uid]
            exc = str(t.get('exception'))
            if self.fits_idle(t) and ('never be scheduled' in exc or 'does not fit' in exc or 'too many' in exc
                                      or 'bisect' in exc):
                probs.append('%s fits the idle pilot but was failed for lack of resources (%s)' % (uid, exc[:60]))
        return probs

    def check_quiescent(self):
        """all completions delivered and the loop has run: nobody who could run waits"""
        probs = []
        waiting = [t for pool in self.c._waitpool.values() for t in pool.values()]
        running = [u for u, s, p, sl in self.reports if s == STARTED and u not in self.completed]
        if waiting and not running:
            if all(self.fits_idle(t) for t in waiting):
                probs.append('the pilot is idle and %s wait although each fits it' % [t['uid'] for t in waiting])
            for t in waiting:
                if not self.fits_idle(t):
                    probs.append('%s cannot fit even the idle pilot but is kept waiting' % t['uid'])
        if len(waiting) == 1 and running:
            t = waiting[0]
            td = t['description']
            if td['ranks'] == 1 and not td['gpus_per_rank']:
                free = max(sum(1 for v in n['cores'] if v == 0.0) for n in self.c.nodes)
                if free >= (td['cores_per_rank'] or 1):
                    probs.append('%s waits alone although a node has %d free cores' % (t['uid'], free))
        return probs


def _first(probs, hist, n, what):
    return dict(confirmed=True, detail='; '.join(probs[:3]), input=dict(history=hist),
                found_by='%s (%d histories tried)' % (what, n))


def directed(rp):
    """the clauses of C04 / C08 as directed scenarios; returns (name, problems, history)"""
    out = []

    # (b) a task waiting alone is started as soon as enough is released
    s = Sim(rp, 1, 2, 0)
    a, b = s.task('a', cpr=2), s.task('b', cpr=2)
    h = ['arrive a(2 cores) on a 1x2 pilot', 'step', 'arrive b(2 cores)', 'step', 'complete a', 'step', 'step']
    s.arrive([a]); s.step(); s.arrive([b]); s.step()
    p = s.check()
    if s.where('b') != ['waiting']: p.append('b should wait, is %s' % s.where('b'))
    s.complete('a'); s.step(2)
    if s.where('b') != [STARTED]: p.append('b waits alone and a released enough for it, but b is %s after two iterations' % s.where('b'))
    out.append(('waiting-alone-starts-after-release', p + s.check(), h))

    # (b) .. and is failed if it cannot fit even the idle pilot
    for when in ('idle', 'busy'):
        s = Sim(rp, 2, 2, 0)
        h = []
        if when == 'busy':
            s.arrive([s.task('a')]); s.step(); h += ['arrive a', 'step']
        big = s.task('big', ranks=1, cpr=3)
        big2 = s.task('big2', ranks=5, cpr=1)
        s.arrive([big, big2]); s.step(); h += ['arrive big(1x3 cores) big2(5x1 cores) on a 2x2 pilot', 'step']
        if when == 'busy':
            s.complete('a'); s.step(3); h += ['complete a', 'step x3']
        p = s.check()
        for u in ('big', 'big2'):
            if s.where(u) != [FAILED]: p.append('%s cannot fit the idle pilot and should be failed, is %s' % (u, s.where(u)))
        out.append(('too-big-fails-when-%s' % when, p, h))

    # (c) an idle pilot starts at least one waiting task if each fits; (d) fitting tasks are not failed
    s = Sim(rp, 2, 2, 1)
    s.arrive([s.task('x', ranks=2, cpr=2)]); s.step()
    ts = [s.task('w%d' % i, ranks=r, cpr=c, gpr=g) for i, (r, c, g) in enumerate(((2, 2, 0.0), (4, 1, 0.0), (1, 1, 1.0), (2, 1, 1.0)))]
    s.arrive(ts); s.step()
    h = ['arrive x(2x2) filling a 2x2 pilot', 'step', 'arrive w0(2x2) w1(4x1) w2(1x1+gpu) w3(2x1+gpu)', 'step', 'complete x', 'step x2']
    p = s.check()
    s.complete('x'); s.step(2)
    if not any(s.where(t['uid']) == [STARTED] for t in ts):
        p.append('the pilot became idle, every waiting task fits it, none was started: %s' % {t['uid']: s.where(t['uid']) for t in ts})
    out.append(('idle-pilot-starts-a-fitting-waiter', p + s.check() + s.check_failures(), h))

    # (e) a release that lets one of two waiting tasks run starts the one with the higher priority
    for hi_first in (True, False):
        s = Sim(rp, 1, 2, 0)
        s.arrive([s.task('x', cpr=2)]); s.step()
        lo, hi = s.task('lo', cpr=2, prio=0), s.task('hi', cpr=2, prio=5)
        s.arrive([hi, lo] if hi_first else [lo, hi]); s.step()
        s.complete('x'); s.step(2)
        h = ['arrive x(2 cores) on 1x2', 'step', 'arrive %s (2 cores each, priority 0 / 5)' % ('hi, lo' if hi_first else 'lo, hi'), 'step', 'complete x', 'step x2']
        p = s.check()
        if s.where('hi') != [STARTED] or s.where('lo') != ['waiting']:
            p.append('after the release hi is %s and lo is %s (expected hi started, lo waiting)' % (s.where('hi'), s.where('lo')))
        out.append(('priority-%s' % ('hi-first' if hi_first else 'lo-first'), p, h))

    # reported at most once: a request with ranks <= 0
    s = Sim(rp, 1, 2, 0)
    s.arrive([s.task('z', ranks=0), s.task('ok')]); s.step()
    p = s.check()
    if s.where('z') != [FAILED]: p.append('z (ranks 0) should be failed once, is %s' % s.where('z'))
    out.append(('invalid-ranks-fail-once', p, ['arrive z(ranks=0), ok', 'step']))

    # a task that arrives with its placement attached keeps the resources for itself
    s = Sim(rp, 1, 2, 0)
    slot = [{'node_index': 0, 'node_name': 'n0', 'cores': [{'index': 0, 'occupation': 1.0}, {'index': 1, 'occupation': 1.0}],
             'gpus': [], 'lfs': 0, 'mem': 0}]
    s.arrive([s.task('pre', cpr=2, slots=slot, partition=None)]); s.step()
    s.arrive([s.task('late', cpr=2)]); s.step()
    h = ['arrive pre (2 cores, placement [n0: 0,1] attached) on 1x2', 'step', 'arrive late(2 cores)', 'step', 'complete pre', 'step x2']
    p = s.check()
    if s.where('late') != ['waiting']: p.append('late should wait for the cores pre holds, is %s' % s.where('late'))
    s.complete('pre'); s.step(2)
    if s.where('late') != [STARTED]: p.append('late should start after pre released, is %s' % s.where('late'))
    out.append(('preplaced-task-holds-its-cores', p + s.check() + s.check_failures(), h))

    # C08: cancel takes named waiting tasks out of the pool (any priority), nothing else
    for named in (['w1'], ['w0', 'w2'], ['nope'], ['w2', 'x']):
        s = Sim(rp, 1, 2, 0)
        s.arrive([s.task('x', cpr=2)]); s.step()
        ws = [s.task('w%d' % i, cpr=2, prio=i) for i in range(3)]
        s.arrive(ws); s.step()
        s.cancel(named); s.step()
        h = ['arrive x(2 cores) on 1x2', 'step', 'arrive w0 w1 w2 (2 cores, priorities 0 1 2)', 'step', 'cancel %s' % named, 'step', 'complete x', 'step x2']
        p = s.check()
        for t in ws:
            want = [CANCELED] if t['uid'] in named else ['waiting']
            if s.where(t['uid']) != want: p.append('%s is %s after cancel %s (expected %s)' % (t['uid'], s.where(t['uid']), named, want))
        if s.where('x') != [STARTED]: p.append('running x is %s after cancel' % s.where('x'))
        s.complete('x'); s.step(2)
        left = [t['uid'] for t in ws if t['uid'] not in named]
        if left and not any(s.where(u) == [STARTED] for u in left):
            p.append('after cancel %s and the release none of the bystanders %s started' % (named, left))
        for u in named:
            if u in s.arrived and u != 'x' and s.where(u) != [CANCELED]:
                p.append('canceled %s is %s later' % (u, s.where(u)))
        out.append(('cancel-waiting-%s' % '+'.join(named), p + s.check(), h))

    # C08: a cancel that is queued behind / ahead of the task
    for order in ('cancel-first', 'task-first'):
        s = Sim(rp, 1, 2, 0)
        s.arrive([s.task('x', cpr=2)]); s.step()
        w = s.task('w', cpr=2)
        if order == 'cancel-first':
            s.cancel(['w']); s.arrive([w])
        else:
            s.arrive([w]); s.cancel(['w'])
        s.step(2)
        p = s.check()
        if s.where('w') != [CANCELED]: p.append('w is %s (expected canceled once), order %s' % (s.where('w'), order))
        out.append(('cancel-%s' % order, p, ['arrive x(2 cores) on 1x2', 'step', order + ' w', 'step x2']))
    # a task that needs a named environment waits until that is registered, and is
    # not lost by the wait pool scans in between
    s = Sim(rp, 1, 2, 0)
    s.arrive([s.task('x', cpr=2)]); s.step()
    s.arrive([s.task('e', cpr=1, named_env='ve1'), s.task('w', cpr=2)]); s.step()
    p = s.check()
    s.complete('x'); s.step(2)
    if s.where('e') != ['waiting']: p.append('e needs environment ve1 (not registered): should wait, is %s' % s.where('e'))
    if s.where('w') != [STARTED]: p.append('w should start after the release, is %s' % s.where('w'))
    s.c.control_cb('control_pubsub', {'cmd': 'register_named_env', 'arg': {'env_name': 've1'}})
    s.complete('w'); s.step(3)
    if s.where('e') != [STARTED]: p.append('e should start once ve1 is registered and cores are free, is %s' % s.where('e'))
    out.append(('named-env-waiter-survives-scans', p + s.check(),
                ['arrive x(2 cores) on 1x2', 'step', 'arrive e(1 core, named_env ve1), w(2 cores)', 'step', 'complete x', 'step x2',
                 'register_named_env ve1', 'complete w', 'step x3']))

    # a task naming a partition (PRTE) on an otherwise idle pilot
    s = Sim(rp, 2, 2, 0, partition_ids=[0, 1])
    s.arrive([s.task('part', cpr=1, partition=0)]); s.step(2)
    p = s.check() + s.check_failures()
    if s.where('part') != [STARTED]: p.append('part (1 core, partition 0 of [0, 1]) on an idle 2x2 pilot is %s' % s.where('part'))
    out.append(('partition-task-on-idle-pilot', p, ['pilot 2x2, partition ids [0, 1]', 'arrive part(1 core, partition=0)', 'step x2']))
    return out


def random_histories(rp, n_hist=120, seed=20240917):
    rnd = random.Random(seed)
    for k in range(n_hist):
        nn, cpn = rnd.choice(((1, 2), (2, 2), (2, 3), (1, 4)))
        s = Sim(rp, nn, cpn, 1)
        hist = ['pilot %dx%d cores, 1 gpu per node' % (nn, cpn)]
        uid = 0
        for _ in range(rnd.randint(4, 14)):
            op = rnd.choice(('arrive', 'arrive', 'step', 'step', 'complete', 'cancel'))
            if op == 'arrive':
                ts = []
                for _ in range(rnd.randint(1, 3)):
                    t = s.task('t%02d' % uid, ranks=rnd.choice((1, 1, 2, 3)), cpr=rnd.choice((1, 1, 2, cpn)),
                               gpr=rnd.choice((0.0, 0.0, 0.0, 1.0)), prio=rnd.choice((0, 0, 1, 2)))
                    uid += 1
                    ts.append(t)
                s.arrive(ts)
                hist.append('arrive ' + ', '.join('%s(%dx%d c, %s g, prio %d)' % (t['uid'], t['description']['ranks'],
                            t['description']['cores_per_rank'], t['description']['gpus_per_rank'], t['description']['priority']) for t in ts))
            elif op == 'step':
                s.step(); hist.append('step')
            elif op == 'complete':
                run = [u for u, st, p, sl in s.reports if st == STARTED and u not in s.completed]
                if run:
                    u = rnd.choice(run); s.complete(u); hist.append('complete ' + u)
            else:
                if s.arrived:
                    us = rnd.sample(sorted(s.arrived), min(len(s.arrived), rnd.randint(1, 2)))
                    s.cancel(us); hist.append('cancel %s' % us)
                    s.step(); hist.append('step')
                    for u in us:
                        w = s.where(u)
                        if w == ['waiting']:
                            yield ['%s was named in a cancel request while waiting and still waits after the next iteration' % u], hist, k
            if op in ('step',):
                p = s.check() + s.check_failures()
                if p:
                    yield p, hist, k
                    break
        # drain: complete everything, let the loop run
        for _ in range(12):
            s.step(2)
            run = [u for u, st, p, sl in s.reports if st == STARTED and u not in s.completed]
            p = s.check() + s.check_failures() + s.check_quiescent()
            if p:
                yield p, hist + ['drain'], k
                break
            if not run:
                break
            s.complete(run[0]); hist.append('complete ' + run[0])
        else:
            continue
        # (tasks that cannot fit even the idle pilot are the business of check_quiescent above)
        waiting = [t['uid'] for pool in s.c._waitpool.values() for t in pool.values() if s.fits_idle(t)]
        if waiting:
            yield ['after every running task completed %s still wait' % waiting], hist + ['drain'], k
    return


def intake_triage(rp):
    """the real `for task in data:` statement of _schedule_incoming on one bulk of every
    kind of task: each task is failed, queued for placement here, or set aside for its
    raptor master - exactly one of the three"""
    import collections
    from .builders import exec_fragment, Stub
    from radical.pilot.agent.scheduler.base import AgentSchedulingComponent as ASC
    import radical.pilot.agent.scheduler.base as mod
    c = object.__new__(ASC)
    c._log, c._prof = Stub(), Stub()
    failed = []
    c._fail_task = lambda t, e, d: failed.append(t['uid'])
    c._set_tuple_size = lambda t: t.__setitem__('tuple_size', (1, 1, 0.0))
    def mk(uid, **kw):
        d = dict(ranks=1, cores_per_rank=1, gpus_per_rank=0.0, priority=0, mode='task.executable', raptor_id=None)
        seen = kw.pop('raptor_seen', None)
        d.update(kw)
        t = {'uid': uid, 'description': d}
        if seen is not None: t['raptor_seen'] = seen
        return t
    data = [mk('plain'), mk('prio', priority=2), mk('bad', ranks=0), mk('rap', raptor_id='m1', mode='task.function'),
            mk('rap-seen', raptor_id='m1', mode='task.function', raptor_seen=True),
            mk('worker', raptor_id='m1', mode=mod.RAPTOR_WORKER), mk('rap-any', raptor_id='*', mode='task.eval', priority=1)]
    env = dict(self=c, data=data, to_schedule=collections.defaultdict(list), to_raptor=collections.defaultdict(list),
               RAPTOR_WORKER=mod.RAPTOR_WORKER, ValueError=ValueError)
    try:
        exec_fragment(rp, 'agent/scheduler/base.py', 'AgentSchedulingComponent._schedule_incoming', 'for task in data:', env)
    except Exception as e:
        return ('the intake statement raised %r' % e, dict(bulk=[t['uid'] for t in data]))
    here = {t['uid']: p for p, ts in env['to_schedule'].items() for t in ts}
    n_here = collections.Counter(t['uid'] for ts in env['to_schedule'].values() for t in ts)
    rap = collections.Counter(t['uid'] for ts in env['to_raptor'].values() for t in ts)
    want = dict(plain='here', prio='here', bad='failed', rap='raptor', worker='here')
    want['rap-seen'] = 'here'; want['rap-any'] = 'raptor'
    for uid, w in want.items():
        got = [k for k, n in (('here', n_here[uid]), ('raptor', rap[uid]), ('failed', failed.count(uid))) for _ in range(n)]
        if got != [w]:
            return ('task %s of the bulk: expected %s, got %s (queued for placement %d times, set aside for raptor %d times, failed %d times)'
                    % (uid, w, got or 'nothing', n_here[uid], rap[uid], failed.count(uid)),
                    dict(bulk=[dict(uid=t['uid'], **{k: t['description'][k] for k in ('ranks', 'priority', 'mode', 'raptor_id')}) for t in data]))
    if here.get('prio') != 2 or here.get('plain') != 0:
        return ('tasks are queued under priorities %s, described priorities: plain 0, prio 2' % here, dict(bulk=[t['uid'] for t in data]))
    return None


KEYS = ['agent/scheduler/base.py:AgentSchedulingComponent._schedule_incoming#cancel',
        'agent/scheduler/base.py:AgentSchedulingComponent._schedule_incoming#intake',
        'agent/scheduler/base.py:AgentSchedulingComponent._schedule_incoming#place',
        'agent/scheduler/base.py:AgentSchedulingComponent._schedule_incoming#place-prio',
        'agent/scheduler/base.py:AgentSchedulingComponent._schedule_incoming#to-pool',
        'agent/scheduler/base.py:AgentSchedulingComponent._set_tuple_size',
        'utils/component.py:BaseComponent.is_canceled#scheduler',
        'agent/scheduler/base.py:AgentSchedulingComponent._schedule_waitpool',
        'agent/scheduler/base.py:AgentSchedulingComponent._schedule_tasks#loop',
        'agent/scheduler/base.py:AgentSchedulingComponent._fail_task',
        'agent/scheduler/base.py:AgentSchedulingComponent.work',
        'agent/scheduler/base.py:AgentSchedulingComponent.control_cb#cancel',
        'C04.scheduler-histories']


@builder(*KEYS)
def sched_histories(case, rp, known=None):
    if known is None:
        # scenarios recorded as open findings are not evidence against another
        # obligation: leave them out of the replay
        import json, os
        kf = json.load(open(os.path.join(os.path.dirname(os.path.dirname(os.path.abspath(__file__))), 'known_findings.json')))
        known = [f['case'].split(':', 1)[1] for f in kf.get('findings', [])
                 if f.get('status') != 'fixed' and f.get('bounded') == 'sched-histories' and f.get('case', '').startswith('directed:')]
    p = intake_triage(rp)
    if p:
        return dict(confirmed=True, detail=p[0], input=p[1], found_by='native intake triage of one bulk (real loop statement)')
    n = 0
    for name, probs, hist in directed(rp):
        n += 1
        if probs and not any(name == k for k in known):
            return _first(probs, hist, n, 'directed native scheduler scenario %s' % name)
    for probs, hist, k in random_histories(rp):
        return _first(probs, hist, n + k + 1, 'bounded native scheduler histories')
    return dict(confirmed=False, detail='%d directed scenarios and 120 random scheduler histories hold natively' % n)

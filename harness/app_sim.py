"""C01 / C03, bounded stand-in and native replay for the application-level
placement (resource_config.Node / NodeList of the tree selected by VERIF_REPO):
histories of find_slots / release_slots on node lists as the resource manager
hands them out (node indices with gaps, blocked cells, lfs / mem figures); after
every step the occupation of every cell equals the sum of the shares of the
placements held on it, never exceeds one, blocked cells are never handed out and
a refused request leaves everything as it was."""
import random

from .builders import builder

EPS = 1e-9


def mk_list(rp, indices, n_cores, n_gpus, lfs, mem, down=()):
    from radical.pilot.resource_config import Node, NodeList
    nodes = []
    for ix in indices:
        cores = [None if (ix, 'c', c) in down else 0.0 for c in range(n_cores)]
        gpus  = [None if (ix, 'g', g) in down else 0.0 for g in range(n_gpus)]
        nodes.append(Node({'name': 'n%03d' % ix, 'index': ix, 'cores': cores, 'gpus': gpus, 'lfs': lfs, 'mem': mem}))
    nl = NodeList(nodes=nodes)
    nl.verify()
    return nl


def snapshot(nl):
    return [(n.index, [c.occupation for c in n.cores], [g.occupation for g in n.gpus], n.lfs, n.mem) for n in nl.nodes]


def check(nl, held, base, what):
    """held: list of slot lists; base: snapshot of the idle list"""
    probs = []
    want = {ix: ([0.0 if c is not None else None for c in cs], [0.0 if g is not None else None for g in gs], lfs, mem)
            for ix, cs, gs, lfs, mem in base}
    for slots in held:
        for s in slots:
            if s.node_index not in want:
                probs.append('%s: a held slot names node %s which is not in the list' % (what, s.node_index)); continue
            cs, gs, lfs, mem = want[s.node_index]
            for kind, vec, ros in (('core', cs, s.cores), ('gpu', gs, s.gpus)):
                for ro in ros:
                    if ro.index >= len(vec) or vec[ro.index] is None:
                        probs.append('%s: %s %d of node %d is blocked or missing but was handed out' % (what, kind, ro.index, s.node_index)); continue
                    vec[ro.index] += ro.occupation
            want[s.node_index] = (cs, gs, lfs - s.lfs, mem - s.mem)
    for n in nl.nodes:
        cs, gs, lfs, mem = want[n.index]
        for kind, vec, cells in (('core', cs, n.cores), ('gpu', gs, n.gpus)):
            for i, cell in enumerate(cells):
                if vec[i] is None:
                    if cell.occupation is not None: probs.append('%s: blocked %s %d of node %d now shows %s' % (what, kind, i, n.index, cell.occupation))
                    continue
                if vec[i] > 1 + EPS:
                    probs.append('%s: %s %d of node %d is held to %.2f by the placements in use (more than the whole)' % (what, kind, i, n.index, vec[i]))
                if cell.occupation is None or abs(cell.occupation - vec[i]) > EPS:
                    probs.append('%s: %s %d of node %d shows occupation %s, the placements in use hold %.2f of it' % (what, kind, i, n.index, cell.occupation, vec[i]))
        if n.lfs != lfs or n.mem != mem:
            probs.append('%s: node %d shows lfs %s mem %s, expected %s / %s from the placements in use' % (what, n.index, n.lfs, n.mem, lfs, mem))
        if lfs < 0 or mem < 0:
            probs.append('%s: node %d: more lfs / mem held than the node has' % (what, n.index))
    return probs


def run_history(rp, layout, ops):
    from radical.pilot.resource_config import RankRequirements
    nl = mk_list(rp, *layout)
    base = snapshot(nl)
    held, probs = [], []
    for n, op in enumerate(ops):
        what = 'step %d %s' % (n, op)
        try:
            if op[0] == 'find':
                _, n_slots, nc, co, ng, go, lfs, mem = op
                before = snapshot(nl)
                rr = RankRequirements(n_cores=nc, core_occupation=co, n_gpus=ng, gpu_occupation=go, lfs=lfs, mem=mem)
                try:
                    slots = nl.find_slots(rr, n_slots)
                except (ValueError, RuntimeError):
                    slots = None                      # refused by _assert_rr: can never fit
                if slots is None:
                    if snapshot(nl) != before:
                        probs.append('%s: refused, but the node list changed' % what)
                else:
                    if len(slots) != n_slots: probs.append('%s: %d slots returned' % (what, len(slots)))
                    for s in slots:
                        if len(s.cores) != nc or len(s.gpus) != ng:
                            probs.append('%s: slot with %d cores %d gpus' % (what, len(s.cores), len(s.gpus)))
                    held.append(slots)
            elif op[0] == 'release' and held:
                slots = held.pop(op[1] % len(held))
                nl.release_slots(slots)
        except Exception as e:
            probs.append('%s: raised %r' % (what, e))
        probs += check(nl, held, base, what)
        if probs: break
    return probs


def histories(seed, n):
    rnd = random.Random(seed)
    for k in range(n):
        n_nodes = rnd.randint(1, 4)
        indices = sorted(rnd.sample(range(0, 7), n_nodes)) if rnd.random() < 0.6 else list(range(n_nodes))
        nc, ng = rnd.randint(1, 4), rnd.randint(0, 2)
        down = set()
        if rnd.random() < 0.3:
            down.add((rnd.choice(indices), 'c', rnd.randrange(nc)))
        if ng and rnd.random() < 0.3:
            down.add((rnd.choice(indices), 'g', rnd.randrange(ng)))
        layout = (indices, nc, ng, rnd.choice([0, 10, 100]), rnd.choice([0, 64]), down)
        ops = []
        for _ in range(rnd.randint(2, 12)):
            if rnd.random() < 0.6:
                ops.append(('find', rnd.randint(1, 4), rnd.randint(1, nc), rnd.choice([1.0, 1.0, 0.5, 0.25]),
                            rnd.randint(0, ng), rnd.choice([1.0, 0.5]), rnd.choice([0, 0, 5, 10]), rnd.choice([0, 0, 32])))
            else:
                ops.append(('release', rnd.randint(0, 5)))
        yield k, layout, ops


DIRECTED = [
    ('release on a node list with an index gap', ([0, 2, 3], 2, 0, 10, 10, set()),
     [('find', 1, 2, 1.0, 0, 1.0, 0, 0), ('find', 1, 2, 1.0, 0, 1.0, 0, 0), ('release', 1), ('find', 1, 2, 1.0, 0, 1.0, 0, 0), ('find', 1, 2, 1.0, 0, 1.0, 0, 0)]),
    ('refused multi-node request is rolled back node by node', ([0, 1], 2, 0, 10, 10, set()),
     [('find', 1, 1, 1.0, 0, 1.0, 0, 0), ('find', 4, 1, 1.0, 0, 1.0, 0, 0), ('find', 3, 1, 1.0, 0, 1.0, 0, 0)]),
    ('refused request on a list with a gap', ([1, 4], 2, 1, 10, 10, set()),
     [('find', 1, 2, 1.0, 0, 1.0, 0, 0), ('find', 2, 1, 1.0, 1, 1.0, 5, 0), ('find', 1, 1, 0.5, 0, 1.0, 0, 0)]),
    ('shared cores', ([0], 2, 1, 0, 0, set()),
     [('find', 2, 1, 0.5, 0, 1.0, 0, 0), ('find', 2, 1, 0.5, 1, 0.5, 0, 0), ('release', 0), ('find', 1, 2, 0.5, 0, 1.0, 0, 0)]),
    ('blocked gpu', ([0, 1], 1, 2, 0, 0, {(0, 'g', 0)}),
     [('find', 2, 1, 1.0, 1, 1.0, 0, 0), ('find', 1, 1, 1.0, 1, 0.5, 0, 0), ('release', 0)]),
    ('blocked core', ([0, 1], 2, 0, 0, 0, {(0, 'c', 0)}),
     [('find', 3, 1, 1.0, 0, 1.0, 0, 0), ('find', 1, 1, 1.0, 0, 1.0, 0, 0), ('release', 0)]),
]


def run_all(rp, tier='quick', seed=0):
    viol, n = [], 0
    for name, layout, ops in DIRECTED:
        n += 1
        p = run_history(rp, layout, ops)
        if p: viol.append(dict(id='directed:' + name.replace(' ', '-'), detail='%s: %s' % (name, '; '.join(p[:3])),
                               input=dict(node_indices=layout[0], cores=layout[1], gpus=layout[2], history=ops)))
    n_hist = 600 if tier == 'quick' else 6000
    for k, layout, ops in histories(771 + seed, n_hist):
        p = run_history(rp, layout, ops)
        if p:
            viol.append(dict(id='random-%04d' % k, detail='; '.join(p[:3]),
                             input=dict(node_indices=layout[0], cores=layout[1], gpus=layout[2], lfs=layout[3], mem=layout[4],
                                        blocked=sorted(layout[5]), history=ops)))
            if len(viol) > 5: break
    return dict(cases=n + n_hist, violations=viol,
                bound='%d directed + %d random histories (<= 12 operations) of find_slots / release_slots on node lists of 1..4 nodes '
                      '(indices with gaps), 1..4 cores, 0..2 GPUs, shares 0.25 / 0.5 / 1, lfs / mem, blocked cores / GPUs' % (n, n_hist))


@builder('resource_config.py:Node.find_slot', 'resource_config.py:Node.allocate_slot', 'resource_config.py:Node.deallocate_slot',
         'resource_config.py:Node._get_core_index', 'resource_config.py:Node._get_gpu_index', 'resource_config.py:NodeList._get_node',
         'resource_config.py:NodeList.release_slots#give-back', 'resource_config.py:NodeList.find_slots#roll-back',
         'resource_config.py:NodeList.find_slots#collect')
def app_replay(case, rp):
    r = run_all(rp)
    for v in r['violations']:
        return dict(confirmed=True, detail=v['detail'], input=v['input'], found_by='bounded native application-level placement histories')
    return dict(confirmed=False, detail='%d application-level placement histories hold natively' % r['cases'])

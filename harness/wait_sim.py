"""C15, bounded stand-in: TaskManager.wait_tasks and PilotManager.wait_pilots of the
tree selected by VERIF_REPO, called in a thread on manager objects that hold
plain stand-in entities; a second thread moves the entities' states forward; the
call must return shortly after every entity reached an awaited or a final state,
must not return before, must honour the timeout, and must report the states the
entities really have."""
import itertools
import threading
import time

from .builders import builder, Stub


class Ent:
    def __init__(self, uid, state): self.uid, self.state = uid, state


def _mk_tmgr(rp, ents):
    from radical.pilot.task_manager import TaskManager
    m = object.__new__(TaskManager)
    m._log, m._rep, m._prof = Stub(), Stub(), Stub()
    m._tasks = {e.uid: e for e in ents}
    m._tasks_lock = threading.RLock()
    m._terminate = threading.Event()
    return m


def _mk_pmgr(rp, ents):
    from radical.pilot.pilot_manager import PilotManager
    m = object.__new__(PilotManager)
    m._log, m._rep, m._prof = Stub(), Stub(), Stub()
    m._pilots = {e.uid: e for e in ents}
    m._pilots_lock = threading.RLock()
    m._terminate = threading.Event()
    return m


def _run(call, mover, limit):
    box = {}
    def target():
        try: box['ret'] = call()
        except Exception as e: box['exc'] = e
    th = threading.Thread(target=target, daemon=True)
    t0 = time.time()
    th.start()
    mover()
    th.join(limit)
    return box, th.is_alive(), time.time() - t0


def scenarios(kind, quick=False):
    if kind == 'task':
        start, mid = 'TMGR_SCHEDULING', 'AGENT_EXECUTING'
        awaited = ['DONE', 'AGENT_EXECUTING', ['DONE', 'FAILED'], None, ['AGENT_EXECUTING', 'DONE']]
    else:
        start, mid = 'PMGR_LAUNCHING', 'PMGR_ACTIVE'
        awaited = ['DONE', 'PMGR_ACTIVE', ['DONE', 'FAILED'], None, ['PMGR_ACTIVE', 'CANCELED']]
    ends = ['DONE', 'FAILED', 'CANCELED', mid]
    pairs = list(itertools.product(ends, repeat=2))
    if quick:
        # every awaited-state shape with six end-state pairs (all-done, both stay in the
        # intermediate state, mixed)
        pairs = [('DONE', 'DONE'), (mid, mid), ('DONE', mid), ('FAILED', 'CANCELED'), (mid, 'FAILED'), ('CANCELED', mid)]
    for aw in awaited:
        for e1, e2 in pairs:
            yield aw, start, mid, (e1, e2)


def check_kind(rp, kind, quick=True):
    probs, n = [], 0
    mk = _mk_tmgr if kind == 'task' else _mk_pmgr
    final = ('DONE', 'FAILED', 'CANCELED')
    order = {'task': None}
    import radical.pilot.states as rps
    val = rps._task_state_value if kind == 'task' else rps._pilot_state_value
    for aw, start, mid, ends in scenarios(kind, quick):
        n += 1
        ents = [Ent('%s.%04d' % (kind, i), start) for i in range(2)]
        m = mk(rp, ents)
        awl = ['DONE', 'FAILED', 'CANCELED'] if aw is None else (aw if isinstance(aw, list) else [aw])
        def reached(state):
            # awaited, or final, or (tasks) past the earliest awaited state
            if state in awl or state in final: return True
            if kind == 'task': return val(state) >= min(val(s) for s in awl)
            return False
        should_return = all(reached(e) for e in ends)
        def mover():
            time.sleep(0.15)
            for e, end in zip(ents, ends):
                if end != mid: e.state = mid
            time.sleep(0.05)
            for e, end in zip(ents, ends): e.state = end
        uids = [e.uid for e in ents]
        if kind == 'task': call = lambda: m.wait_tasks(uids=uids, state=aw, timeout=None if should_return else 0.8)
        else:              call = lambda: m.wait_pilots(uids=uids, state=aw, timeout=None if should_return else 0.8)
        box, alive, dt = _run(call, mover, 3.0)
        m._terminate.set()
        what = 'wait_%ss(state=%r), entities end %s' % (kind, aw, list(ends))
        if 'exc' in box:
            probs.append('%s: raised %r' % (what, box['exc'])); break
        if alive:
            probs.append('%s: still blocked %.1f s after %s' % (what, dt, 'every entity reached an awaited or final state' if should_return else 'the timeout of 0.8 s')); break
        if should_return and dt < 0.15:
            probs.append('%s: returned after %.2f s, before the entities reached their states' % (what, dt)); break
        if not should_return and dt < 0.75:
            probs.append('%s: returned after %.2f s although an entity never reached an awaited or final state and the timeout is 0.8 s' % (what, dt)); break
        ret = box.get('ret')
        # the entities pass through `mid` on their way: a call that is satisfied there may report it
        early = all(reached(mid) for e in ends)
        ok = len(ret or []) == len(ends) and all(r == e or (early and r == mid) for r, e in zip(ret or [], ends))
        if not ok:
            probs.append('%s: reports states %r, the entities are in %r' % (what, ret, list(ends))); break
    return probs, n


def run_all(rp, tier='quick'):
    viol, n = [], 0
    for kind in ('task', 'pilot'):
        p, k = check_kind(rp, kind, quick=(tier == 'quick'))
        n += k
        for x in p:
            viol.append(dict(id='wait_%ss' % kind, detail=x, input=dict(call='wait_%ss' % kind)))
    return dict(cases=n, violations=viol,
                bound='%d scenarios: 5 awaited-state shapes x 16 end-state pairs of two entities, per manager (quick: 6 end-state pairs per shape); '
                      'a second thread moves the entities; returns are timed with 0.1 s polls' % n)


@builder('task_manager.py:TaskManager.wait_tasks', 'pilot_manager.py:PilotManager.wait_pilots', 'task_manager.py:TaskManager.wait_tasks#threshold')
def wait_replay(case, rp):
    r = run_all(rp)
    for v in r['violations']:
        return dict(confirmed=True, detail=v['detail'], input=v['input'], found_by='bounded native wait scenarios')
    return dict(confirmed=False, detail='%d wait scenarios hold natively' % r['cases'])

"""native replay / bounded stand-in for the Backfilling client scheduler (C12):
histories of pilot additions / removals / state notifications, task submissions
and task state notifications on the real Backfilling object."""
import random
import threading as mt

from .builders import builder, Stub, _Sess, rr_cmd

FWD = 'TMGR_STAGING_INPUT_PENDING'


def mk_bf(rp):
    from radical.pilot.tmgr.scheduler.backfilling import Backfilling
    s = object.__new__(Backfilling)
    s._log, s._prof = Stub(), Stub()
    s._pilots_lock = mt.RLock(); s._tasks_lock = mt.RLock()
    s._pilots, s._early, s._tasks = dict(), dict(), dict()
    s._tmgr = 'tmgr.0000'
    s._session = _Sess()
    s._configure()
    s.fwd = list()
    s.probs = list()
    real_assign = s._assign_pilot
    import radical.pilot.tmgr.scheduler.backfilling as bfm
    import radical.pilot.states as rps
    lo, hi = bfm._BF_START_VAL, bfm._BF_STOP_VAL
    def assign(task, pilot):
        # the moment of binding: the property speaks about the pilot as it is now
        pid = pilot['uid']
        e = s._pilots.get(pid)
        info = (e or {}).get('info') or {}
        cores = task['description']['ranks'] * task['description']['cores_per_rank']
        used_before = info.get('used', 0) - cores       # `used` was raised just before the call
        if pid not in s._pids: s.probs.append('%s bound to %s which is not among the added pilots %s' % (task['uid'], pid, s._pids))
        elif e.get('role') != 'added': s.probs.append('%s bound to %s whose role is %s' % (task['uid'], pid, e.get('role')))
        elif not (lo <= rps._pilot_state_value(e['state']) <= hi):
            s.probs.append('%s bound to %s in state %s (not eligible)' % (task['uid'], pid, e['state']))
        elif pid in s.truth and not (lo <= rps._pilot_state_value(s.truth[pid]) <= hi):
            s.probs.append('%s bound to %s, which has reached state %s (a late notification of an earlier state moved the scheduler\'s view back to %s)'
                           % (task['uid'], pid, s.truth[pid], e['state']))
        elif used_before >= info['hwm']:
            s.probs.append('%s bound to %s which was already at its high-water mark (%d cores used, mark %d)'
                           % (task['uid'], pid, used_before, info['hwm']))
        return real_assign(task, pilot)
    s._assign_pilot = assign
    s.truth = dict()          # pid -> the furthest state any notification has reported
    def advance(things, state=None, **kw):
        for t in (things if isinstance(things, list) else [things]):
            s.fwd.append((t['uid'], t.get('pilot'), state))
    s.advance = advance
    return s


def run_history(rp, ops):
    s = mk_bf(rp)
    tasks, n = dict(), [0]
    added = set()
    for op in ops:
        try:
            if op[0] == 'add':               # ('add', pid, cores, state)
                import radical.pilot.states as rps
                if op[1] not in s.truth or rps._pilot_state_value(op[3]) > rps._pilot_state_value(s.truth[op[1]]):
                    s.truth[op[1]] = op[3]
                rr_cmd(s, 'add_pilots', pilots=[{'uid': op[1], 'state': op[3], 'description': {'cores': op[2]}}])
                added.add(op[1])
            elif op[0] == 'remove':
                if op[1] in added:
                    rr_cmd(s, 'remove_pilots', pids=[op[1]]); added.discard(op[1])
            elif op[0] == 'pstate':          # ('pstate', pid, state)
                import radical.pilot.states as rps
                # notifications may arrive late and out of order (C14): the scheduler's view
                # must not move backwards; `truth` is the furthest state reported so far
                if op[1] in s._pilots:
                    t0 = s.truth.get(op[1], 'NEW')
                    if t0 in rps.FINAL and op[2] in rps.FINAL and op[2] != t0:
                        continue              # two contradicting final states: refused by design (ValueError), not part of C12
                    if t0 not in rps.FINAL and rps._pilot_state_value(op[2]) > rps._pilot_state_value(t0):
                        s.truth[op[1]] = op[2]
                    s._update_pilot_states([{'uid': op[1], 'state': op[2]}])
            elif op[0] == 'submit':          # ('submit', [cores, ...])
                batch = []
                for c in op[1]:
                    n[0] += 1
                    t = {'uid': 'task.%04d' % n[0], 'state': 'TMGR_SCHEDULING',
                         'description': {'ranks': 1, 'cores_per_rank': c}}
                    tasks[t['uid']] = t
                    batch.append(t)
                s.work(batch)
            elif op[0] == 'finish':          # ('finish', k): the k oldest forwarded, unfinished tasks are done
                run = [u for u, p, st in s.fwd if st == FWD and tasks[u].get('state') != 'DONE'][:op[1]]
                # a task reports several states after execution: the scheduler hears of each
                for st_ in ('AGENT_STAGING_OUTPUT_PENDING', 'DONE'):
                    for u in run: tasks[u]['state'] = st_
                    if run: s.update_tasks([tasks[u] for u in run])
        except Exception as e:
            s.probs.append('%s raised %r' % (op, e))
            break
    fw = dict()
    for u, p, st in s.fwd:
        if st == FWD: fw[u] = fw.get(u, 0) + 1
    for u, k in fw.items():
        if k > 1: s.probs.append('%s forwarded %d times' % (u, k))
    for u, t in tasks.items():
        if (u in fw) == (u in s._wait_pool):
            s.probs.append('%s is %s' % (u, 'forwarded and still waiting' if u in fw else 'neither waiting nor forwarded: lost'))
    # usage returns to zero when all tasks of a pilot have finished
    for pid, e in s._pilots.items():
        info = e.get('info')
        if not info: continue
        open_ = [u for u in info['tasks'] if tasks[u].get('state') != 'DONE']
        if not open_ and info['used'] != 0:
            s.probs.append('all tasks of %s have finished but its usage figure is %s' % (pid, info['used']))
    return s.probs


DIRECTED = [
    ('fill-to-the-mark-then-more', [('add', 'p1', 2, 'PMGR_ACTIVE'), ('submit', [1, 1, 1, 1]), ('submit', [1, 1]), ('finish', 1), ('finish', 5)]),
    ('pilot-not-active-yet', [('add', 'p1', 4, 'PMGR_LAUNCHING'), ('submit', [1, 1]), ('pstate', 'p1', 'PMGR_ACTIVE'), ('finish', 2)]),
    ('pilot-gone', [('add', 'p1', 2, 'PMGR_ACTIVE'), ('submit', [1]), ('pstate', 'p1', 'DONE'), ('submit', [1, 1]), ('finish', 1)]),
    ('late-notification-after-the-pilot-failed', [('add', 'p1', 2, 'PMGR_ACTIVE'), ('pstate', 'p1', 'FAILED'), ('pstate', 'p1', 'PMGR_ACTIVE'), ('submit', [1, 1])]),
    ('removed-pilot-gets-nothing', [('add', 'p1', 2, 'PMGR_ACTIVE'), ('add', 'p2', 2, 'PMGR_ACTIVE'), ('remove', 'p1'), ('submit', [1, 1, 1, 1, 1, 1]), ('finish', 6)]),
    ('two-pilots-balance', [('add', 'p1', 1, 'PMGR_ACTIVE'), ('add', 'p2', 4, 'PMGR_ACTIVE'), ('submit', [1] * 12), ('finish', 3), ('finish', 9)]),
    ('big-task-last', [('add', 'p1', 4, 'PMGR_ACTIVE'), ('submit', [3, 3, 3, 4]), ('finish', 2), ('finish', 2)]),
]


def random_histories(rp, n_hist, seed):
    rnd = random.Random(seed)
    for k in range(n_hist):
        ops = []
        pids = ['p1', 'p2', 'p3']
        for _ in range(rnd.randint(4, 12)):
            r = rnd.random()
            if r < 0.2:   ops.append(('add', rnd.choice(pids), rnd.choice((1, 2, 4)), rnd.choice(('PMGR_ACTIVE', 'PMGR_ACTIVE', 'PMGR_LAUNCHING'))))
            elif r < 0.3: ops.append(('remove', rnd.choice(pids)))
            elif r < 0.45: ops.append(('pstate', rnd.choice(pids), rnd.choice(('PMGR_ACTIVE', 'PMGR_ACTIVE', 'PMGR_LAUNCHING', 'DONE', 'FAILED'))))
            elif r < 0.75: ops.append(('submit', [rnd.choice((1, 1, 2, 3)) for _ in range(rnd.randint(1, 5))]))
            else: ops.append(('finish', rnd.randint(1, 4)))
        # a pilot is added once at a time (TaskManager refuses a second add)
        seen, clean = set(), []
        for op in ops:
            if op[0] == 'add':
                if op[1] in seen: continue
                seen.add(op[1])
            if op[0] == 'remove': seen.discard(op[1])
            clean.append(op)
        probs = run_history(rp, clean)
        if probs:
            yield k, probs, clean


KEYS = ['tmgr/scheduler/backfilling.py:Backfilling.%s' % m for m in
        ('_schedule_tasks', 'update_tasks', 'add_pilots', 'remove_pilots', '_work')]


@builder(*KEYS)
def bf_histories(case, rp, known=None):
    import json, os
    kf = json.load(open(os.path.join(os.path.dirname(os.path.dirname(os.path.abspath(__file__))), 'known_findings.json')))
    skip = [f.get('case', '') for f in kf.get('findings', []) if f.get('status') != 'fixed' and f.get('bounded') == 'bf-histories']
    n = 0
    for name, ops in DIRECTED:
        n += 1
        if 'directed:' + name in skip: continue
        probs = run_history(rp, ops)
        if probs:
            return dict(confirmed=True, detail='; '.join(probs[:3]), input=dict(history=ops),
                        found_by='directed native backfilling history %s' % name)
    for k, probs, ops in random_histories(rp, 200, 4711):
        return dict(confirmed=True, detail='; '.join(probs[:3]), input=dict(history=ops),
                    found_by='bounded native backfilling histories (%d tried)' % (n + k + 1))
    return dict(confirmed=False, detail='%d directed and 200 random backfilling histories hold natively' % n)

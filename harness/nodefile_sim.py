"""C18, bounded stand-in: ResourceManager._parse_nodefile of the tree selected by
VERIF_REPO on generated node files (one line per slot or per node, hosts grouped,
interleaved, repeated at a distance, with and without a configured cores-per-node
and SMT): one entry per allocated node, unique names, the slot count of the file
(or the configured count) times SMT."""
import itertools
import os
import tempfile

from .builders import builder, Stub


def run_all(rp, tier='quick'):
    from radical.pilot.agent.resource_manager.base import ResourceManager
    rm = object.__new__(ResourceManager)
    rm._log, rm._prof = Stub(), Stub()
    viol, n = [], 0
    orders = {'grouped': lambda hs, k: [h for h in hs for _ in range(k)],
              'cyclic': lambda hs, k: [h for _ in range(k) for h in hs],
              'mixed': lambda hs, k: ([h for h in hs for _ in range(k - 1)] + list(reversed(hs))) if k > 1 else list(hs)}
    d = tempfile.mkdtemp(prefix='verif_nodefile_')
    try:
        for nh, k, (oname, order), cpn, smt in itertools.product((1, 2, 3, 5), (1, 2, 4), orders.items(), (0, 8), (1, 2, None)):
            n += 1
            hosts = ['node%03d' % i for i in range(nh)]
            lines = order(hosts, k)
            fname = os.path.join(d, 'nodes.%d' % n)
            open(fname, 'w').write('\n'.join(lines) + '\n')
            try:
                got = rm._parse_nodefile(fname, cpn=cpn, smt=smt)
            except Exception as e:
                viol.append(dict(id='raises', detail='_parse_nodefile raised %r' % e, input=dict(lines=lines, cpn=cpn, smt=smt))); break
            want = {h: (cpn or lines.count(h)) * (smt or 1) for h in hosts}
            names = [x[0] for x in got]
            what = '%d host(s) x %d line(s) each, %s order, cpn=%s smt=%s' % (nh, k, oname, cpn, smt)
            if sorted(names) != sorted(set(names)):
                viol.append(dict(id='duplicate-nodes:%s' % oname, detail='%s: node names repeat: %s' % (what, names), input=dict(lines=lines, cpn=cpn, smt=smt))); break
            if dict((x[0], x[1]) for x in got) != want:
                viol.append(dict(id='counts:%s' % oname, detail='%s: parsed %s, the file says %s' % (what, [tuple(x) for x in got], want), input=dict(lines=lines, cpn=cpn, smt=smt))); break
    finally:
        import shutil
        shutil.rmtree(d, ignore_errors=True)
    return dict(cases=n, violations=viol,
                bound='%d node files: 1-5 hosts x 1-4 lines per host x grouped / cyclic / mixed order x cpn in {unset, 8} x smt in {1, 2, unset}' % n)


@builder('agent/resource_manager/base.py:ResourceManager._parse_nodefile')
def nodefile_replay(case, rp):
    r = run_all(rp)
    for v in r['violations']:
        return dict(confirmed=True, detail=v['detail'], input=v['input'], found_by='bounded native node files')
    return dict(confirmed=False, detail='%d node files parse to one entry per node' % r['cases'])

"""--selftest: deliberately broken copies of the tree must be caught.

Each edit is applied to a scratch copy of /repo/src (outside /repo and /verif),
the named check is run against the copy (VERIF_REPO), must exit 1 and name the
expected obligation; the copy is removed afterwards.
"""
import json
import os
import shutil
import subprocess
import sys
import tempfile

HERE = os.path.dirname(os.path.dirname(os.path.abspath(__file__)))

# (id, property, file, old, new, expected obligation substring)
EDITS = [
 ('wait-task-final-break', 'C15', 'task.py',
  "            if self.state in rps.FINAL:\n                break\n",
  "", 'exit-when'),
 ('wait-final-break', 'C15', 'pilot.py',
  "            if self.state in rps.FINAL:\n                break\n",
  "", 'exit-when'),
 ('progress-offbyone', 'C06', 'states.py',
  "    for i in range(cur + 1,tgt):\n        passed.append(_task_state_inv[i])",
  "    for i in range(cur + 2,tgt):\n        passed.append(_task_state_inv[i])",
  '_task_state_progress'),
 ('progress-backward', 'C06', 'states.py',
  "    cur = _task_state_values[current]\n    tgt = _task_state_values[target]\n\n    if cur >= tgt:",
  "    cur = _task_state_values[current]\n    tgt = _task_state_values[target]\n\n    if cur > tgt + 1:",
  '_task_state_progress'),
 ('pilot-cb-all-tasks', 'C13', 'task_manager.py',
  "                    if task.pilot != pid:\n                        continue\n",
  "", '_pilot_state_cb'),
 ('update-canceled-overwrite', 'C06', 'task.py',
  "            if key == 'state':\n",
  "            if key == 'state' and False:\n", 'Task._update'),
 ('progress-raise', 'C06', 'states.py',
  "            # final states are final: silently discard the invalid target\n            return [current, []]",
  "            raise ValueError('invalid transition')", 'no-ValueError'),
 ('fwd-flag-not-cleared', 'C16', 'session.py',
  "                msg['fwd'] = False\n", "                pass\n", 'pubsub_fwd'),
 ('fwd-inbound-own', 'C16', 'session.py',
  "                if msg['origin'] == self._module:\n                    if LOG_ENABLED:",
  "                if msg['origin'] != msg['origin']:\n                    if LOG_ENABLED:",
  'pubsub_fwd'),
 ('fwd-wiring', 'C16', 'session.py',
  "        self.crosswire_pubsub(src=rpc.PROXY_STATE_PUBSUB,\n                              tgt=rpc.STATE_PUBSUB,\n                              from_proxy=True)",
  "        self.crosswire_pubsub(src=rpc.PROXY_STATE_PUBSUB,\n                              tgt=rpc.STATE_PUBSUB,\n                              from_proxy=False)",
  'C16.wiring'),
 ('verify-worker-class', 'C19', 'task_description.py',
  "            self.raptor_class = self.worker_class\n            self.worker_class = ''",
  "            self.raptor_class = self.worker_class\n            self.raptor_class = ''",
  'worker_class'),
 ('verify-gpu-alias', 'C19', 'task_description.py',
  "            self.gpus_per_rank = float(self.gpu_processes)",
  "            self.gpus_per_rank = float(self.gpu_threads)", 'gpu_processes'),
 ('alloc-no-mark', 'C20', 'raptor/worker_default.py',
  "                        self._resources['cores'][n] = 1\n", "", '_alloc'),
 ('alloc-break-late', 'C20', 'raptor/worker_default.py',
  "                        if len(alloc_cores) == cores:", "                        if len(alloc_cores) > cores:", '_alloc'),
 ('dealloc-gpu-skip', 'C20', 'raptor/worker_default.py',
  "                self._resources['gpus'][n] = 0", "                self._resources['gpus'][n] = 1", '_dealloc'),
 ('find-no-lfs-guard', 'C01', 'agent/scheduler/continuous.py',
  "            if lfs_per_slot > lfs_avail or mem_per_slot > mem_avail:\n                break\n", "", '_find_resources'),
 ('find-no-gpu-share', 'C01', 'agent/scheduler/continuous.py',
  "                        gpus_per_slot <= rpc.BUSY - gpu_occ - gpu_share:",
  "                        gpus_per_slot <= rpc.BUSY - gpu_occ:", '_find_resources'),
 ('find-blocked-gpu', 'C01', 'agent/scheduler/continuous.py',
  "                    if  gpu_occ is not None and \\\n", "                    if  \\\n", '_find_resources'),
 ('find-core-not-free', 'C01', 'agent/scheduler/continuous.py',
  "                if core == rpc.FREE:", "                if core != rpc.BUSY:", '_find_resources'),
 ('find-core-idx-restart', 'C01', 'agent/scheduler/continuous.py',
  "            loop_core_idx = core_idx + 1", "            loop_core_idx = core_idx", '_find_resources'),
 ('sched-rem-count', 'C02', 'agent/scheduler/continuous.py',
  "        if  rem_slots > 0:\n            return None, None  # signal failure",
  "        if  rem_slots > 1:\n            return None, None  # signal failure", 'schedule_task'),
 ('sched-colo-ignore', 'C02', 'agent/scheduler/continuous.py',
  "                    if node_index not in self._colo_history[colo_tag]:\n                        continue",
  "                    if node_index not in self._colo_history[colo_tag]:\n                        pass", 'schedule_task'),
 ('iter-node-twice', 'C01', 'agent/scheduler/continuous.py',
  "            self._node_offset += 1\n", "            self._node_offset += 0\n", '_iterate_nodes'),
 ('mark-lfs-sign', 'C03', 'agent/scheduler/base.py',
  "                if new_state == rpc.BUSY:\n                    node['lfs'] -= slot['lfs']\n                else:\n                    node['lfs'] += slot['lfs']",
  "                if new_state == rpc.BUSY:\n                    node['lfs'] -= slot['lfs']\n                else:\n                    node['lfs'] -= slot['lfs']", '_change_slot_states'),
 ('mark-gpu-skip', 'C01', 'agent/scheduler/base.py',
  "            for gpu in slot['gpus']:\n                node['gpus'][gpu['index']] = new_state",
  "            for gpu in slot['gpus'][1:]:\n                node['gpus'][gpu['index']] = new_state", '_change_slot_states'),
 ('active-cnt-twice', 'C03', 'agent/scheduler/base.py',
  "            to_release.append(task)\n            self._active_cnt -= 1",
  "            to_release.append(task)\n            self._active_cnt -= 2", '_unschedule_completed'),
 ('alloc-no-mark-busy', 'C01', 'agent/scheduler/base.py',
  "            self._change_slot_states(slots, rpc.BUSY)\n            task['slots']     = slots",
  "            task['slots']     = slots", '_try_allocation'),
 ('stop-overwrites-cause', 'C14', 'agent/agent_0.py',
  "        if not self._final_cause:\n            self._final_cause = 'cancel'",
  "        self._final_cause = 'cancel'", 'Agent_0.stop'),
 ('finalize-timeout-canceled', 'C14', 'agent/agent_0.py',
  "        if   self._final_cause == 'timeout'  : state = rps.DONE",
  "        if   self._final_cause == 'timeout'  : state = rps.CANCELED", 'finalize'),
 ('pilot-progress-final-left', 'C14', 'states.py',
  "    if cur >= tgt:\n        # nothing to do, a similar or better progression happened earlier\n        return [current, []]\n\n    # dig out all intermediate states, skip current\n    passed = list()\n    for i in range(cur + 1,tgt):\n        passed.append(_pilot_state_inv[i])",
  "    if cur > tgt:\n        # nothing to do, a similar or better progression happened earlier\n        return [current, []]\n\n    # dig out all intermediate states, skip current\n    passed = list()\n    for i in range(cur + 1,tgt):\n        passed.append(_pilot_state_inv[i])",
  '_pilot_state_progress'),
 ('cfg-schema-alias', 'C17', 'configs/resource_csc.json',
  '            "batch"                   : {\n                "job_manager_endpoint": "fork://localhost/",\n                "filesystem_endpoint" : "file://localhost/"\n            },',
  '            "batch"                   : "interactive",', 'csc.mahti'),
 ('factory-key-gone', 'C17', 'agent/launch_method/base.py',
  "            LM_NAME_SRUN          : Srun,\n", "", 'launch-method-SRUN-known'),
 ('filter-no-truncate', 'C18', 'agent/resource_manager/base.py',
  "            rm_info.node_list   = rm_info.node_list[:rm_info.requested_nodes]",
  "            rm_info.node_list   = rm_info.node_list[:rm_info.requested_nodes + 1]", '_filter_nodes'),
 ('filter-agent-not-removed', 'C18', 'agent/resource_manager/base.py',
  "                    rm_info.agent_node_list.append(rm_info.node_list.pop())",
  "                    rm_info.agent_node_list.append(rm_info.node_list[-1])", '_filter_nodes'),
 ('blocked-gpu-not-marked', 'C18', 'agent/resource_manager/base.py',
  "                    node['gpus'][idx] = rpc.DOWN", "                    node['gpus'][idx] = rpc.FREE", 'blocked'),
 ('node-index-constant', 'C18', 'agent/resource_manager/base.py',
  "                      'index' : idx,", "                      'index' : 0,", '_get_node_list'),
 ('early-not-cleared', 'C12', 'tmgr/scheduler/base.py',
  "                        del self._early[pid]\n", "", 'control_cb'),
 ('rr-no-wrap', 'C12', 'tmgr/scheduler/round_robin.py',
  "                    if self._idx >= len(self._pids):\n                        self._idx = 0",
  "                    if self._idx > len(self._pids):\n                        self._idx = 0", '_schedule_tasks'),
 ('rr-removed-still-listed', 'C12', 'tmgr/scheduler/round_robin.py',
  "                self._pids.remove(pid)\n", "                pass\n", 'remove_pilots'),
 ('assign-wrong-pilot', 'C12', 'tmgr/scheduler/base.py',
  "        task['pilot'            ] = pid\n", "        task['pilot'            ] = task.get('pilot')\n", '_assign_pilot'),
 ('cancel-no-ownership-test', 'C07', 'agent/executing/popen.py',
  "            if tid not in self._tasks:\n                return\n            try:\n                del self._tasks[tid]\n            except KeyError:\n                pass\n\n        # task is still running -- cancel it",
  "            self._tasks.pop(tid, None)\n\n        # task is still running -- cancel it", 'cancel_task'),
 ('watcher-collects-canceled', 'C07', 'agent/executing/popen.py',
  "                    if tid not in self._tasks:\n                        # task was canceled before, nothing to do\n                        continue\n",
  "", '_check_running'),
 ('exit-code-mapping', 'C05', 'agent/executing/popen.py',
  "                if exit_code == 0:\n                    # The task finished cleanly",
  "                if exit_code >= 0:\n                    # The task finished cleanly", '_check_running'),
 ('cancel-all-tasks', 'C08', 'agent/executing/base.py',
  "                task = self.get_task(tid)\n                if task:\n                    self.cancel_task(task)",
  "                for task in list(self._tasks.values()):\n                    self.cancel_task(task)", 'control_cb'),
 ('waitpool-cancel-break-dedent', 'C08', 'agent/scheduler/base.py',
  "                                del self._waitpool[priority][uid]\n                                break\n",
  "                                del self._waitpool[priority][uid]\n                            break\n", 'C0'),
 ('waitpool-cancel-no-delete', 'C08', 'agent/scheduler/base.py',
  "                                to_cancel.append(task)\n                                del self._waitpool[priority][uid]\n",
  "                                to_cancel.append(task)\n", 'C0'),
 ('waitpool-cancel-clears-pool', 'C08', 'agent/scheduler/base.py',
  "                                del self._waitpool[priority][uid]\n                                break\n",
  "                                self._waitpool[priority] = dict()\n                                break\n", 'C0'),
 ('sched-intake-no-continue', 'C04', 'agent/scheduler/base.py',
  "                        self._fail_task(task, ValueError('invalid ranks'), '')\n                        continue\n",
  "                        self._fail_task(task, ValueError('invalid ranks'), '')\n", 'C0'),
 ('sched-raptor-task-also-scheduled', 'C04', 'agent/scheduler/base.py',
  "                            to_raptor[raptor_id].append(task)\n",
  "                            to_raptor[raptor_id].append(task)\n                            to_schedule[priority].append(task)\n", 'C0'),
 ('sched-waiters-not-pooled', 'C04', 'agent/scheduler/base.py',
  "                self._waitpool[priority][uid] = task\n", "                self._waitpool[0][uid] = task\n", 'C0'),
 ('sched-started-not-pushed', 'C04', 'agent/scheduler/base.py',
  "                        self.advance(task, rps.AGENT_EXECUTING_PENDING,\n                                     publish=True, push=True, fwd=True)\n\n                    else:",
  "                        self.advance(task, rps.AGENT_EXECUTING_PENDING,\n                                     publish=True, push=False, fwd=True)\n\n                    else:", 'C0'),
 ('sched-refused-task-dropped', 'C04', 'agent/scheduler/base.py',
  "                    else:\n                        to_wait.append(task)\n\n                except Exception as e:",
  "                    else:\n                        pass\n\n                except Exception as e:", 'C0'),
 ('sched-fail-when-one-active', 'C04', 'agent/scheduler/base.py',
  "                if self._active_cnt == 0:\n                    raise RuntimeError('task can never be scheduled')",
  "                if self._active_cnt <= 1:\n                    raise RuntimeError('task can never be scheduled')", '_try_allocation_exc-post'),
 ('sched-late-cancel-keeps-in-pool', 'C08', 'agent/scheduler/base.py',
  "                if self.is_canceled(task) is True:\n                    del self._waitpool[priority][uid]\n",
  "                self.is_canceled(task)\n", 'C0'),
 ('waitpool-low-priority-first', 'C04', 'agent/scheduler/base.py',
  "        for priority in sorted(self._waitpool.keys(), reverse=True):\n\n            to_wait   = list()",
  "        for priority in sorted(self._waitpool.keys()):\n\n            to_wait   = list()", 'C0'),
 ('waitpool-drops-env-waiters', 'C04', 'agent/scheduler/base.py',
  "                                            for task in (unscheduled + to_wait)}",
  "                                            for task in unscheduled}", 'C0'),
 ('waitpool-bisect-failure-not-reported', 'C04', 'agent/scheduler/base.py',
  "                self._fail_task(task, RuntimeError('bisect failed'), error)\n", "                pass\n", 'C0'),
 ('waitpool-keeps-started-in-pool', 'C04', 'agent/scheduler/base.py',
  "                                            for task in (unscheduled + to_wait)}",
  "                                            for task in (scheduled + unscheduled + to_wait)}", 'C0'),
 ('loop-release-does-not-raise-flag', 'C04', 'agent/scheduler/base.py',
  "            if not resources and r:\n                resources = True", "            if not resources and r and a:\n                resources = bool(active)", 'C0'),
 ('loop-flag-reset-after-release', 'C04', 'agent/scheduler/base.py',
  "            r, a = self._unschedule_completed()\n            if not resources and r:\n                resources = True\n            active += int(a)",
  "            r, a = self._unschedule_completed()\n            if not resources and r:\n                resources = True\n            active += int(a)\n            if r_wait is False and r_inc is False:\n                resources = False", 'C0'),
 ('bf-readd-resets-books', 'C12', 'tmgr/scheduler/backfilling.py',
  "                if self._pilots[pid].get('info'):\n", "                if False:\n", 'C12'),
 ('bf-inner-check-dropped', 'C12', 'tmgr/scheduler/backfilling.py',
  "                        if info['used'] >= info['hwm']:\n                            pids.remove(pid)\n", "", 'C12'),
 ('bf-done-counted-twice', 'C12', 'tmgr/scheduler/backfilling.py',
  "                if uid in info['done']:\n                    # we don't need further state udates\n                    self._log.debug('upd task %s in done', uid)\n                    continue\n", "", 'C12'),
 ('lm-mpirun-np-off-by-one', 'C09', 'agent/launch_method/mpirun.py',
  "        else        : np = len(host_list)", "        else        : np = len(host_list) - 1 or 1", 'C09'),
 ('lm-mpirun-keeps-state', 'C09', 'agent/launch_method/mpirun.py',
  "        options = ''\n        if task_gpus", "        self._omplace = self._omplace + ' -x'\n        options = ''\n        if task_gpus", 'C09'),
 ('lm-mpirun-dedups-hosts', 'C09', 'agent/launch_method/mpirun.py',
  "            host_list.append(slot['node_name'])", "            if slot['node_name'] not in host_list: host_list.append(slot['node_name'])", 'C09'),
 ('lm-ssh-last-host', 'C09', 'agent/launch_method/ssh.py',
  "        if len(slots) != 1:\n            raise RuntimeError('ssh cannot run multi-rank tasks')\n\n        host = slots[0]['node_name']",
  "        host = slots[-1]['node_name']", 'C09'),
 ('lm-aprun-depth-as-ranks', 'C09', 'agent/launch_method/aprun.py',
  "        cmd_options = '-n %s ' % ranks + \\\n                      '-d %s'  % cores_per_rank",
  "        cmd_options = '-n %s ' % cores_per_rank + \\\n                      '-d %s'  % ranks", 'C09'),
 ('lm-prte-np-from-nodes', 'C09', 'agent/launch_method/prte.py',
  "        n_procs   = td['ranks']", "        n_procs   = len(set(s['node_name'] for s in slots)) or td['ranks']", 'C09'),
 ('lm-mpiexec-hostfile-loses-multiplicity', 'C09', 'agent/launch_method/mpiexec.py',
  "            host_slots[slot['node_name']] += 1\n\n        if mode == 0:", "            host_slots[slot['node_name']] = 1\n\n        if mode == 0:", 'C09'),
 ('master-exit-none-done', 'C05', 'raptor/master.py',
  "                if ret is None:\n                    ret = -1", "                if ret is None:\n                    ret = 0", '_result_cb'),
 ('agent-advance-pushes-failed', 'C05', 'utils/component.py',
  "              #     thing['state'] = state\n\n            publish = True\n            push    = False",
  "              #     thing['state'] = state\n\n            publish = True\n            push    = True", 'AgentComponent.advance'),
]


def run_selftest(only=None):
    repo = os.environ.get('VERIF_REPO', '/repo')
    failed = 0
    for eid, pid, rel, old, new, expect in EDITS:
        if only and pid not in only and eid not in only:
            continue
        scratch = tempfile.mkdtemp(prefix='verif_selftest_')
        try:
            shutil.copytree(os.path.join(repo, 'src'),
                            os.path.join(scratch, 'src'))
            path = os.path.join(scratch, 'src', 'radical', 'pilot', rel)
            src = open(path).read()
            if src.count(old) != 1:
                print('SELFTEST %s: edit does not apply (%d matches)'
                      % (eid, src.count(old)))
                failed += 1
                continue
            open(path, 'w').write(src.replace(old, new))
            p = subprocess.run([os.path.join(HERE, 'check'), pid],
                               capture_output=True, text=True,
                               env=dict(os.environ, VERIF_REPO=scratch,
                                        VERIF_SELFTEST='1'))
            hit = [l for l in p.stdout.split('\n')
                   if l.startswith('VIOLATION') and expect in l]
            if p.returncode == 1 and hit:
                print('SELFTEST %s: caught (%s)' % (eid, hit[0][:160]))
            else:
                failed += 1
                print('SELFTEST %s: NOT caught: rc=%d\n%s'
                      % (eid, p.returncode, p.stdout[-1500:]))
        finally:
            shutil.rmtree(scratch, ignore_errors=True)
    print('selftest: %d edit(s) not caught' % failed)
    return 0 if failed == 0 else 3

"""native builders: construct receivers the way the repository's own unit tests
do (object.__new__ + the attributes the function reads, loggers stubbed), call
the REAL function and evaluate the violated clause natively."""

import os
import copy
import threading
import time

from harness.rp_boot import Stub

BUILDERS = dict()


def builder(*keys):
    def deco(fn):
        for k in keys:
            BUILDERS[k] = fn
        return fn
    return deco


def model_get(case, name, default=None):
    m = case.get('model') or {}
    if ('at:' + name) in m:
        return m['at:' + name]
    return m.get(name, default)


FINAL = ['DONE', 'FAILED', 'CANCELED']


class _Event:
    def __init__(self): self.v = False
    def is_set(self): return self.v


# ------------------------------------------------------------------------------
# C15
#
def _wait_scenario(obj, call, later_state, requested):
    """start `call` in a thread, move the entity to `later_state` after 0.2 s,
    expect the call to return within 2 s if later_state is awaited or final"""
    box = dict()

    def run():
        try:
            box['ret'] = call()
        except Exception as e:
            box['exc'] = repr(e)
    t = threading.Thread(target=run, daemon=True)
    t0 = time.time()
    t.start()
    time.sleep(0.2)
    obj._state = later_state
    t.join(2.0)
    must_return = later_state in FINAL or later_state in requested
    if t.is_alive():
        obj._pm._terminate.v = True           # let the thread go
        t.join(1.0)
        if must_return:
            return dict(confirmed=True, detail='wait() did not return within '
                        '2 s although the entity reached %s (requested %s)'
                        % (later_state, requested))
        return dict(confirmed=False, detail='still waiting, as it should')
    if 'exc' in box:
        return dict(confirmed=True, detail='wait() raised %s' % box['exc'])
    if box.get('ret') != obj._state:
        return dict(confirmed=True, detail='wait() returned %r but the state '
                    'is %r' % (box.get('ret'), obj._state))
    return dict(confirmed=False, detail='returned %r after %.2fs'
                % (box.get('ret'), time.time() - t0))


def _wait_sweep(mk, call):
    """standard trajectories: every awaited-state shape against every end state"""
    n = 0
    mid = getattr(mk(), '_wait_mid', None)     # a non-final state the entity can reach and stay in
    shapes = [None, 'DONE', 'FAILED', ['DONE', 'FAILED'], 'CANCELED']
    if mid:
        shapes += [mid, [mid], [mid, 'DONE']]
    for state in shapes:
        requested = FINAL if not state else state if isinstance(state, list) else [state]
        for later in ('DONE', 'FAILED', 'CANCELED') + ((mid,) if mid else ()):
            n += 1
            obj = mk()
            r = _wait_scenario(obj, lambda: call(obj, state), later, requested)
            if r.get('confirmed'):
                r['input'] = dict(awaited=state, entity_ends_in=later)
                r['found_by'] = 'bounded native scenario sweep (%d cases)' % n
                return r
    return dict(confirmed=False, detail='%d wait scenarios return as they should' % n)


@builder('task.py:Task.wait')
def task_wait(case, rp):
    if not case.get('model'):
        from radical.pilot.task import Task
        def mk():
            t = object.__new__(Task); t._log = Stub()
            t._pm = t._tmgr = type('M', (), {})(); t._tmgr._terminate = _Event()
            t._state = 'AGENT_SCHEDULING'
            t._wait_mid = 'AGENT_EXECUTING'
            return t
        return _wait_sweep(mk, lambda t, state: t.wait(state, None))
    return _task_wait_model(case, rp)


def _task_wait_model(case, rp):
    from radical.pilot.task import Task
    t = object.__new__(Task)
    t._log = Stub()
    t._pm = t._tmgr = type('M', (), {})()
    t._tmgr._terminate = _Event()
    t._state = model_get(case, 'self._state') if 'self._state' in (case.get('model') or {}) else 'NEW'
    m = case.get('model') or {}
    t._state = m.get('self._state') or 'NEW'
    if t._state in FINAL:
        ret = t.wait(m.get('state'), m.get('timeout'))
        ok = (ret == t._state)
        return dict(confirmed=not ok, detail='final at call: returned %r' % ret)
    later = m.get('at:self._state') or 'DONE'
    state = m.get('state')
    requested = FINAL if not state else state if isinstance(state, list) \
                else [state]
    if 'default-is-final' in case['obligation'] or later not in FINAL + requested:
        later = 'DONE'
    return _wait_scenario(t, lambda: t.wait(state, None), later, requested)


@builder('pilot.py:Pilot.wait')
def pilot_wait(case, rp):
    if not case.get('model'):
        from radical.pilot.pilot import Pilot
        def mk():
            p = object.__new__(Pilot); p._log = Stub()
            p._pm = p._pmgr = type('M', (), {})(); p._pmgr._terminate = _Event()
            p._state = 'PMGR_LAUNCHING'
            p._wait_mid = 'PMGR_ACTIVE'
            return p
        return _wait_sweep(mk, lambda p, state: p.wait(state, None))
    return _pilot_wait_model(case, rp)


def _pilot_wait_model(case, rp):
    from radical.pilot.pilot import Pilot
    p = object.__new__(Pilot)
    p._log = Stub()
    p._pm = p._pmgr = type('M', (), {})()
    p._pmgr._terminate = _Event()
    m = case.get('model') or {}
    p._state = m.get('self._state') or 'NEW'
    state = m.get('state')
    requested = FINAL if not state else state if isinstance(state, list) \
                else [state]
    if p._state in FINAL:
        ret = p.wait(state, m.get('timeout'))
        ok = (ret == p._state)
        return dict(confirmed=not ok, detail='final at call: wait() returned '
                    '%r, the pilot state is %r' % (ret, p._state))
    later = m.get('at:self._state') or 'DONE'
    if 'default-is-final' in case['obligation'] or later not in FINAL + requested:
        later = 'DONE'
    return _wait_scenario(p, lambda: p.wait(state, None), later, requested)


# ------------------------------------------------------------------------------
# C06 / C13
#
class AttrDict(dict):
    def __getattr__(self, k):
        try: return self[k]
        except KeyError: raise AttributeError(k)
    def __setattr__(self, k, v): self[k] = v


TV = None


def tv(rp, s):
    return rp.states._task_state_values[s]


def mk_task(rp, rec):
    from radical.pilot.task import Task
    t = object.__new__(Task)
    t._log = Stub()
    for k, v in rec.items():
        if k == '_descr':
            t._descr = AttrDict(v)
        else:
            setattr(t, k, v)
    t._set_info = lambda *a, **k: None
    return t


def task_snapshot(t):
    return {k: (dict(v) if isinstance(v, dict) else v)
            for k, v in t.__dict__.items() if k.startswith('_')
            and k not in ('_log', '_set_info')}


def clean_dict(d):
    """model dict -> python dict without the keys the model left None
    (optional keys are modelled as None when absent)"""
    out = dict()
    for k, v in d.items():
        if v is None and k not in ('uid', 'state'):
            continue
        if isinstance(v, dict):
            v = clean_dict(v)
        out[k] = v
    return out


def check_task_update(rp, old, new, td, reconnect, raised):
    """the clauses of C06 on one Task._update call, evaluated natively"""
    F = ['DONE', 'FAILED']
    probs = []
    if old['_state'] in F and new != old:
        probs.append('task in %s was modified' % old['_state'])
    if old['_state'] == 'CANCELED' and not (
       new['_state'] == 'CANCELED' or
       (new['_state'] == 'DONE' and td['state'] == 'DONE')):
        probs.append('CANCELED task moved to %s' % new['_state'])
    if new['_state'] != old['_state'] and not reconnect and not (
       new['_state'] in ('FAILED', 'CANCELED') or
       tv(rp, new['_state']) == tv(rp, old['_state']) + 1):
        probs.append('state moved %s -> %s (not a single step)'
                     % (old['_state'], new['_state']))
    if raised and new != old:
        probs.append('modified although it raised %s' % raised)
    return probs


@builder('task.py:Task._update')
def task_update(case, rp):
    m = case['model']
    t = mk_task(rp, m['self'])
    td = clean_dict(m['task_dict'])
    old = task_snapshot(t)
    raised = None
    try:
        t._update(td, reconnect=m.get('reconnect', False))
    except Exception as e:
        raised = type(e).__name__
    new = task_snapshot(t)
    probs = check_task_update(rp, old, new, td, m.get('reconnect', False), raised)
    return dict(confirmed=bool(probs), detail='; '.join(probs) or
                'clauses hold natively (raised=%s)' % raised,
                input=dict(state=old['_state'], update=td.get('state')))


def _valid_tstate(rp, s, dflt='NEW'):
    return s if s in rp.states._task_state_values and s is not None else dflt


def mk_tmgr(rp, tasks):
    """TaskManager with the given {uid: task-record} and a callback recorder"""
    import threading as mt
    from radical.pilot.task_manager import TaskManager
    tm = object.__new__(TaskManager)
    tm._log = Stub()
    tm._prof = Stub()
    tm._tasks_lock = mt.RLock()
    tm._tasks = dict()
    tm._task_info = dict()
    tm.cb_log = list()
    for uid, rec in tasks.items():
        rec = dict(rec)
        rec['_uid'] = uid
        rec['_state'] = _valid_tstate(rp, rec.get('_state'))
        rec.setdefault('_descr', {'mode': 'task.executable', 'metadata': None})
        tm._tasks[uid] = mk_task(rp, rec)
        tm._task_info[uid] = dict()
    tm._task_cb = lambda task, state: tm.cb_log.append((task.uid, state))
    tm._closed = False
    tm._terminate = _Event()
    tm.adv_log = list()
    tm.advance = lambda things, *a, **k: tm.adv_log.append(
                     [t['uid'] for t in (things if isinstance(things, list)
                                         else [things])])
    return tm


def check_update_tasks(rp, old_states, tm, batch, raised):
    probs = []
    if raised:
        probs.append('batch raised %s' % raised)
    named = set(d['uid'] for d in batch)
    for uid, t in tm._tasks.items():
        o, n = old_states[uid], t.state
        if uid not in named and n != o:
            probs.append('%s not in the batch but moved %s -> %s' % (uid, o, n))
        if o in FINAL and n != o:
            probs.append('%s was final (%s) and changed to %s' % (uid, o, n))
        if tv(rp, n) < tv(rp, o):
            probs.append('%s moved backward %s -> %s' % (uid, o, n))
    last = dict()
    for uid, s in tm.cb_log:
        prev = last.get(uid, old_states.get(uid))
        if not tv(rp, s) > tv(rp, prev):
            probs.append('callback for %s announces %s after %s' % (uid, s, prev))
        elif s not in ('FAILED', 'CANCELED') and tv(rp, s) != tv(rp, prev) + 1:
            probs.append('callback for %s skips from %s to %s' % (uid, prev, s))
        last[uid] = s
    for uid, s in last.items():
        if tm._tasks[uid].state != s:
            probs.append('%s: last callback %s but state is %s'
                         % (uid, s, tm._tasks[uid].state))
    return probs


def run_update_tasks(rp, tasks, batch):
    tm = mk_tmgr(rp, tasks)
    old = {u: t.state for u, t in tm._tasks.items()}
    raised = None
    try:
        tm._update_tasks(copy.deepcopy(batch))
    except Exception as e:
        raised = '%s: %s' % (type(e).__name__, e)
    return check_update_tasks(rp, old, tm, batch, raised), old


@builder('task_manager.py:TaskManager._update_tasks')
def update_tasks(case, rp):
    m = case.get('model') or {}
    tasks = m.get('self._tasks') or {}
    batch = [clean_dict(d) for d in (m.get('task_dicts') or [])
             if isinstance(d, dict)]
    for d in batch:
        d['state'] = _valid_tstate(rp, d.get('state'))
    if tasks and batch:
        probs, old = run_update_tasks(rp, tasks, batch)
        if probs:
            return dict(confirmed=True, detail='; '.join(probs[:3]),
                        input=dict(states=old, batch=[(d['uid'], d['state'])
                                                      for d in batch]))
    # bounded native search around the model: two tasks, every pair of
    # (current, notified) states for the first, a plain next step for the second
    states = [s for s in rp.states._task_state_values if s is not None]
    n = 0
    for cur in states:
        for tgt in states:
            n += 1
            batch = [{'uid': 'a', 'state': tgt},
                     {'uid': 'b', 'state': 'TMGR_SCHEDULING_PENDING'}]
            probs, old = run_update_tasks(rp, {'a': {'_state': cur},
                                               'b': {'_state': 'NEW'},
                                               'c': {'_state': cur}}, batch)
            if probs:
                return dict(confirmed=True, detail='; '.join(probs[:3]),
                            input=dict(states=old, batch=[(d['uid'], d['state'])
                                                          for d in batch]),
                            found_by='bounded native search (%d cases tried)' % n)
    return dict(confirmed=False, detail='model did not reproduce; bounded '
                'native search over %d (current, notified) pairs found no '
                'failing input' % n)


# ------------------------------------------------------------------------------
# C13
#
class _P:
    def __init__(self, uid, state): self.uid, self.state = uid, state


def run_pilot_cb(rp, tasks, pilots, as_list=True):
    tm = mk_tmgr(rp, tasks)
    old = {u: (t.state, t.pilot) for u, t in tm._tasks.items()}
    ps = [_P(p['_uid'], p['_state']) for p in pilots]
    raised = None
    try:
        tm._pilot_state_cb(ps if as_list else ps[0])
    except Exception as e:
        raised = '%s: %s' % (type(e).__name__, e)
    probs = []
    if raised:
        probs.append('raised %s' % raised)
    dead = set(p.uid for p in ps if p.state in FINAL)
    for u, t in tm._tasks.items():
        ostate, opilot = old[u]
        if opilot in dead and ostate not in FINAL:
            if t.state != 'FAILED':
                probs.append('%s bound to dead pilot %s is %s, not FAILED'
                             % (u, opilot, t.state))
            elif opilot not in str(getattr(t, '_exception_detail', '')):
                probs.append('%s: explanation %r does not name pilot %s'
                             % (u, getattr(t, '_exception_detail', None), opilot))
        elif t.state != ostate:
            probs.append('%s (pilot %s, was %s) changed to %s although pilot(s) '
                         '%s ended' % (u, opilot, ostate, t.state, sorted(dead)))
    return probs, old


@builder('task_manager.py:TaskManager._pilot_state_cb')
def pilot_state_cb(case, rp):
    m = case.get('model') or {}
    tasks = m.get('self._tasks') or {}
    pilots = m.get('pilots')
    if isinstance(pilots, dict): pilots = [pilots]
    if tasks and pilots and all(isinstance(p, dict) for p in pilots):
        for p in pilots:
            p['_state'] = p['_state'] if p['_state'] in \
                          rp.states._pilot_state_values else 'FAILED'
        probs, old = run_pilot_cb(rp, tasks, pilots)
        if probs:
            return dict(confirmed=True, detail='; '.join(probs[:3]),
                        input=dict(tasks=old, pilots=pilots))
    n = 0
    for pstate in FINAL + ['PMGR_ACTIVE']:
        for s1 in ['NEW', 'AGENT_EXECUTING', 'DONE', 'CANCELED', 'FAILED']:
            for s2 in ['TMGR_SCHEDULING', 'AGENT_EXECUTING', 'DONE', 'CANCELED']:
                n += 1
                tasks = {'t1': {'_state': s1, '_pilot': 'p1'},
                         't2': {'_state': s2, '_pilot': 'p2'},
                         't3': {'_state': s2, '_pilot': None},
                         't4': {'_state': s1, '_pilot': 'p1'}}
                pilots = [{'_uid': 'p1', '_state': pstate}]
                probs, old = run_pilot_cb(rp, tasks, pilots, as_list=(n % 2 == 0))
                if probs:
                    return dict(confirmed=True, detail='; '.join(probs[:3]),
                                input=dict(tasks=old, pilots=pilots),
                                found_by='bounded native search (%d cases)' % n)
    return dict(confirmed=False, detail='model did not reproduce; bounded native '
                'search over %d cases found no failing input' % n)


@builder('states.py:_task_state_progress')
def task_state_progress(case, rp):
    m = case.get('model') or {}
    vals = rp.states._task_state_values
    inv  = rp.states._task_state_inv

    def one(cur, tgt):
        probs = []
        try:
            new, passed = rp.states._task_state_progress('t', cur, tgt)
        except Exception as e:
            return ['raised %s: %s' % (type(e).__name__, e)]
        if vals[new] < vals[cur]: probs.append('moved backward to %s' % new)
        if new not in (cur, tgt): probs.append('new state %s is neither' % new)
        if vals[tgt] > vals[cur]:
            if new != tgt: probs.append('did not advance to %s' % tgt)
            want = [inv[i] for i in range(vals[cur] + 1, vals[tgt])] + [tgt]
            if list(passed) != want:
                probs.append('passed %s, expected %s' % (passed, want))
        elif passed:
            probs.append('passed %s although nothing to advance' % passed)
        elif cur != 'CANCELED' and new != cur:
            probs.append('state changed %s -> %s' % (cur, new))
        return probs
    cur, tgt = m.get('current'), m.get('target')
    if cur in vals and tgt in vals:
        probs = one(cur, tgt)
        if probs:
            return dict(confirmed=True, detail='; '.join(probs),
                        input=dict(current=cur, target=tgt))
    n = 0
    for cur in vals:
        for tgt in vals:
            n += 1
            probs = one(cur, tgt)
            if probs:
                return dict(confirmed=True, detail='; '.join(probs),
                            input=dict(current=cur, target=tgt),
                            found_by='exhaustive native enumeration (%d pairs)' % n)
    return dict(confirmed=False, detail='all %d (current, target) pairs satisfy '
                'the clauses natively' % n)


# ------------------------------------------------------------------------------
# C16
#
def get_pubsub_fwd(rp, module, src, tgt, from_proxy):
    """obtain the real nested function pubsub_fwd by running the real
    Session.crosswire_pubsub with the zmq end points replaced by recorders"""
    import radical.utils as ru
    from radical.pilot.session import Session
    puts, box = [], {}

    class Pub:
        def __init__(self, *a, **k): pass
        def put(self, topic, msg): puts.append((topic, copy.deepcopy(msg)))

    class Sub:
        def __init__(self, *a, **k): box['cb'] = k['cb']
    s = object.__new__(Session)
    s._log, s._prof = Stub(), Stub()
    s._module = module
    s._to_stop = []
    s._cfg = type('C', (), {'path': '/tmp'})()
    s._reg = {'bridges.%s.addr_sub' % src.lower(): 'x',
              'bridges.%s.addr_pub' % tgt.lower(): 'y'}
    saved = ru.zmq.Publisher, ru.zmq.Subscriber
    ru.zmq.Publisher, ru.zmq.Subscriber = Pub, Sub
    try:
        s.crosswire_pubsub(src=src, tgt=tgt, from_proxy=from_proxy)
    finally:
        ru.zmq.Publisher, ru.zmq.Subscriber = saved
    return box['cb'], puts


def check_hop(rp, module, from_proxy, msg):
    cb, puts = get_pubsub_fwd(rp, module, 'a_pubsub', 'b_pubsub', from_proxy)
    m = copy.deepcopy(msg)
    eff = m.get('origin', module)
    try:
        cb('a_pubsub', m)
    except Exception as e:
        return ['raised %r' % e]
    probs = []
    if m.get('origin') != eff:
        probs.append('origin is %r, expected %r' % (m.get('origin'), eff))
    if from_proxy:
        want = (eff != module)
    else:
        want = (msg.get('fwd') is True and eff == module)
    if len(puts) != (1 if want else 0):
        probs.append('%d message(s) forwarded, expected %d'
                     % (len(puts), 1 if want else 0))
    if want and puts:
        if puts[0][0] != 'b_pubsub': probs.append('forwarded to %s' % puts[0][0])
        if not from_proxy and puts[0][1].get('fwd') is not False:
            probs.append('forward flag not cleared on the forwarded message')
        if puts[0][1].get('origin') != eff:
            probs.append('forwarded message has origin %r' % puts[0][1].get('origin'))
    return probs


@builder('session.py:Session.crosswire_pubsub.pubsub_fwd')
def pubsub_fwd(case, rp):
    m = case.get('model') or {}
    module = m.get('self._module') or 'client'
    msg = {k: v for k, v in (m.get('msg') or {}).items() if v is not None}
    if m.get('msg'):
        probs = check_hop(rp, module, bool(m.get('from_proxy')), msg)
        if probs:
            return dict(confirmed=True, detail='; '.join(probs),
                        input=dict(module=module, from_proxy=m.get('from_proxy'), msg=msg))
    n = 0
    for fp in (False, True):
        for fwd in ('absent', True, False):
            for origin in ('absent', 'client', 'pilot.0000'):
                n += 1
                msg = {'cmd': 'x', 'arg': 1}
                if fwd != 'absent': msg['fwd'] = fwd
                if origin != 'absent': msg['origin'] = origin
                probs = check_hop(rp, 'client', fp, msg)
                if probs:
                    return dict(confirmed=True, detail='; '.join(probs),
                                input=dict(module='client', from_proxy=fp, msg=msg),
                                found_by='exhaustive native enumeration (%d cases)' % n)
    return dict(confirmed=False, detail='all %d flag/origin/direction cases '
                'satisfy the hop contract natively' % n)


@builder('session.py:Session._crosswire_proxy')
def crosswire_proxy(case, rp):
    """the real Session._crosswire_proxy for both roles that may call it, with
    crosswire_pubsub replaced by a recorder"""
    from radical.pilot.session import Session
    want = {('control_pubsub', 'proxy_control_pubsub', False), ('proxy_control_pubsub', 'control_pubsub', True),
            ('state_pubsub', 'proxy_state_pubsub', False), ('proxy_state_pubsub', 'state_pubsub', True)}
    for role in (Session._PRIMARY, Session._AGENT_0):
        s = object.__new__(Session)
        s._log, s._prof = Stub(), Stub()
        s._role = role
        got = []
        s.crosswire_pubsub = lambda src, tgt, from_proxy: got.append((src, tgt, from_proxy))
        try:
            s._crosswire_proxy()
        except Exception as e:
            return dict(confirmed=True, detail='role %s: raised %r' % (role, e), input=dict(role=role))
        if set(got) != want or len(got) != 4:
            return dict(confirmed=True, input=dict(role=role),
                        detail='role %s: forwarders set up: %s; missing %s, unexpected %s' % (
                            role, got, sorted(want - set(got)), sorted(set(got) - want)))
    return dict(confirmed=False, detail='both roles wire 4 forwarders natively')


# ------------------------------------------------------------------------------
# C19
#
TD_ALIASES = [('cpu_processes', 'ranks'), ('cpu_threads', 'cores_per_rank'),
              ('cpu_thread_type', 'threading_type'), ('gpu_processes', 'gpus_per_rank'),
              ('gpu_process_type', 'gpu_type'), ('lfs_per_process', 'lfs_per_rank'),
              ('mem_per_process', 'mem_per_rank'), ('scheduler', 'raptor_id'),
              ('worker_file', 'raptor_file'), ('worker_class', 'raptor_class')]


def check_verify(rp, d):
    """clauses of C19 on TaskDescription._verify for the description dict d"""
    td = rp.TaskDescription(from_dict=copy.deepcopy(d))
    before = copy.deepcopy(td.as_dict())
    try:
        td._verify()
    except ValueError as e:
        return [], 'ValueError'
    except Exception as e:
        return ['raised %r' % e], None
    after = copy.deepcopy(td.as_dict())
    probs = []
    for dep, new in TD_ALIASES:
        if before.get(dep):
            if after.get(new) != before.get(dep):
                probs.append('%s=%r was not carried over to %s (is %r)'
                             % (dep, before.get(dep), new, after.get(new)))
            if after.get(dep):
                probs.append('deprecated %s still set to %r' % (dep, after.get(dep)))
        elif after.get(new) != before.get(new):
            probs.append('%s changed from %r to %r' % (new, before.get(new), after.get(new)))
    td2 = rp.TaskDescription(from_dict=copy.deepcopy(after))
    try:
        td2._verify()
        if td2.as_dict() != after:
            probs.append('not idempotent: second _verify changed %s' % sorted(
                k for k in after if td2.as_dict().get(k) != after.get(k)))
    except Exception as e:
        probs.append('second _verify raised %r' % e)
    return probs, None


@builder('task_description.py:TaskDescription._verify')
def td_verify(case, rp):
    m = case.get('model') or {}
    d = {k: v for k, v in (m.get('self') or {}).items() if v is not None}
    if d:
        probs, raised = check_verify(rp, d)
        if probs:
            return dict(confirmed=True, detail='; '.join(probs[:3]), input=d)
    # bounded native search: every single deprecated attribute set, two modes
    n = 0
    samples = {'cpu_processes': 3, 'cpu_threads': 2, 'cpu_thread_type': 'OpenMP',
               'gpu_processes': 2, 'gpu_process_type': 'CUDA',
               'lfs_per_process': 10, 'mem_per_process': 20,
               'scheduler': 'master.0', 'worker_file': 'w.py', 'worker_class': 'W'}
    for mode, extra in (('task.executable', {'executable': '/bin/true'}),
                        ('task.function', {'function': 'f'}),
                        (None, {'executable': '/bin/true'})):
        for dep, val in samples.items():
            n += 1
            d = dict(extra); d[dep] = val
            if mode: d['mode'] = mode
            probs, raised = check_verify(rp, d)
            if probs:
                return dict(confirmed=True, detail='; '.join(probs[:3]), input=d,
                            found_by='bounded native search (%d cases)' % n)
    # a description written with a deprecated name must verify to the same
    # thing as the one written with the current name
    for dep, new in TD_ALIASES:
        for val in ([2, 4] if dep in ('cpu_processes', 'cpu_threads', 'gpu_processes',
                    'lfs_per_process', 'mem_per_process') else ['x']):
            n += 1
            a = rp.TaskDescription(from_dict={'executable': '/bin/true', dep: val})
            b = rp.TaskDescription(from_dict={'executable': '/bin/true', new: val})
            try:
                a._verify(); b._verify()
            except Exception as e:
                return dict(confirmed=True, detail='verify raised %r for %s=%r' % (e, dep, val), input={dep: val})
            da, db = a.as_dict(), b.as_dict()
            diff = {k: (da.get(k), db.get(k)) for k in set(da) | set(db) if da.get(k) != db.get(k)}
            if diff:
                return dict(confirmed=True, detail='%s=%r verifies differently from %s=%r: %s'
                            % (dep, val, new, val, diff), input={dep: val},
                            found_by='bounded native search (%d cases)' % n)
    return dict(confirmed=False, detail='model did not reproduce; %d native '
                'cases hold' % n)


# ------------------------------------------------------------------------------
# C20
#
def mk_worker(rp, cores, gpus):
    import threading as mt
    from radical.pilot.raptor.worker_default import DefaultWorker
    w = object.__new__(DefaultWorker)
    w._log, w._prof = Stub(), Stub()
    w._rlock = mt.RLock()
    w._res_evt = mt.Event()
    w._resources = {'cores': list(cores), 'gpus': list(gpus)}
    w._n_cores, w._n_gpus = len(cores), len(gpus)
    return w


def check_alloc(rp, cores, gpus, task):
    w = mk_worker(rp, cores, gpus)
    t = copy.deepcopy(task)
    want_c, want_g = t.get('cores', 1), t.get('gpus', 0)
    try:
        ok = w._alloc(t)
    except AssertionError:
        if want_c < 1 or want_c > len(cores) or want_g > len(gpus):
            return []
        return ['AssertionError for a legal request %r' % task]
    except Exception as e:
        return ['raised %r' % e]
    probs = []
    rc, rg = w._resources['cores'], w._resources['gpus']
    if not ok:
        if rc != list(cores) or rg != list(gpus) or 'slots' in t:
            probs.append('refused but state changed')
        if want_c <= cores.count(0) and want_g <= gpus.count(0):
            probs.append('refused although %d cores / %d gpus are free'
                         % (cores.count(0), gpus.count(0)))
        return probs
    s = t['slots'][0]
    for name, idx, old, new, want in (('core', s['cores'], cores, rc, want_c),
                                      ('gpu', s['gpus'], gpus, rg, want_g)):
        if len(idx) != want: probs.append('%d %ss granted, %d requested' % (len(idx), name, want))
        if len(set(idx)) != len(idx): probs.append('%s granted twice: %s' % (name, idx))
        for i in idx:
            if old[i] != 0: probs.append('%s %d was already held' % (name, i))
            if new[i] != 1: probs.append('%s %d not marked held' % (name, i))
        for i in range(len(old)):
            if i not in idx and new[i] != old[i]:
                probs.append('%s %d changed but was not granted' % (name, i))
    # giving back restores the vector
    try:
        w._dealloc(t)
    except Exception as e:
        probs.append('giving the granted cells back raised %r' % e)
        return probs
    if w._resources['cores'] != list(cores) or w._resources['gpus'] != list(gpus):
        probs.append('alloc + dealloc does not restore the occupancy: %s -> %s'
                     % (cores, w._resources['cores']))
    return probs


@builder('raptor/worker_default.py:DefaultWorker._alloc',
         'raptor/worker_default.py:DefaultWorker._dealloc')
def worker_alloc(case, rp):
    import itertools
    m = case.get('model') or {}
    res = m.get('self._resources')
    if isinstance(res, dict) and isinstance(m.get('task'), dict):
        cores = [c if c in (0, 1) else 0 for c in res.get('cores', []) if isinstance(c, int)]
        gpus  = [c if c in (0, 1) else 0 for c in res.get('gpus', []) if isinstance(c, int)]
        task = {k: v for k, v in m['task'].items() if v is not None and k in ('uid', 'cores', 'gpus')}
        if task.get('gpus', 0) >= 0:
            probs = check_alloc(rp, cores, gpus, task)
            if probs:
                return dict(confirmed=True, detail='; '.join(probs[:3]),
                            input=dict(cores=cores, gpus=gpus, task=task))
    n = 0
    for nc in range(1, 5):
        for occ in itertools.product((0, 1), repeat=nc):
            for gocc in ((), (0,), (1, 0)):
                for want_c in range(1, nc + 1):
                    for want_g in range(0, len(gocc) + 1):
                        n += 1
                        task = {'uid': 't', 'cores': want_c, 'gpus': want_g}
                        probs = check_alloc(rp, list(occ), list(gocc), task)
                        if probs:
                            return dict(confirmed=True, detail='; '.join(probs[:3]),
                                        input=dict(cores=list(occ), gpus=list(gocc), task=task),
                                        found_by='small-scope native enumeration (%d cases)' % n)
    return dict(confirmed=False, detail='model did not reproduce; %d small '
                'occupancy/request cases hold natively' % n)


# ------------------------------------------------------------------------------
# C01 / C02: Continuous._find_resources
#
def mk_continuous(rp, nodes=None):
    from radical.pilot.agent.scheduler.continuous import Continuous
    c = object.__new__(Continuous)
    c._log, c._prof = Stub(), Stub()
    c.nodes = nodes or []
    return c


def check_find_resources(rp, node, n_slots, cps, gps, lfs, mem, partial):
    c = mk_continuous(rp)
    n0 = copy.deepcopy(node)
    try:
        res = c._find_resources(node=node, n_slots=n_slots, cores_per_slot=cps,
                                gpus_per_slot=gps, lfs_per_slot=lfs,
                                mem_per_slot=mem, partial=partial)
    except ValueError:
        if gps >= 1 and int(gps) != gps:
            return []
        return ['ValueError for a legal request']
    except Exception as e:
        return ['raised %r' % e]
    probs = []
    if node != n0: probs.append('the node was modified')
    if res is None:
        if partial: probs.append('None although partial results are allowed')
        return probs
    if len(res) > n_slots: probs.append('%d slots for %d requested' % (len(res), n_slots))
    if not partial and len(res) != n_slots:
        probs.append('%d slots returned, %d requested, not partial' % (len(res), n_slots))
    seen_c, seen_g, share = set(), set(), dict()
    for s in res:
        if s['node_index'] != node['index'] or s['node_name'] != node['name']:
            probs.append('slot names another node')
        if len(s['cores']) != cps:
            probs.append('slot has %d cores, %d requested' % (len(s['cores']), cps))
        for ro in s['cores']:
            i = ro['index']
            if not (0 <= i < len(node['cores'])) or node['cores'][i] != 0.0:
                probs.append('core %d is not free (%r)' % (i, node['cores'][i] if 0 <= i < len(node['cores']) else None))
            if i in seen_c: probs.append('core %d handed out twice' % i)
            seen_c.add(i)
        if gps >= 1:
            if len(s['gpus']) != int(gps):
                probs.append('slot has %d gpus, %d requested' % (len(s['gpus']), gps))
            for ro in s['gpus']:
                i = ro['index']
                if node['gpus'][i] != 0.0: probs.append('gpu %d is not free' % i)
                if i in seen_g: probs.append('gpu %d handed out twice' % i)
                seen_g.add(i)
        elif gps > 0:
            if len(s['gpus']) != 1 or s['gpus'][0]['occupation'] != gps:
                probs.append('slot gpu share is %r, requested %s' % (s['gpus'], gps))
            else:
                i = s['gpus'][0]['index']
                if node['gpus'][i] is None: probs.append('share on blocked gpu %d' % i)
                share[i] = share.get(i, 0.0) + gps
        elif s['gpus']:
            probs.append('gpus handed out although none requested')
        if s['lfs'] != lfs or s['mem'] != mem:
            probs.append('slot lfs/mem %s/%s, requested %s/%s' % (s['lfs'], s['mem'], lfs, mem))
    for i, sh in share.items():
        if (node['gpus'][i] or 0.0) + sh > 1.0 + 1e-9:
            probs.append('shares on gpu %d sum to %.2f (occupied %.2f before)'
                         % (i, sh, node['gpus'][i] or 0.0))
    if sum(s['lfs'] for s in res) > node['lfs']:
        probs.append('slots hold %d lfs, node has %d' % (sum(s['lfs'] for s in res), node['lfs']))
    if sum(s['mem'] for s in res) > node['mem']:
        probs.append('slots hold %d mem, node has %d' % (sum(s['mem'] for s in res), node['mem']))
    return probs


@builder('agent/scheduler/continuous.py:Continuous._find_resources')
def find_resources(case, rp):
    import itertools
    m = case.get('model') or {}
    node = m.get('node')
    if isinstance(node, dict) and all(not isinstance(c, str) for c in node.get('cores', []) + node.get('gpus', [])):
        args = (node, m.get('n_slots', 1), m.get('cores_per_slot', 1),
                m.get('gpus_per_slot', 0.0), m.get('lfs_per_slot', 0),
                m.get('mem_per_slot', 0), bool(m.get('partial')))
        if node.get('cores'):
            probs = check_find_resources(rp, *copy.deepcopy(args))
            if probs:
                return dict(confirmed=True, detail='; '.join(probs[:3]),
                            input=dict(zip(['node', 'n_slots', 'cores_per_slot',
                                  'gpus_per_slot', 'lfs_per_slot', 'mem_per_slot', 'partial'], args)))
    n = 0
    cells = (0.0, 1.0, None)
    for nc in (1, 2, 3):
        for cores in itertools.product(cells, repeat=nc):
            for gpus in ((), (0.0,), (None, 0.0), (0.5, 0.0), (0.0, 0.0)):
                for n_slots in (1, 2, 3):
                    for cps in (1, 2):
                        for gps in (0.0, 0.25, 0.6, 1.0, 2.0):
                            if gps >= 1 and not gpus: continue
                            for lfs, nlfs in ((0, 0), (80, 100)):
                                n += 1
                                node = {'index': 3, 'name': 'n3', 'cores': list(cores),
                                        'gpus': list(gpus), 'lfs': nlfs, 'mem': nlfs}
                                args = (node, n_slots, cps, gps, lfs, lfs, True)
                                probs = check_find_resources(rp, *copy.deepcopy(args))
                                if probs:
                                    return dict(confirmed=True, detail='; '.join(probs[:3]),
                                        input=dict(zip(['node', 'n_slots', 'cores_per_slot',
                                        'gpus_per_slot', 'lfs_per_slot', 'mem_per_slot', 'partial'], args)),
                                        found_by='small-scope native enumeration (%d cases)' % n)
    return dict(confirmed=False, detail='model did not reproduce; %d small node / '
                'request cases hold natively' % n)


# ------------------------------------------------------------------------------
# C01 / C02: Continuous.schedule_task
#
def mk_sched(rp, nodes, cpn, gpn, lfs_pn=0, mem_pn=0, scattered=True,
             colo=None, tagged=None, offset=0):
    c = mk_continuous(rp, nodes)
    info = AttrDict(cores_per_node=cpn, gpus_per_node=gpn, lfs_per_node=lfs_pn,
                    mem_per_node=mem_pn)
    c._rm = AttrDict(info=info)
    c._colo_history = dict(colo or {})
    c._tagged_nodes = set(tagged or [])
    c._partition_ids = []
    c._scattered = scattered
    c._node_offset = offset
    return c


def mk_atask(ranks=1, cpr=1, gpr=0.0, lfs=0, mem=0, rpn=None, tags=None,
             partition=None, uid='task.0000'):
    td = {'ranks': ranks, 'ranks_per_node': rpn, 'cores_per_rank': cpr,
          'gpus_per_rank': gpr, 'lfs_per_rank': lfs, 'mem_per_rank': mem,
          'tags': dict(tags or {}), 'partition': partition}
    return {'uid': uid, 'description': td}


def check_placement(nodes, slots, td, colo_hist=None):
    """C01/C02 clauses on a granted placement, against the node list as it was"""
    probs = []
    cps = td['cores_per_rank'] or 1
    gps = td['gpus_per_rank']
    if len(slots) != td['ranks']:
        probs.append('%d ranks placed, %d requested' % (len(slots), td['ranks']))
    by_index = {n['index']: n for n in nodes}
    used_c, used_g, share, lfs, mem, per_node = set(), set(), dict(), dict(), dict(), dict()
    for s in slots:
        n = by_index.get(s['node_index'])
        if n is None:
            probs.append('slot names node %r which the pilot does not offer' % s['node_index']); continue
        ni = s['node_index']
        per_node[ni] = per_node.get(ni, 0) + 1
        if len(s['cores']) != cps:
            probs.append('rank got %d cores, %d requested' % (len(s['cores']), cps))
        for ro in s['cores']:
            if n['cores'][ro['index']] != 0.0:
                probs.append('core %d of node %d is not free' % (ro['index'], ni))
            if (ni, ro['index']) in used_c:
                probs.append('core %d of node %d placed twice' % (ro['index'], ni))
            used_c.add((ni, ro['index']))
        if gps >= 1:
            if len(s['gpus']) != int(gps): probs.append('rank got %d gpus' % len(s['gpus']))
            for ro in s['gpus']:
                if n['gpus'][ro['index']] != 0.0: probs.append('gpu %d of node %d not free' % (ro['index'], ni))
                if (ni, ro['index']) in used_g: probs.append('gpu %d of node %d placed twice' % (ro['index'], ni))
                used_g.add((ni, ro['index']))
        elif gps > 0:
            for ro in s['gpus']:
                share[(ni, ro['index'])] = share.get((ni, ro['index']), 0.0) + ro['occupation']
        if s['lfs'] != td['lfs_per_rank'] or s['mem'] != td['mem_per_rank']:
            probs.append('rank lfs/mem %s/%s differs from the request' % (s['lfs'], s['mem']))
        lfs[ni] = lfs.get(ni, 0) + s['lfs']
        mem[ni] = mem.get(ni, 0) + s['mem']
    for (ni, g), sh in share.items():
        if (by_index[ni]['gpus'][g] or 0.0) + sh > 1.0 + 1e-9:
            probs.append('shares on gpu %d of node %d sum to %.2f' % (g, ni, sh))
    for ni in lfs:
        if lfs[ni] > by_index[ni]['lfs']: probs.append('node %d: %d lfs held, %d available' % (ni, lfs[ni], by_index[ni]['lfs']))
        if mem[ni] > by_index[ni]['mem']: probs.append('node %d: %d mem held, %d available' % (ni, mem[ni], by_index[ni]['mem']))
    if td.get('ranks_per_node'):
        for ni, k in per_node.items():
            if k > td['ranks_per_node']:
                probs.append('node %d got %d ranks, limit %d' % (ni, k, td['ranks_per_node']))
    tag = td['tags'].get('colocate')
    if tag is not None and colo_hist and str(tag) in colo_hist:
        for s in slots:
            if s['node_index'] not in colo_hist[str(tag)]:
                probs.append('colocate tag %r: node %d was not used for the tag before' % (tag, s['node_index']))
    return probs


def run_schedule_task(rp, nodes, cpn, gpn, task, **kw):
    c = mk_sched(rp, copy.deepcopy(nodes), cpn, gpn, **kw)
    hist = copy.deepcopy(c._colo_history)
    try:
        slots, part = c.schedule_task(copy.deepcopy(task))
    except (AssertionError, ValueError):
        return [], 'rejected'
    except Exception as e:
        return ['raised %r' % e], None
    probs = []
    if c.nodes != nodes: probs.append('schedule_task modified the node list')
    if slots is None:
        return probs, 'none'
    return probs + check_placement(nodes, slots, task['description'], hist), 'granted'


@builder('agent/scheduler/continuous.py:Continuous.schedule_task')
def schedule_task(case, rp):
    import itertools
    n = 0
    cells = (0.0, 1.0, None)
    for nn in (1, 2, 3):
        for occ in itertools.product(cells, repeat=2 * nn):
            nodes = [{'index': 10 + i, 'name': 'n%d' % i, 'cores': list(occ[2*i:2*i+2]),
                      'gpus': [0.0, 0.0] if i % 2 == 0 else [None, 0.5], 'lfs': 100, 'mem': 64}
                     for i in range(nn)]
            for ranks in (1, 2, 3):
                for cpr, gpr, lfs, rpn in ((1, 0.0, 0, None), (2, 0.0, 0, None), (1, 1.0, 0, None),
                                           (1, 0.6, 0, None), (1, 0.0, 80, None), (1, 0.0, 0, 1),
                                           (1, 1.0, 0, 1), (1, 0.0, 10, 1)):
                    for scattered in (True, False):
                        for tags, colo in (({}, {}), ({'colocate': 't'}, {'t': [10]})):
                            n += 1
                            task = mk_atask(ranks, cpr, gpr, lfs, 0, rpn, tags)
                            probs, what = run_schedule_task(rp, nodes, 2, 2, task,
                                          lfs_pn=100, mem_pn=64, scattered=scattered,
                                          colo=colo, offset=n % nn)
                            if probs:
                                return dict(confirmed=True, detail='; '.join(probs[:3]),
                                    input=dict(nodes=nodes, task=task['description'],
                                               scattered=scattered, colo_history=colo, node_offset=n % nn),
                                    found_by='small-scope native enumeration (%d cases)' % n)
    return dict(confirmed=False, detail='%d small node-list / request cases hold natively' % n)


@builder('agent/scheduler/continuous.py:Continuous._iterate_nodes')
def iterate_nodes(case, rp):
    n = 0
    for nn in range(0, 5):
        for off in range(0, max(nn, 1)):
            n += 1
            c = mk_continuous(rp, [{'index': i} for i in range(nn)])
            c._node_offset = off
            try:
                got = [x['index'] for x in c._iterate_nodes()]
            except Exception as e:
                return dict(confirmed=True, detail='iterating %d node(s) from offset %d raised %r' % (nn, off, e),
                            input=dict(n_nodes=nn, node_offset=off),
                            found_by='small-scope native enumeration (%d cases)' % n)
            want = [(off + i) % nn for i in range(nn)]
            if got != want:
                return dict(confirmed=True, detail='yielded %s, expected every node '
                            'once from the offset: %s' % (got, want),
                            input=dict(n_nodes=nn, node_offset=off),
                            found_by='small-scope native enumeration (%d cases)' % n)
    return dict(confirmed=False, detail='%d cases hold natively' % n)


# ------------------------------------------------------------------------------
# C01 / C03: grant and release on the node list
#
class _FakeQueue:
    def __init__(self, bulks): self.bulks = list(bulks)
    def get(self, timeout=None):
        import queue
        if not self.bulks: raise queue.Empty()
        return self.bulks.pop(0)


def sched_roundtrip(rp, nodes, cpn, gpn, task, **kw):
    """grant a task, check what was marked, release it, compare with before"""
    c = mk_sched(rp, copy.deepcopy(nodes), cpn, gpn, **kw)
    c._active_cnt = 1              # something else is running: no "never" failure
    c.slot_status = lambda *a, **k: None
    before = copy.deepcopy(c.nodes)
    t = copy.deepcopy(task)
    try:
        ok = c._try_allocation(t)
    except (AssertionError, ValueError, RuntimeError):
        if c.nodes != before: return ['a rejected task changed the node list']
        return []
    except Exception as e:
        return ['_try_allocation raised %r' % e]
    probs = []
    if not ok:
        if c.nodes != before or c._active_cnt != 1:
            probs.append('a task that was not placed changed the scheduler state')
        return probs
    if c._active_cnt != 2: probs.append('_active_cnt is %d after one grant' % c._active_cnt)
    probs += check_placement(before, t['slots'], t['description'])
    named_c = set((s['node_index'], ro['index']) for s in t['slots'] for ro in s['cores'])
    named_g = set((s['node_index'], ro['index']) for s in t['slots'] for ro in s['gpus'])
    for nb, na in zip(before, c.nodes):
        for i, (b, a) in enumerate(zip(nb['cores'], na['cores'])):
            if (nb['index'], i) in named_c:
                if a != 1.0: probs.append('granted core %d of node %d not marked busy' % (i, nb['index']))
            elif a != b: probs.append('core %d of node %d changed without being granted' % (i, nb['index']))
        for i, (b, a) in enumerate(zip(nb['gpus'], na['gpus'])):
            if (nb['index'], i) in named_g:
                if a != 1.0: probs.append('granted gpu %d of node %d not marked busy' % (i, nb['index']))
            elif a != b: probs.append('gpu %d of node %d changed without being granted' % (i, nb['index']))
        held = sum(s['lfs'] for s in t['slots'] if s['node_index'] == nb['index'])
        if na['lfs'] != nb['lfs'] - held: probs.append('node %d lfs %d -> %d, %d held' % (nb['index'], nb['lfs'], na['lfs'], held))
        if na['lfs'] < 0 or na['mem'] < 0: probs.append('node %d lfs/mem negative' % nb['index'])
    # release through the real completion path
    c._queue_unsched = _FakeQueue([[t]])
    c._term = _Event()
    c._refresh_ts_map = lambda: None
    try:
        c._unschedule_completed()
    except Exception as e:
        return probs + ['_unschedule_completed raised %r' % e]
    if c.nodes != before:
        probs.append('grant + release does not restore the node list')
    if c._active_cnt != 1:
        probs.append('_active_cnt is %d after grant + release (was 1)' % c._active_cnt)
    return probs


@builder('agent/scheduler/base.py:AgentSchedulingComponent._change_slot_states',
         'agent/scheduler/base.py:AgentSchedulingComponent._try_allocation',
         'agent/scheduler/base.py:AgentSchedulingComponent._unschedule_completed',
         'agent/scheduler/continuous.py:Continuous.unschedule_task',
         'utils/misc.py:convert_slots_to_new')
def sched_ops(case, rp):
    import itertools
    n = 0
    cells = (0.0, 1.0, None)
    for nn in (1, 2):
        for occ in itertools.product(cells, repeat=2 * nn):
            nodes = [{'index': 5 + i, 'name': 'n%d' % i, 'cores': list(occ[2*i:2*i+2]),
                      'gpus': [0.0, None], 'lfs': 100, 'mem': 64} for i in range(nn)]
            for ranks in (1, 2, 3):
                for cpr, gpr, lfs in ((1, 0.0, 0), (2, 0.0, 0), (1, 1.0, 0), (1, 0.5, 0), (1, 0.0, 40)):
                    n += 1
                    task = mk_atask(ranks, cpr, gpr, lfs, lfs // 2)
                    probs = sched_roundtrip(rp, nodes, 2, 2, task, lfs_pn=100, mem_pn=64,
                                            offset=n % nn)
                    if probs:
                        return dict(confirmed=True, detail='; '.join(probs[:3]),
                                    input=dict(nodes=nodes, task=task['description']),
                                    found_by='small-scope native enumeration (%d cases)' % n)
    # giving up ("can never be scheduled") only when nothing is running
    for active in (1, 2, 3):
        nodes = [{'index': 0, 'name': 'n0', 'cores': [0.0] * 4, 'gpus': [0.0], 'lfs': 0, 'mem': 0}]
        c = mk_sched(rp, nodes, 4, 1)
        c._active_cnt = 0
        c.slot_status = lambda *a, **k: None
        for i in range(active):
            c._try_allocation(mk_atask(1, 1, uid='run.%d' % i))
        big = mk_atask(1, 4, uid='big')
        try:
            r = c._try_allocation(big)
            if r is not False:
                return dict(confirmed=True, detail='a 4-core task was granted on a 4-core node with %d cores busy' % active,
                            input=dict(active=active))
        except Exception as e:
            return dict(confirmed=True, detail='with %d task(s) running a 4-core task that fits the idle 1x4 pilot is given up: %r' % (active, e),
                        input=dict(nodes='1 node x 4 cores', running='%d one-core tasks' % active, request='1 rank x 4 cores'),
                        found_by='directed native scenario')
    # many completions pending at once (the drain loop bulks up to 512+)
    probs = sched_mass_release(rp, 600)
    if probs:
        return dict(confirmed=True, detail='; '.join(probs[:3]),
                    input=dict(scenario='600 one-core tasks granted on 40x16 cores, '
                               'released as 30 single messages and bulks of 50'),
                    found_by='bounded native scenario')
    return dict(confirmed=False, detail='%d grant/release round trips and a 600-task '
                'mass release hold natively' % n)


def sched_mass_release(rp, n_tasks):
    nodes = [{'index': i, 'name': 'n%03d' % i, 'cores': [0.0] * 16, 'gpus': [0.0, 0.0],
              'lfs': 1000, 'mem': 1024} for i in range(40)]
    c = mk_sched(rp, copy.deepcopy(nodes), 16, 2, lfs_pn=1000, mem_pn=1024)
    c._active_cnt = 0
    c.slot_status = lambda *a, **k: None
    tasks = []
    for i in range(n_tasks):
        t = mk_atask(1, 1, 0.0, 3, 2, uid='task.%06d' % i)
        if not c._try_allocation(t):
            return ['could not place task %d of %d one-core tasks on 640 cores' % (i, n_tasks)]
        tasks.append(t)
    import queue as _q
    q = _q.Queue()
    for t in tasks[:30]: q.put(t)
    for i in range(30, n_tasks, 50): q.put(tasks[i:i + 50])

    class _Q:
        def get(self, timeout=None):
            try: return q.get_nowait()
            except _q.Empty: raise
        def put(self, x): q.put(x)
    c._queue_unsched = _Q()
    c._term = _Event()
    c._refresh_ts_map = lambda: None
    for _ in range(20):
        c._unschedule_completed()
        if q.empty(): break
    probs = []
    if c.nodes != nodes:
        bad = [n['name'] for n, m in zip(c.nodes, nodes) if n != m]
        probs.append('after releasing all %d tasks the node list is not restored (%s)'
                     % (n_tasks, ', '.join(bad[:3])))
    if c._active_cnt != 0:
        probs.append('_active_cnt is %d after all tasks were released' % c._active_cnt)
    return probs


# ------------------------------------------------------------------------------
# C14: why the agent ended
#
def mk_agent0(rp, runtime, started_ago, cause=None):
    from radical.pilot.agent.agent_0 import Agent_0
    import radical.pilot.utils as rpu
    a = object.__new__(Agent_0)
    a._log, a._prof = Stub(), Stub()
    a._cfg = AttrDict(runtime=runtime)
    a._starttime = time.time() - started_ago
    a._final_cause = cause
    a._pid = 'pilot.0000'
    a._session = Stub()
    a.publish = lambda *a_, **k: None
    return a


def _no_base_stop(rp):
    """neutralise the component base class stop() (threads, bridges)"""
    import radical.pilot.utils as rpu
    saved = rpu.AgentComponent.stop
    rpu.AgentComponent.stop = lambda self: None
    return saved


@builder('agent/agent_0.py:Agent_0.stop', 'agent/agent_0.py:Agent_0._check_lifetime',
         'agent/agent_0.py:Agent_0._ctrl_cancel_pilots')
def agent0_cause(case, rp):
    import radical.pilot.utils as rpu
    saved = _no_base_stop(rp)
    probs = []
    try:
        # a pilot that ran until its requested run time
        a = mk_agent0(rp, runtime=1, started_ago=61)
        r = a._check_lifetime()
        if r is not False: probs.append('_check_lifetime returned %r after the run time' % r)
        if a._final_cause != 'timeout':
            probs.append("run time exceeded, but the final cause is %r (the pilot will end %s, not DONE)"
                         % (a._final_cause, {'cancel': 'CANCELED'}.get(a._final_cause, 'FAILED')))
        # still within its run time
        a = mk_agent0(rp, runtime=10, started_ago=1)
        if a._check_lifetime() is not True or a._final_cause is not None:
            probs.append('lifetime check fired early (cause %r)' % a._final_cause)
        # cancel request naming / not naming this pilot
        a = mk_agent0(rp, runtime=10, started_ago=1)
        a._ctrl_cancel_pilots({'cmd': 'cancel_pilots', 'arg': {'uids': ['pilot.0000']}})
        if a._final_cause != 'cancel': probs.append('named cancel gives cause %r' % a._final_cause)
        a = mk_agent0(rp, runtime=10, started_ago=1)
        a._ctrl_cancel_pilots({'cmd': 'cancel_pilots', 'arg': {'uids': ['pilot.0007']}})
        if a._final_cause is not None: probs.append('cancel for another pilot gives cause %r' % a._final_cause)
        # stop() keeps a cause that is already known
        a = mk_agent0(rp, runtime=10, started_ago=1, cause='timeout')
        a.stop()
        if a._final_cause != 'timeout': probs.append("stop() replaced the cause 'timeout' by %r" % a._final_cause)
    finally:
        rpu.AgentComponent.stop = saved
    return dict(confirmed=bool(probs), detail='; '.join(probs[:3]) or 'causes are kept natively',
                input=dict(scenario='runtime=1 min, started 61 s ago; cancel named/other; stop() with cause timeout'))


@builder('states.py:_pilot_state_progress')
def pilot_state_progress(case, rp):
    vals = rp.states._pilot_state_values
    inv  = rp.states._pilot_state_inv
    n = 0
    for cur in vals:
        for tgt in vals:
            n += 1
            try:
                new, passed = rp.states._pilot_state_progress('p', cur, tgt)
            except ValueError:
                if cur == 'DONE' and tgt in ('FAILED', 'CANCELED'): continue
                return dict(confirmed=True, detail='ValueError for %s -> %s' % (cur, tgt),
                            input=dict(current=cur, target=tgt))
            probs = []
            if vals[new] < vals[cur]: probs.append('moved backward to %s' % new)
            if cur in FINAL and new not in FINAL: probs.append('final state left for %s' % new)
            if vals[tgt] > vals[cur]:
                want = [inv[i] for i in range(vals[cur] + 1, vals[tgt])] + [tgt]
                if new != tgt or list(passed) != want:
                    probs.append('advance gives %s %s, expected %s %s' % (new, passed, tgt, want))
            elif passed:
                probs.append('passed %s although nothing to advance' % passed)
            if probs:
                return dict(confirmed=True, detail='; '.join(probs), input=dict(current=cur, target=tgt),
                            found_by='exhaustive native enumeration (%d pairs)' % n)
    return dict(confirmed=False, detail='all %d pairs hold natively' % n)


# ------------------------------------------------------------------------------
# C18: node list
#
def mk_rm(rp, agents=0):
    from radical.pilot.agent.resource_manager.base import ResourceManager
    rm = object.__new__(ResourceManager)
    rm._log, rm._prof = Stub(), Stub()
    rm._cfg = AttrDict(agents={'agent_%d' % i: {'target': 'node'} for i in range(1, agents + 1)})
    return rm


@builder('agent/resource_manager/base.py:ResourceManager._filter_nodes',
         'agent/resource_manager/base.py:ResourceManager._get_node_list',
         'agent/resource_manager/base.py:ResourceManager._get_cores_per_node',
         'agent/resource_manager/base.py:ResourceManager._init_from_scratch#blocked')
def rm_nodes(case, rp):
    from radical.pilot.agent.resource_manager.base import RMInfo
    n = 0
    for nn in range(1, 6):
        for cpn in (1, 3):
            rm = mk_rm(rp)
            nodes = [('node%d' % i, cpn) for i in range(nn)]
            info = RMInfo({'gpus_per_node': 2, 'lfs_per_node': 10, 'mem_per_node': 20})
            nl = rm._get_node_list(nodes, info)
            probs = []
            if [x['index'] for x in nl] != list(range(nn)): probs.append('indices %s' % [x['index'] for x in nl])
            if any(x['cores'] != [0.0] * cpn or x['gpus'] != [0.0, 0.0] for x in nl):
                probs.append('cores/gpus not as configured')
            if rm._get_cores_per_node(nodes) != cpn: probs.append('cores per node')
            if probs:
                return dict(confirmed=True, detail='_get_node_list: ' + '; '.join(probs), input=dict(nodes=nodes))
            for req in range(1, nn + 1):
                for agents in (0, 1, 2):
                    n += 1
                    rm = mk_rm(rp, agents)
                    info = RMInfo({'node_list': copy.deepcopy(nl), 'requested_nodes': req,
                                   'backup_nodes': 0, 'agent_node_list': [], 'service_node_list': []})
                    try:
                        rm._filter_nodes(info)
                    except (RuntimeError, IndexError, AssertionError):
                        continue
                    got = info.node_list
                    names = [x['name'] for x in got]
                    anames = [x['name'] for x in info.agent_node_list]
                    probs = []
                    if not got: probs.append('empty node list')
                    if len(got) > req: probs.append('%d nodes offered, %d requested' % (len(got), req))
                    if len(set(x['index'] for x in got)) != len(got): probs.append('duplicate node index')
                    if set(names) & set(anames): probs.append('agent node %s also offered to tasks' % (set(names) & set(anames)))
                    if any(x not in nl for x in got): probs.append('a node that was not allocated is offered')
                    if probs:
                        return dict(confirmed=True, detail='_filter_nodes: ' + '; '.join(probs),
                                    input=dict(n_nodes=nn, requested=req, agents=agents),
                                    found_by='small-scope native enumeration (%d cases)' % n)
    return dict(confirmed=False, detail='%d node-list cases hold natively' % n)


_FRAG_CACHE = dict()


def exec_fragment(rp, rel, qualname, prefix, env):
    """run one statement of the real function text (the `fragment` of a spec)
    natively in the given environment"""
    import ast, os, textwrap
    path = os.path.join(os.path.dirname(rp.__file__), rel)
    ck = (path, qualname, prefix)
    if ck in _FRAG_CACHE:
        exec(_FRAG_CACHE[ck], env)
        return env
    src = open(path).read()
    tree = ast.parse(src)
    if prefix.startswith('marker:'):
        fn = [n for n in ast.walk(tree) if isinstance(n, ast.FunctionDef)
              and n.name == qualname.split('.')[-1]][0]
        hit = [n for n in fn.body if prefix[7:] in (ast.get_source_segment(src, n) or '')]
    else:
        hit = [n for n in ast.walk(tree) if isinstance(n, ast.stmt) and
               (ast.get_source_segment(src, n) or '').startswith(prefix)]
        if len(hit) > 1:
            fns = [n for n in ast.walk(tree) if isinstance(n, ast.FunctionDef)
                   and n.name == qualname.split('.')[-1]]
            hit = [n for f in fns for n in ast.walk(f) if isinstance(n, ast.stmt) and
                   (ast.get_source_segment(src, n) or '').startswith(prefix)]
    assert len(hit) == 1, 'fragment %r matches %d statements' % (prefix, len(hit))
    lines = src.split('\n')[hit[0].lineno - 1:hit[0].end_lineno]
    code = textwrap.dedent('\n'.join(lines))
    _FRAG_CACHE[ck] = compile(code, path, 'exec')
    exec(_FRAG_CACHE[ck], env)
    return env


def check_blocked(rp):
    import radical.pilot.constants as rpc
    n = 0
    for nn in (1, 2):
        for bc in ([], [0], [1, 2]):
            for bg in ([], [1], [0, 1]):
                n += 1
                nl = [{'index': i, 'name': 'n%d' % i, 'cores': [0.0] * 4, 'gpus': [0.0, 0.0],
                       'lfs': 1, 'mem': 2} for i in range(nn)]
                before = copy.deepcopy(nl)
                info = AttrDict(cores_per_node=4, gpus_per_node=2, node_list=nl)
                env = dict(rm_info=info, blocked_cores=bc, blocked_gpus=bg, rpc=rpc, len=len, any=any)
                exec_fragment(rp, 'agent/resource_manager/base.py', 'ResourceManager._init_from_scratch',
                              "marker:node['cores'][idx] = rpc.DOWN", env)
                probs = []
                for nb, na in zip(before, nl):
                    for i in range(4):
                        want = None if i in bc else nb['cores'][i]
                        if na['cores'][i] != want: probs.append('node %d core %d is %r, expected %r' % (nb['index'], i, na['cores'][i], want))
                    for i in range(2):
                        want = None if i in bg else nb['gpus'][i]
                        if na['gpus'][i] != want: probs.append('node %d gpu %d is %r, expected %r' % (nb['index'], i, na['gpus'][i], want))
                if info.cores_per_node != 4 - len(bc) or info.gpus_per_node != 2 - len(bg):
                    probs.append('per-node figures %d/%d' % (info.cores_per_node, info.gpus_per_node))
                if probs:
                    return probs[:3], dict(blocked_cores=bc, blocked_gpus=bg, n_nodes=nn), n
    return [], None, n


_rm_nodes_plain = rm_nodes


@builder('agent/resource_manager/base.py:ResourceManager._init_from_scratch#blocked')
def rm_blocked(case, rp):
    probs, inp, n = check_blocked(rp)
    if probs:
        return dict(confirmed=True, detail='blocked marking: ' + '; '.join(probs), input=inp,
                    found_by='the real statement executed natively over %d small cases' % n)
    return dict(confirmed=False, detail='%d blocked-marking cases hold natively' % n)


# ------------------------------------------------------------------------------
# C14: PilotManager._update_pilot / Pilot._update
#
def mk_pmgr(rp, pilots):
    import threading as mt
    from radical.pilot.pilot_manager import PilotManager
    from radical.pilot.pilot import Pilot
    pm = object.__new__(PilotManager)
    pm._log, pm._prof = Stub(), Stub()
    pm._pilots_lock = mt.RLock()
    pm._pilots = dict()
    pm.cb_log = list()
    pm.advance = lambda *a, **k: None
    pm._call_pilot_callbacks = lambda pilot: pm.cb_log.append((pilot.uid, pilot.state))
    for uid, state in pilots.items():
        p = object.__new__(Pilot)
        p._log = Stub(); p._uid = uid; p._state = state
        p._sub = Stub(); p._pilot_dict = dict(); p._cb_lock = mt.RLock()
        p._callbacks = {rp.constants.PILOT_STATE: dict()}
        p._pmgr = pm
        pm._pilots[uid] = p
    return pm


@builder('pilot_manager.py:PilotManager._update_pilot', 'pilot.py:Pilot._update')
def update_pilot(case, rp):
    import itertools
    vals = rp.states._pilot_state_values
    states = [s for s in vals if s is not None]
    n = 0
    for length in (1, 2, 3):
        for seq in itertools.product(states, repeat=length):
            n += 1
            pm = mk_pmgr(rp, {'p1': 'NEW', 'p2': 'PMGR_ACTIVE'})
            seen, probs = [], []
            for s in seq:
                before = pm._pilots['p1'].state
                try:
                    pm._update_pilot({'uid': 'p1', 'state': s, 'type': 'pilot'})
                    pm._update_pilot({'uid': 'unknown', 'state': s, 'type': 'pilot'})
                except ValueError:
                    if not (before == 'DONE' and s in ('FAILED', 'CANCELED')):
                        probs.append('ValueError for %s -> %s' % (before, s))
                except Exception as e:
                    probs.append('raised %r on %s -> %s' % (e, before, s))
                after = pm._pilots['p1'].state
                if vals[after] < vals[before]: probs.append('state moved backward %s -> %s' % (before, after))
                if before in FINAL and after not in FINAL: probs.append('final state %s left for %s' % (before, after))
            last = -1
            for uid, st in pm.cb_log:
                if uid != 'p1': probs.append('callback for %s' % uid)
                if vals[st] < last: probs.append('callback saw %s after a later state' % st)
                last = max(last, vals[st])
            if pm._pilots['p2'].state != 'PMGR_ACTIVE': probs.append('another pilot was changed')
            if probs:
                return dict(confirmed=True, detail='; '.join(probs[:3]),
                            input=dict(notifications=list(seq), start='NEW'),
                            found_by='exhaustive native enumeration of notification sequences up to length 3 (%d tried)' % n)
    return dict(confirmed=False, detail='%d notification sequences hold natively' % n)


# ------------------------------------------------------------------------------
# C12: client-side scheduler
#
class _Sess:
    def __getattr__(self, name):
        return lambda *a, **k: 'file://localhost/tmp/%s' % name


def mk_rr(rp):
    import threading as mt
    from radical.pilot.tmgr.scheduler.round_robin import RoundRobin
    s = object.__new__(RoundRobin)
    s._log, s._prof = Stub(), Stub()
    s._pilots_lock = mt.RLock(); s._tasks_lock = mt.RLock(); s._wait_lock = mt.RLock()
    s._pilots, s._early, s._tasks = dict(), dict(), dict()
    s._tmgr = 'tmgr.0000'
    s._session = _Sess()
    s._pids, s._idx, s._wait_pool = list(), 0, list()
    s.fwd = list()        # (uid, pilot, state) per advance
    def advance(things, state=None, **kw):
        for t in (things if isinstance(things, list) else [things]):
            s.fwd.append((t['uid'], t.get('pilot'), state))
    s.advance = advance
    return s


def rr_cmd(s, cmd, **arg):
    arg.setdefault('tmgr', s._tmgr)
    return s.control_cb('control_pubsub', {'cmd': cmd, 'arg': arg})


def check_rr_history(rp, ops):
    """run a history of operations on a RoundRobin scheduler and check C12"""
    FWD = 'TMGR_STAGING_INPUT_PENDING'
    s = mk_rr(rp)
    added, probs, n_task = set(), [], [0]
    named_of = dict()
    for op in ops:
        kind = op[0]
        try:
            if kind == 'add':
                rr_cmd(s, 'add_pilots', pilots=[{'uid': p, 'state': 'PMGR_ACTIVE'} for p in op[1]])
                added |= set(op[1])
            elif kind == 'remove':
                rr_cmd(s, 'remove_pilots', pids=list(op[1]))
                added -= set(op[1])
            elif kind == 'submit':        # ('submit', n, named pilot or None)
                batch = []
                for _ in range(op[1]):
                    n_task[0] += 1
                    t = {'uid': 'task.%04d' % n_task[0]}
                    if op[2]:
                        t['pilot'] = op[2]
                        named_of[t['uid']] = op[2]
                    batch.append(t)
                before = len(s.fwd)
                named = op[2]
                s.work(batch)
                new = [f for f in s.fwd[before:] if f[2] == FWD]
                if not named and added:
                    got = set(f[0] for f in new)
                    lost = [t['uid'] for t in batch if t['uid'] not in got]
                    if lost:
                        probs.append('%s not forwarded although pilots %s are added (%s)'
                                     % (lost, sorted(added), [f for f in s.fwd[before:] if f[0] in lost]))
                    loads = dict()
                    for uid, pid, st in new:
                        loads[pid] = loads.get(pid, 0) + 1
                        if pid not in added:
                            probs.append('%s bound to %s which is not added (added: %s)' % (uid, pid, sorted(added)))
                    counts = [loads.get(p, 0) for p in s._pids]
                    if counts and max(counts) - min(counts) > 1:
                        probs.append('round robin loads %s differ by more than one' % dict(zip(s._pids, counts)))
                if named:
                    for uid, pid, st in new:
                        if pid != named: probs.append('%s named %s but was bound to %s' % (uid, named, pid))
        except ValueError:
            pass
        except Exception as e:
            probs.append('%s raised %r' % (op, e))
    for uid, pid, st in s.fwd:
        if st == FWD and uid in named_of and pid != named_of[uid]:
            probs.append('%s names pilot %s but was bound to %s' % (uid, named_of[uid], pid))
    fw = dict()
    for uid, pid, st in s.fwd:
        if st == FWD: fw[uid] = fw.get(uid, 0) + 1
    for uid, k in fw.items():
        if k != 1: probs.append('%s forwarded %d times' % (uid, k))
    # a task that names a pilot waits for it: once that pilot has been added it is forwarded
    ever_added = set(p for op in ops if op[0] == 'add' for p in op[1])
    for uid, pid in sorted(named_of.items()):
        if pid in ever_added and not fw.get(uid):
            last_add = max(i for i, op in enumerate(ops) if op[0] == 'add' and pid in op[1])
            sub_at = [i for i, op in enumerate(ops) if op[0] == 'submit']
            probs.append('%s names pilot %s, which was added (operation %d), but was never forwarded' % (uid, pid, last_add))
    return probs


def rr_random_histories(seed, n):
    import random
    rnd = random.Random(seed)
    for _ in range(n):
        ops, added = [], set()
        for _ in range(rnd.randint(2, 8)):
            r = rnd.random()
            if r < 0.3:
                ps = rnd.sample(['p1', 'p2', 'p3'], rnd.randint(1, 2))
                ps = [p for p in ps if p not in added]
                if ps: ops.append(('add', ps)); added |= set(ps)
            elif r < 0.4 and added:
                p = rnd.choice(sorted(added)); ops.append(('remove', [p])); added.discard(p)
            else:
                ops.append(('submit', rnd.randint(1, 3), rnd.choice([None, None, 'p1', 'p2', 'p3'])))
        # every named pilot is added in the end, so that every named task must have been forwarded
        rest = [p for p in ('p1', 'p2', 'p3') if p not in added]
        if rest: ops.append(('add', rest))
        yield ops


@builder('tmgr/scheduler/base.py:TMGRSchedulingComponent.control_cb',
         'tmgr/scheduler/base.py:TMGRSchedulingComponent.work',
         'tmgr/scheduler/base.py:TMGRSchedulingComponent._assign_pilot',
         'tmgr/scheduler/base.py:TMGRSchedulingComponent._update_pilot_states',
         'tmgr/scheduler/round_robin.py:RoundRobin._schedule_tasks',
         'tmgr/scheduler/round_robin.py:RoundRobin._work',
         'tmgr/scheduler/round_robin.py:RoundRobin.add_pilots',
         'tmgr/scheduler/round_robin.py:RoundRobin.remove_pilots')
def tmgr_rr(case, rp):
    histories = [
        [('submit', 3, None), ('add', ['p1']), ('submit', 2, None)],
        [('add', ['p1', 'p2', 'p3']), ('submit', 7, None), ('submit', 2, None)],
        [('add', ['p1', 'p2']), ('remove', ['p1']), ('submit', 4, None)],
        [('submit', 2, 'p1'), ('add', ['p1']), ('remove', ['p1']), ('add', ['p1']), ('submit', 1, 'p1')],
        [('add', ['p1']), ('submit', 2, 'p2'), ('add', ['p2']), ('submit', 3, None)],
        [('submit', 2, 'p1'), ('submit', 1, 'p2'), ('add', ['p1', 'p2', 'p3'])],
        [('submit', 1, 'p3'), ('submit', 2, 'p2'), ('add', ['p2', 'p3']), ('add', ['p1'])],
        [('add', ['p1', 'p2']), ('submit', 1, None), ('submit', 1, None), ('submit', 1, None), ('remove', ['p2']), ('submit', 3, None)],
        [('submit', 2, 'p1'), ('submit', 1, 'p1'), ('submit', 1, 'p2'), ('submit', 2, 'p1'), ('add', ['p1']), ('add', ['p2'])],
    ]
    histories += list(rr_random_histories(1207, 150))
    for k, h in enumerate(histories):
        probs = check_rr_history(rp, h)
        if probs:
            return dict(confirmed=True, detail='; '.join(probs[:3]), input=dict(history=h),
                        found_by='bounded native histories (%d of %d)' % (k + 1, len(histories)))
    return dict(confirmed=False, detail='%d scheduler histories hold natively' % len(histories))


# ------------------------------------------------------------------------------
# C07 / C08 / C03: executor
#
class _FakeProc:
    def __init__(self, code=None): self.code, self.pid, self.waited = code, 4242, 0
    def poll(self): return self.code
    def wait(self, *a, **k): self.waited += 1; return self.code


def mk_popen(rp):
    import threading as mt
    from radical.pilot.agent.executing.popen import Popen
    p = object.__new__(Popen)
    p._log, p._prof = Stub(), Stub()
    p._check_lock = mt.RLock(); p._cancel_lock = mt.RLock()
    p._tasks = dict(); p._cancel_list = list()
    p.pub, p.adv = list(), list()
    p.publish = lambda chan, msg: p.pub.append((chan, [t['uid'] for t in (msg if isinstance(msg, list) else [msg])]))
    def advance(things, state=None, **kw):
        for t in (things if isinstance(things, list) else [things]):
            p.adv.append((t['uid'], state, t.get('target_state')))
    p.advance = advance
    p.advance_tasks = advance
    launcher = Stub()
    p._rm = type('RM', (), {'get_launcher': lambda self, n: launcher})()
    return p


def released(p, uid):
    return sum(ids.count(uid) for chan, ids in p.pub if chan == 'agent_unschedule_pubsub')


@builder('agent/executing/base.py:AgentExecutingComponent.is_canceled',
         'utils/component.py:BaseComponent.is_canceled')
def intake_cancel(case, rp):
    """the executor's is_canceled on the real code: a named task is reported CANCELED
    once; if it holds a placement and has no process yet, its release is requested
    exactly once; a task that has a process, or is not named, is not released here"""
    probs = []
    for has_proc in (False, True):
        p = mk_popen(rp)
        p._cancel_list = ['task.0001']
        placed = {'uid': 'task.0001', 'state': 'AGENT_EXECUTING_PENDING',
                  'slots': [{'node_index': 0, 'cores': [{'index': 0, 'occupation': 1.0}], 'gpus': []}]}
        if has_proc: placed['proc'] = _FakeProc(None)
        other = {'uid': 'task.0002', 'state': 'AGENT_EXECUTING_PENDING', 'slots': []}
        if p.is_canceled(other) is not False or p.adv or p.pub:
            probs.append('a task that was not named was canceled or released')
        r = p.is_canceled(placed)
        if r is not True: probs.append('named task not reported canceled')
        if ('task.0001', 'CANCELED', None) not in p.adv: probs.append('named task not advanced to CANCELED')
        k = released(p, 'task.0001')
        if not has_proc and k != 1:
            probs.append('task.0001 held a placement (1 core on node 0), has no process yet and was given up as canceled, '
                         'but its release was requested %d times (expected once): the core stays BUSY' % k)
        if has_proc and k != 0:
            probs.append('task.0001 already has a process (cancel_task / the watcher will release it), but is_canceled requested its release %d times' % k)
        if p.is_canceled(placed) is not False:
            probs.append('the cancel request was not consumed')
        if probs:
            return dict(confirmed=True, detail='; '.join(probs[:3]), input=dict(cancel_list=['task.0001'], task_has_process=has_proc))
    return dict(confirmed=False, detail='intake cancel behaves: released once before launch, left alone after')


@builder('agent/executing/popen.py:Popen._check_running', 'agent/executing/popen.py:Popen.cancel_task',
         'agent/executing/popen.py:Popen.work', 'agent/executing/popen.py:Popen.get_task',
         'agent/executing/base.py:AgentExecutingComponent.control_cb#cancel')
def popen_ops(case, rp):
    """operation sequences on a Popen executor with fake processes: every
    accepted task is released and handed on exactly once, bystanders stay"""
    import itertools
    probs = []
    n = 0
    for codes in itertools.product((None, 0, 3), repeat=2):
        for order in (('watch', 'cancel'), ('cancel', 'watch'), ('cancel', 'cancel', 'watch'), ('watch', 'watch', 'cancel')):
            for named in (['t1'], ['t1', 't2'], ['t9']):
                n += 1
                p = mk_popen(rp)
                tasks = {u: {'uid': u, 'proc': _FakeProc(c), 'launcher_name': 'FORK', 'description': {}}
                         for u, c in zip(('t1', 't2'), codes)}
                p._tasks = dict(tasks)
                watch = list(tasks.values())
                try:
                    for op in order:
                        if op == 'watch': p._check_running(watch)
                        else: p.control_cb('control_pubsub', {'cmd': 'cancel_tasks', 'arg': {'uids': named}})
                except Exception as e:
                    probs.append('raised %r' % e)
                for u, c in zip(('t1', 't2'), codes):
                    k = released(p, u)
                    handed = [a for a in p.adv if a[0] == u and a[1] == 'AGENT_STAGING_OUTPUT_PENDING']
                    ended = (c is not None) or (u in named)
                    if k > 1 or len(handed) > 1: probs.append('%s released %d times, handed on %d times' % (u, k, len(handed)))
                    if ended and (k != 1 or len(handed) != 1): probs.append('%s (exit %s, named %s) released %d, handed on %d' % (u, c, u in named, k, len(handed)))
                    if not ended and (k or handed or u not in p._tasks): probs.append('bystander %s was touched' % u)
                    if not ended and 'watch' in order and u not in [t['uid'] for t in watch]:
                        probs.append('%s is still running and was not canceled, but the watcher dropped it from its watch list: nobody will collect it' % u)
                    for a in handed:
                        want = 'DONE' if c == 0 else 'FAILED' if c is not None else 'CANCELED'
                        if a[2] != want: probs.append('%s exit %s handed on as %s' % (u, c, a[2]))
                if probs:
                    return dict(confirmed=True, detail='; '.join(probs[:3]),
                                input=dict(exit_codes=dict(zip(('t1', 't2'), codes)), operations=order, cancel_request=named),
                                found_by='bounded native operation sequences (%d tried)' % n)
    # intake: a task is entered in the registry before its process can exist
    for fail in (False, True):
        n += 1
        p = mk_popen(rp)
        seen = []
        def handle(task, _p=p, _fail=fail):
            seen.append((task['uid'], task['uid'] in _p._tasks))
            if _fail: raise RuntimeError('launch failed')
            task['proc'] = _FakeProc(None)
        p._handle_task = handle
        try:
            p.work([{'uid': 't1', 'description': {}}, {'uid': 't2', 'description': {}}])
        except Exception as e:
            probs.append('work raised %r' % e)
        late = [u for u, ok in seen if not ok]
        if late:
            probs.append('%s handed to the launcher before being entered in the registry of running tasks: a cancel request or the watcher '
                         'meeting the process in that window finds no owner' % late)
        if fail and (released(p, 't1') != 1 or released(p, 't2') != 1):
            probs.append('launch failure: t1 released %d times, t2 %d times' % (released(p, 't1'), released(p, 't2')))
        if probs:
            return dict(confirmed=True, detail='; '.join(probs[:3]), input=dict(operations=['work([t1, t2])'], launch_fails=fail),
                        found_by='bounded native operation sequences (%d tried)' % n)
    # a cancel in progress: the canceller has taken t1 out of the registry (it owns
    # it now) but has not dropped the process handle yet, and the process exited;
    # the watcher must leave that task alone
    for code in (0, 3, -9):
        n += 1
        p = mk_popen(rp)
        t1 = {'uid': 't1', 'proc': _FakeProc(code), 'launcher_name': 'FORK', 'description': {}}
        t2 = {'uid': 't2', 'proc': _FakeProc(None), 'launcher_name': 'FORK', 'description': {}}
        p._tasks = {'t2': t2}
        try:
            p._check_running([t1, t2])
        except Exception as e:
            probs.append('raised %r' % e)
        handed = [a for a in p.adv if a[0] == 't1']
        if handed or released(p, 't1'):
            probs.append('t1 is owned by a cancel in progress (not in the registry) but the watcher collected it: released %d, handed on %s'
                         % (released(p, 't1'), handed))
        if probs:
            return dict(confirmed=True, detail='; '.join(probs[:3]),
                        input=dict(registry=['t2'], watch_list=['t1', 't2'], exit_codes=dict(t1=code, t2=None), operations=['watch']),
                        found_by='bounded native operation sequences (%d tried)' % n)
    return dict(confirmed=False, detail='%d executor operation sequences hold natively' % n)


@builder('agent/executing/popen.py:Popen._launch_task')
def popen_launch(case, rp):
    """the real Popen._launch_task with the process spawn replaced by a fake
    process, then the watcher's collection step on whatever was queued: a spawned
    task is released and handed on exactly once when it ended or was canceled"""
    import queue, tempfile, shutil
    import radical.pilot.agent.executing.popen as mod
    n = 0
    for pending in (False, True):
        for code in (None, 0, 3):
            n += 1
            p = mk_popen(rp)
            sbox = tempfile.mkdtemp(prefix='verif_launch_')
            p._watch_queue = queue.Queue()
            p.handle_timeout = lambda t: None
            p._session = AttrDict(rcfg=AttrDict(new_session_per_task=False))
            try: type(p).session.fget(p)
            except Exception: pass
            t = {'uid': 't1', 'task_sandbox_path': sbox, 'launch_path': '/bin/true', 'launcher_name': 'FORK', 'description': {}}
            p._tasks = {'t1': t}
            if pending: p._cancel_list = ['t1']
            saved = mod.sp.Popen
            mod.sp.Popen = lambda *a, **k: _FakeProc(code)
            probs = []
            try:
                p._launch_task(t)
                watch = []
                while not p._watch_queue.empty(): watch.append(p._watch_queue.get())
                if watch: p._check_running(watch)
            except Exception as e:
                probs.append('raised %r' % e)
            finally:
                mod.sp.Popen = saved
                shutil.rmtree(sbox, ignore_errors=True)
            k = released(p, 't1')
            handed = [a for a in p.adv if a[0] == 't1' and a[1] == 'AGENT_STAGING_OUTPUT_PENDING']
            ended = code is not None or pending
            if ended and (k != 1 or len(handed) != 1):
                probs.append('cancel pending: %s, process exit code %s: released %d times, handed on %d times, still registered: %s, queued for the watcher: %d'
                             % (pending, code, k, len(handed), 't1' in p._tasks, len(watch)))
            if not ended and (k or handed or len(watch) != 1):
                probs.append('running task without cancel request: released %d, handed on %d, queued for the watcher %d' % (k, len(handed), len(watch)))
            if probs:
                return dict(confirmed=True, detail='; '.join(probs[:3]), input=dict(cancel_pending=pending, exit_code=code),
                            found_by='bounded native launch scenarios (%d tried)' % n)
    # an error after the process exists (here: the timeout registration raises): the task is
    # failed by work(), and its placement is released exactly once - now or by the watcher
    for when in ('timeout',):
        n += 1
        p = mk_popen(rp)
        sbox = tempfile.mkdtemp(prefix='verif_launch_')
        p._watch_queue = queue.Queue()
        p._session = AttrDict(rcfg=AttrDict(new_session_per_task=False))
        def boom(t): raise ValueError('could not convert string to float')
        p.handle_timeout = boom if when == 'timeout' else (lambda t: None)
        t = {'uid': 't1', 'task_sandbox_path': sbox, 'launch_path': '/bin/true', 'launcher_name': 'FORK', 'description': {}}
        p._handle_task = lambda task: p._launch_task(task)
        saved = mod.sp.Popen
        mod.sp.Popen = lambda *a, **k: _FakeProc(0)
        try:
            p.work([t])
            watch = []
            while not p._watch_queue.empty(): watch.append(p._watch_queue.get())
            if watch: p._check_running(watch)
        except Exception as e:
            return dict(confirmed=True, detail='work raised %r' % e, input=dict(error_after_spawn=when))
        finally:
            mod.sp.Popen = saved
            shutil.rmtree(sbox, ignore_errors=True)
        k = released(p, 't1')
        if k != 1:
            return dict(confirmed=True, input=dict(error_after_spawn=when), found_by='bounded native launch scenarios (%d tried)' % n,
                        detail='the launch of t1 raised after its process existed (%s): its placement was released %d times (expected once)' % (when, k))
    return dict(confirmed=False, detail='%d launch scenarios hold natively' % n)


def raptor_backlog_cases():
    """(backlogs {queue: [uids]}, named uids)"""
    import itertools
    out = []
    names = ['a', 'b', 'c', 'd']
    for n in (1, 2, 3, 4):
        for named in itertools.chain.from_iterable(itertools.combinations(names[:n], k) for k in range(0, n + 1)):
            out.append(({'master.0': names[:n]}, list(named)))
    out.append(({'master.0': ['a', 'b'], '*': ['c', 'd'], 'master.1': ['e']}, ['b', 'c', 'd', 'x']))
    out.append(({'master.0': ['a', 'b', 'c'], '*': ['d', 'e', 'f']}, ['a', 'b', 'c', 'd', 'e', 'f']))
    out.append(({'*': ['a', 'b', 'c', 'd', 'e']}, ['e', 'd', 'a']))
    return out


@builder('agent/scheduler/base.py:AgentSchedulingComponent.control_cb#raptor-cancel')
def raptor_backlog_cancel(case, rp):
    """the real scheduler control_cb with cancel_tasks on raptor backlogs: every named
    task leaves its backlog and is canceled once, every other task stays, in order"""
    import threading, queue as q_
    from radical.pilot.agent.scheduler.base import AgentSchedulingComponent as ASC
    n = 0
    for backlogs, named in raptor_backlog_cases():
        n += 1
        c = object.__new__(ASC)
        c._log, c._prof = Stub(), Stub()
        c._scheduler_process = True
        c._raptor_lock = threading.Lock()
        c._queue_sched = q_.Queue()
        c._raptor_tasks = {k: [{'uid': u, 'state': 'AGENT_SCHEDULING'} for u in v] for k, v in backlogs.items()}
        c._raptor_queues = {}
        adv = []
        c.advance = lambda things, state=None, **kw: adv.extend((t['uid'], state) for t in (things if isinstance(things, list) else [things]))
        try:
            c.control_cb('control_pubsub', {'cmd': 'cancel_tasks', 'arg': {'uids': list(named)}})
        except Exception as e:
            return dict(confirmed=True, detail='control_cb raised %r' % e, input=dict(backlogs=backlogs, cancel=named))
        probs = []
        for k, v in backlogs.items():
            left = [t['uid'] for t in c._raptor_tasks.get(k, [])]
            want = [u for u in v if u not in named]
            if left != want:
                probs.append('backlog %s holds %s after the cancel, expected %s' % (k, left, want))
        want_c = sorted(u for v in backlogs.values() for u in v if u in named)
        got_c = sorted(u for u, s in adv if s == 'CANCELED')
        if got_c != want_c or any(s != 'CANCELED' for u, s in adv):
            probs.append('reported CANCELED: %s, expected %s' % ([a for a in adv], want_c))
        if c._queue_sched.qsize() != 1:
            probs.append('the scheduler process was told %d times' % c._queue_sched.qsize())
        if probs:
            return dict(confirmed=True, detail='; '.join(probs[:3]), input=dict(backlogs=backlogs, cancel=named),
                        found_by='bounded native enumeration of raptor backlogs (%d tried)' % n)
    return dict(confirmed=False, detail='%d raptor backlog cancels hold natively' % n)


@builder('agent/scheduler/base.py:AgentSchedulingComponent._schedule_incoming#to-raptor',
         'agent/scheduler/base.py:AgentSchedulingComponent.control_cb#relay-named',
         'agent/scheduler/base.py:AgentSchedulingComponent.control_cb#relay-any',
         'agent/scheduler/base.py:AgentSchedulingComponent.control_cb#master-gone')
def raptor_forwarding(case, rp):
    """histories of set-aside bulks, master registrations and de-registrations on the real
    scheduler code: every task set aside for a raptor master is handed to exactly one
    master queue, or failed when its master disappears, or still parked - never lost or doubled"""
    import threading, itertools, random
    import radical.utils as ru
    from radical.pilot.agent.scheduler.base import AgentSchedulingComponent as ASC

    class Q:
        def __init__(self, name, log): self.name, self.log = name, log
        def put(self, ts):
            for t in (ts if isinstance(ts, list) else [ts]): self.log.append((self.name, t['uid']))

    def run(ops):
        c = object.__new__(ASC)
        c._log, c._prof = Stub(), Stub()
        c._scheduler_process = True
        c._raptor_lock = threading.Lock()
        c._raptor_queues, c._raptor_tasks = {}, {}
        puts, failed, sent = [], [], []
        c._fail_task = lambda t, e, d: failed.append(t['uid'])
        saved = ru.zmq.Putter
        ru.zmq.Putter = lambda queue, addr: Q(queue, puts)
        n = [0]
        try:
            for op in ops:
                if op[0] == 'bulk':                      # ('bulk', {name: k})
                    to_raptor = {}
                    for name, k in op[1].items():
                        to_raptor[name] = []
                        for _ in range(k):
                            n[0] += 1
                            t = {'uid': 'task.%03d' % n[0]}
                            to_raptor[name].append(t); sent.append((t['uid'], name))
                    env = dict(self=c, to_raptor=to_raptor, len=len, list=list, range=range)
                    for name in to_raptor:
                        env['name'] = name
                        exec_fragment(rp, 'agent/scheduler/base.py', 'AgentSchedulingComponent._schedule_incoming',
                                      'if name in self._raptor_queues:', env)
                elif op[0] == 'register':
                    c.control_cb('control_pubsub', {'cmd': 'register_raptor_queue', 'arg': {'name': op[1], 'queue': op[1], 'addr': 'x'}})
                elif op[0] == 'unregister':
                    c.control_cb('control_pubsub', {'cmd': 'unregister_raptor_queue', 'arg': {'name': op[1]}})
        finally:
            ru.zmq.Putter = saved
        probs = []
        parked = [t['uid'] for v in c._raptor_tasks.values() for t in v]
        for uid, name in sent:
            k = [q for q, u in puts if u == uid]
            total = len(k) + failed.count(uid) + parked.count(uid)
            if total != 1:
                probs.append('%s (set aside for %s): handed to queues %s, failed %d times, parked %d times' % (uid, name, k, failed.count(uid), parked.count(uid)))
            if k and name != '*' and k[0] != name:
                probs.append('%s was set aside for master %s but handed to %s' % (uid, name, k[0]))
        return probs

    directed = [
        [('bulk', {'m1': 2}), ('register', 'm1')],
        [('register', 'm1'), ('bulk', {'m1': 2, '*': 3})],
        [('bulk', {'*': 2}), ('bulk', {'*': 1, 'm2': 1}), ('register', 'm1'), ('register', 'm2')],
        [('bulk', {'m1': 2}), ('bulk', {'m1': 1}), ('unregister', 'm1')],
        [('register', 'm1'), ('register', 'm2'), ('bulk', {'*': 5}), ('unregister', 'm1'), ('bulk', {'m1': 1, '*': 2}), ('register', 'm1')],
    ]
    rnd = random.Random(99)
    for _ in range(120):
        ops, reg = [], set()
        for _ in range(rnd.randint(2, 8)):
            r = rnd.random()
            if r < 0.5:
                ops.append(('bulk', {nm: rnd.randint(1, 3) for nm in rnd.sample(['m1', 'm2', '*'], rnd.randint(1, 2))}))
            elif r < 0.8:
                nm = rnd.choice(['m1', 'm2'])
                if nm not in reg: ops.append(('register', nm)); reg.add(nm)
            elif reg:
                nm = rnd.choice(sorted(reg)); ops.append(('unregister', nm)); reg.discard(nm)
        directed.append(ops)
    for k, ops in enumerate(directed):
        try:
            probs = run(ops)
        except Exception as e:
            probs = ['raised %r' % e]
        if probs:
            return dict(confirmed=True, detail='; '.join(probs[:3]), input=dict(history=ops),
                        found_by='bounded native raptor forwarding histories (%d of %d)' % (k + 1, len(directed)))
    return dict(confirmed=False, detail='%d raptor forwarding histories hold natively' % len(directed))


@builder('utils/component.py:AgentComponent.advance', 'utils/component.py:ClientComponent.advance')
def advance_wrappers(case, rp):
    """the real AgentComponent.advance / ClientComponent.advance with the base class
    advance replaced by a recorder: every argument reaches the base class under its own
    name; FAILED / CANCELED are published, not pushed, and become the target state"""
    import itertools
    import radical.pilot.utils.component as cm
    rec = []
    saved = cm.BaseComponent.advance
    def base(self, things, state=None, publish=True, push=False, qname=None, ts=None, fwd=False, prof=True):
        rec.append(dict(n=len(things) if isinstance(things, list) else 1, state=state, publish=publish, push=push,
                        qname=qname, ts=ts, fwd=fwd, prof=prof))
    cm.BaseComponent.advance = base
    n = 0
    try:
        for cls in (cm.AgentComponent, cm.ClientComponent):
            for state, publish, push, fwd, prof in itertools.product(('AGENT_EXECUTING', 'FAILED', 'CANCELED', None),
                                                                     (True, False), (True, False), (True, False, 'default'), (True, False)):
                n += 1
                c = object.__new__(cls)
                c._log, c._prof = Stub(), Stub()
                things = [{'uid': 't1', 'state': 'NEW'}, {'uid': 't2', 'state': 'NEW'}]
                kw = dict(publish=publish, push=push, prof=prof)
                if fwd != 'default': kw['fwd'] = fwd
                del rec[:]
                try:
                    c.advance(things, state, **kw)
                except Exception as e:
                    return dict(confirmed=True, detail='%s.advance raised %r' % (cls.__name__, e), input=dict(state=state, **kw))
                want_fwd = fwd if fwd != 'default' else (cls is cm.AgentComponent)
                final = state in ('FAILED', 'CANCELED')
                probs = []
                if len(rec) != 1: probs.append('the base class advance was called %d times' % len(rec))
                else:
                    r = rec[0]
                    if r['fwd'] != want_fwd: probs.append('the forward flag reaches the base class as %r, the caller said %r' % (r['fwd'], want_fwd))
                    if r['prof'] != prof:    probs.append('the profiling switch reaches the base class as %r, the caller said %r' % (r['prof'], prof))
                    if r['state'] != state:  probs.append('state %r reaches the base class as %r' % (state, r['state']))
                    if final and (r['publish'] is not True or r['push'] is not False):
                        probs.append('%s is handed on with publish=%r push=%r' % (state, r['publish'], r['push']))
                    if not final and (r['publish'] != publish or r['push'] != push):
                        probs.append('publish / push %r / %r reach the base class as %r / %r' % (publish, push, r['publish'], r['push']))
                if final and any(t.get('target_state') != state for t in things):
                    probs.append('%s does not become the target state of the things' % state)
                if probs:
                    return dict(confirmed=True, detail='%s.advance: %s' % (cls.__name__, '; '.join(probs[:3])),
                                input=dict(cls=cls.__name__, state=state, **kw), found_by='bounded native enumeration (%d calls)' % n)
    finally:
        cm.BaseComponent.advance = saved
    return dict(confirmed=False, detail='%d wrapper calls hand their arguments on unchanged natively' % n)


@builder('agent/resource_manager/slurm.py:Slurm.init_from_scratch')
def slurm_init(case, rp):
    """the real Slurm.init_from_scratch under a set of environments: a configured node size
    is kept, otherwise the reported one is taken; one node per allocated host, in order"""
    import tempfile, shutil, itertools
    from radical.pilot.agent.resource_manager.slurm import Slurm
    from radical.pilot.agent.resource_manager.base import RMInfo
    keys = ('SLURM_NODELIST', 'SLURM_JOB_NODELIST', 'SLURM_CPUS_ON_NODE', 'SLURM_GPUS_ON_NODE', 'SLURM_JOB_GPUS', 'SLURM_STEP_GPUS', 'GPU_DEVICE_ORDINAL')
    saved = {k: os.environ.get(k) for k in keys}
    cwd = os.getcwd(); tmp = tempfile.mkdtemp(prefix='verif_slurm_')
    n = 0
    try:
        os.chdir(tmp)
        for cfg_cpn, env_cpn, cfg_gpn, env_gpn in itertools.product((0, 64), (None, '128'), (0, 4), (None, '8')):
            n += 1
            for k in keys: os.environ.pop(k, None)
            os.environ['SLURM_NODELIST'] = 'nid[0001-0003]'
            if env_cpn: os.environ['SLURM_CPUS_ON_NODE'] = env_cpn
            if env_gpn: os.environ['SLURM_GPUS_ON_NODE'] = env_gpn
            rm = object.__new__(Slurm); rm._log, rm._prof = Stub(), Stub()
            info = RMInfo({'cores_per_node': cfg_cpn, 'gpus_per_node': cfg_gpn, 'lfs_per_node': 0, 'mem_per_node': 0, 'threads_per_core': 1})
            try:
                out = rm.init_from_scratch(info)
            except RuntimeError:
                if cfg_cpn or env_cpn:
                    return dict(confirmed=True, detail='init_from_scratch refuses although the node size is known (configured %s, reported %s)' % (cfg_cpn, env_cpn),
                                input=dict(configured_cores=cfg_cpn, SLURM_CPUS_ON_NODE=env_cpn))
                continue
            want_c = cfg_cpn or int(env_cpn)
            want_g = cfg_gpn or int(env_gpn or 0)
            probs = []
            if out.cores_per_node != want_c: probs.append('cores per node %s, expected %s (configured %s, $SLURM_CPUS_ON_NODE %s)' % (out.cores_per_node, want_c, cfg_cpn, env_cpn))
            if (out.gpus_per_node or 0) != want_g: probs.append('GPUs per node %s, expected %s (configured %s, $SLURM_GPUS_ON_NODE %s)' % (out.gpus_per_node, want_g, cfg_gpn, env_gpn))
            names = [x['name'] for x in out.node_list]
            if names != ['nid0001', 'nid0002', 'nid0003']: probs.append('nodes offered: %s' % names)
            if any(len(x['cores']) != want_c for x in out.node_list): probs.append('nodes are offered with %s cores' % [len(x['cores']) for x in out.node_list])
            if probs:
                return dict(confirmed=True, detail='; '.join(probs[:3]), found_by='bounded native enumeration (%d environments)' % n,
                            input=dict(configured_cores=cfg_cpn, SLURM_CPUS_ON_NODE=env_cpn, configured_gpus=cfg_gpn, SLURM_GPUS_ON_NODE=env_gpn))
    finally:
        os.chdir(cwd); shutil.rmtree(tmp, ignore_errors=True)
        for k, v in saved.items():
            if v is None: os.environ.pop(k, None)
            else: os.environ[k] = v
    return dict(confirmed=False, detail='%d Slurm environments give the configured / reported node size natively' % n)


@builder('pmgr/launching/base.py:PMGRLaunchingComponent.work#bucket')
def pmgr_launch_buckets(case, rp):
    """the real PMGRLaunchingComponent.work on bulks spanning several (resource, schema) buckets,
    with the bulk launch of one bucket failing: only that bucket's pilots are reported FAILED"""
    import itertools
    from radical.pilot.pmgr.launching.base import PMGRLaunchingComponent as L
    n = 0
    for fail_at, cancelled in itertools.product((None, ('a', 's1'), ('b', 's1'), ('a', 's2')), ([], ['p3'])):
        n += 1
        c = object.__new__(L)
        c._log, c._prof = Stub(), Stub()
        c._cancelled = list(cancelled)
        adv = []
        c.advance = lambda things, state=None, **kw: adv.extend((t['uid'], state) for t in (things if isinstance(things, list) else [things]))
        def launch(resource, schema, pilots, _f=fail_at):
            if _f == (resource, schema): raise RuntimeError('submission failed')
        c._start_pilot_bulk = launch
        mk = lambda uid, r, s_: {'uid': uid, 'description': {'resource': r, 'access_schema': s_}}
        pilots = [mk('p1', 'a', 's1'), mk('p2', 'a', 's2'), mk('p3', 'b', 's1'), mk('p4', 'a', 's1')]
        try:
            c.work(pilots)
        except Exception as e:
            return dict(confirmed=True, detail='work raised %r' % e, input=dict(fail_at=fail_at, cancelled=cancelled))
        probs = []
        for p in pilots:
            uid, key = p['uid'], (p['description']['resource'], p['description']['access_schema'])
            states = [s_ for u, s_ in adv if u == uid]
            if uid in cancelled: want = ['CANCELED']
            elif key == fail_at: want = ['PMGR_LAUNCHING', 'FAILED']
            else:                want = ['PMGR_LAUNCHING', 'PMGR_ACTIVE_PENDING']
            if states != want:
                probs.append('%s (bucket %s): reported %s, expected %s' % (uid, key, states, want))
        if probs:
            return dict(confirmed=True, detail='launch of bucket %s fails, cancelled before launch %s: %s' % (fail_at, cancelled, '; '.join(probs[:3])),
                        input=dict(failing_bucket=fail_at, cancelled=cancelled), found_by='bounded native enumeration (%d bulks)' % n)
    return dict(confirmed=False, detail='%d bulks: a failing bucket fails its own pilots only' % n)


@builder('raptor/master.py:Master._submit_tasks')
def master_submit(case, rp):
    """the real Master._submit_tasks on bulks of requests of every mode: executable
    ones reach _submit_executable_tasks, all others _submit_raptor_tasks, each once"""
    import itertools
    from radical.pilot.raptor.master import Master
    import radical.pilot.task_description as tdm
    modes = [tdm.TASK_EXECUTABLE, tdm.TASK_FUNC, tdm.TASK_METH, tdm.TASK_EVAL, tdm.TASK_EXEC, tdm.TASK_PROC, tdm.TASK_SHELL, 'absent']
    n = 0
    for combo in itertools.product(modes, repeat=2):
        n += 1
        m = object.__new__(Master)
        m._log, m._prof = Stub(), Stub()
        m._psbox = '/tmp/pilot.0000'
        m._session = Stub()
        m._session._get_task_sandbox = lambda t, p: 'file://localhost/tmp/pilot.0000/%s' % t['uid']
        got = {'exec': [], 'raptor': []}
        m._submit_executable_tasks = lambda ts: got['exec'].extend(t['uid'] for t in ts)
        m._submit_raptor_tasks = lambda ts: got['raptor'].extend(t['uid'] for t in ts)
        tasks = []
        for i, mode in enumerate(combo):
            d = {} if mode == 'absent' else {'mode': mode}
            tasks.append({'uid': 'req.%d' % i, 'description': d})
        try:
            m._submit_tasks(tasks)
        except Exception as e:
            return dict(confirmed=True, detail='_submit_tasks raised %r' % e, input=dict(modes=combo))
        want_exec = ['req.%d' % i for i, mode in enumerate(combo) if mode in (tdm.TASK_EXECUTABLE, 'absent')]
        want_rap  = ['req.%d' % i for i, mode in enumerate(combo) if mode not in (tdm.TASK_EXECUTABLE, 'absent')]
        if got['exec'] != want_exec or got['raptor'] != want_rap:
            return dict(confirmed=True, input=dict(modes=combo), found_by='bounded native enumeration (%d bulks)' % n,
                        detail='modes %s: executed by the pilot %s, sent to the workers %s; expected %s / %s' % (combo, got['exec'], got['raptor'], want_exec, want_rap))
    return dict(confirmed=False, detail='%d bulks are routed by mode natively' % n)


@builder('raptor/master.py:Master._result_cb')
def master_result_cb(case, rp):
    from radical.pilot.raptor.master import Master
    n = 0
    for raises in (False, True):
        for code in (None, 0, 1, -1, '0', 2):
            for preset in (None, 'FAILED'):
                n += 1
                m = object.__new__(Master)
                m._log, m._prof = Stub(), Stub()
                m._task_service_data = dict()
                adv = []
                m.advance = lambda things, state=None, **kw: adv.extend((t['uid'], state, t.get('target_state')) for t in things)
                def cb(tasks):
                    if raises: raise RuntimeError('user callback')
                m.result_cb = cb
                t = {'uid': 'req.1', 'exit_code': code}
                if preset: t['target_state'] = preset
                try:
                    m._result_cb([t])
                except Exception as e:
                    return dict(confirmed=True, detail='_result_cb raised %r' % e, input=dict(task=t, callback_raises=raises))
                want = preset or ('DONE' if code is not None and int(code) == 0 else 'FAILED')
                probs = []
                if adv != [('req.1', 'AGENT_STAGING_OUTPUT_PENDING', want)]:
                    probs.append('exit code %r (preset %s): handed on as %s, expected once with target %s' % (code, preset, adv, want))
                if probs:
                    return dict(confirmed=True, detail='; '.join(probs), input=dict(exit_code=code, target_state=preset, callback_raises=raises),
                                found_by='bounded native enumeration (%d cases)' % n)
    return dict(confirmed=False, detail='%d result cases hold natively' % n)


@builder('utils/component.py:BaseComponent.work_cb#dispatch')
def work_cb_dispatch(case, rp):
    """the real work_cb with a fake input queue and worker routines that raise"""
    import threading as mt
    from radical.pilot.utils.component import BaseComponent
    n = 0
    for raises in (False, True, 'after-advancing'):
        for states in (['S1'], ['S1', 'S2']):
            n += 1
            c = object.__new__(BaseComponent)
            c._log, c._prof = Stub(), Stub()
            c._cancel_list, c._cancel_lock = [], mt.RLock()
            things = [{'uid': 't%d' % i, 'type': 'task', 'state': states[i % len(states)]} for i in range(4)]

            class Q:
                def __init__(s): s.sent = False
                def get_nowait(s, qname=None, timeout=None):
                    if s.sent: return []
                    s.sent = True
                    return list(things)
            seen = []
            def good(ts): seen.append(('ok', [t['uid'] for t in ts]))
            def bad(ts, _r=raises):
                seen.append(('bad', [t['uid'] for t in ts]))
                if _r == 'after-advancing':
                    # what most work routines do first: move their bulk to the working state
                    for t in ts: t['state'] = 'S1_WORKING'
                raise RuntimeError('worker failed')
            c._inputs = {'in': {'qname': 'q', 'queue': Q(), 'states': list(states)}}
            c._workers = {s_: (bad if (raises and s_ == 'S1') else good) for s_ in states}
            adv = []
            c.advance = lambda ts, state=None, publish=True, push=False, **kw: adv.append(([t['uid'] for t in ts], state, publish, push))
            try:
                r = c.work_cb()
            except Exception as e:
                return dict(confirmed=True, detail='a failing work routine took work_cb down: %r' % e, input=dict(states=states),
                            found_by='directed native scenario')
            probs = []
            if r is not True: probs.append('work_cb returned %r (the callback would be unregistered)' % r)
            if raises:
                s1 = [t for t in things if t['state'] in ('S1', 'S1_WORKING')]
                if [a for a in adv if a[1] == 'FAILED'] != [([t['uid'] for t in s1], 'FAILED', True, False)]:
                    probs.append('the failed bulk was advanced as %s (expected once, FAILED, published, not pushed)' % adv)
                for t in s1:
                    if not t.get('exception') or not t.get('exception_detail'):
                        probs.append('%s of the failed bulk carries no exception record' % t['uid'])
                for t in things:
                    if t['state'] == 'S2' and t.get('exception'):
                        probs.append('%s of another bulk was marked failed' % t['uid'])
            elif adv:
                probs.append('things were failed although no worker raised: %s' % adv)
            if probs:
                return dict(confirmed=True, detail='; '.join(probs[:3]), input=dict(states=states, worker_raises=raises),
                            found_by='directed native scenario (%d tried)' % n)
    return dict(confirmed=False, detail='%d work_cb scenarios hold natively' % n)


@builder('task_manager.py:TaskManager._state_sub_cb')
def tmgr_state_sub_cb(case, rp):
    """the real _state_sub_cb with _update_tasks replaced by a recorder: every task notification
    of an update message is handed on once, in the order delivered"""
    import itertools
    from radical.pilot.task_manager import TaskManager
    n = 0
    pool = [('task', 't1', 'AGENT_EXECUTING'), ('task', 't1', 'DONE'), ('task', 't1', 'AGENT_STAGING_OUTPUT'), ('task', 't2', 'FAILED'),
            ('pilot', 'p1', 'PMGR_ACTIVE'), ('task', 't2', 'DONE')]
    for k in (1, 2, 3):
        for combo in itertools.permutations(pool, k):
            n += 1
            m = object.__new__(TaskManager)
            m._log, m._prof = Stub(), Stub()
            m._terminate = _Event()
            got = []
            m._update_tasks = lambda ts: got.extend((t['uid'], t['state']) for t in ts)
            things = [{'type': ty, 'uid': u, 'state': st_} for ty, u, st_ in combo]
            r = m._state_sub_cb('state_pubsub', {'cmd': 'update', 'arg': things})
            want = [(u, st_) for ty, u, st_ in combo if ty == 'task']
            if got != want or r is not True:
                return dict(confirmed=True, detail='message with notifications %s: applied %s, expected %s' % (
                                [(u, st_) for ty, u, st_ in combo], got, want),
                            input=dict(message=things), found_by='bounded native enumeration (%d messages)' % n)
    return dict(confirmed=False, detail='%d update messages are handed on completely and in order' % n)


@builder('task_manager.py:TaskManager._task_cb')
def tmgr_task_cb(case, rp):
    """the real _task_cb with registered application callbacks: each is called once
    with the announced state, also when the task has moved on meanwhile"""
    import threading as mt
    import radical.pilot.constants as rpc
    from radical.pilot.task_manager import TaskManager
    m = object.__new__(TaskManager)
    m._log = Stub()
    m._tcb_lock = mt.RLock()
    seen = []
    def cb_all(task, state): seen.append(('all', task.uid, state))
    def cb_one(task, state, data): seen.append(('one', task.uid, state, data))
    def cb_bad(task, state): seen.append(('bad', task.uid, state)); raise RuntimeError('application error')
    m._callbacks = {rpc.TASK_STATE: {'*': {'a': {'cb': cb_all, 'cb_data': None}, 'b': {'cb': cb_bad, 'cb_data': None}},
                                     'task.0001': {'c': {'cb': cb_one, 'cb_data': 'X'}}}}
    class T:
        uid = 'task.0001'; state = 'DONE'
    probs = []
    for announced in ('TMGR_SCHEDULING', 'AGENT_EXECUTING', 'DONE'):
        del seen[:]
        try:
            m._task_cb(T(), announced)
        except Exception as e:
            return dict(confirmed=True, detail='an exception of an application callback escaped _task_cb: %r' % e,
                        input=dict(announced=announced))
        if sorted(x[0] for x in seen) != ['all', 'bad', 'one']:
            probs.append('announcing %s: callbacks invoked %s (expected each of the three once)' % (announced, [x[0] for x in seen]))
        for x in seen:
            if x[2] != announced:
                probs.append('announcing %s while the task is already DONE: callback %s was told %s' % (announced, x[0], x[2]))
    if probs:
        return dict(confirmed=True, detail='; '.join(probs[:3]), input=dict(task_state='DONE', announced=['TMGR_SCHEDULING', 'AGENT_EXECUTING', 'DONE']),
                    found_by='directed native scenario')
    return dict(confirmed=False, detail='3 callback scenarios hold natively')


@builder('task_manager.py:TaskManager.add_pilots')
def tmgr_add_pilots(case, rp):
    import threading as mt
    from radical.pilot.task_manager import TaskManager
    for n in (1, 2, 3):
        m = object.__new__(TaskManager)
        m._log = Stub(); m._uid = 'tmgr.0000'
        m._pilots, m._pilots_lock = dict(), mt.RLock()
        m.publish = lambda *a, **k: None
        class P:
            def __init__(s, uid): s.uid, s.cbs, s.tm = uid, [], None
            def attach_tmgr(s, tm): s.tm = tm
            def as_dict(s): return {'uid': s.uid}
            def register_callback(s, cb, *a, **k): s.cbs.append(cb)
        ps = [P('pilot.%04d' % i) for i in range(n)]
        try:
            m.add_pilots(list(ps))
        except Exception as e:
            return dict(confirmed=True, detail='add_pilots raised %r' % e, input=dict(n_pilots=n))
        missing = [p.uid for p in ps if [c for c in p.cbs if getattr(c, '__name__', '') == '_pilot_state_cb'] == []]
        if missing:
            return dict(confirmed=True, detail='add_pilots(%d pilots): the task manager did not register its state callback with %s, '
                        'so it will not hear of their end' % (n, missing), input=dict(n_pilots=n), found_by='directed native scenario')
        if set(m._pilots) != set(p.uid for p in ps):
            return dict(confirmed=True, detail='pilots kept: %s' % sorted(m._pilots), input=dict(n_pilots=n))
    return dict(confirmed=False, detail='add_pilots with 1..3 pilots registers the callback with each')


@builder('pmgr/launching/base.py:PMGRLaunchingComponent._prepare_pilot#nodes')
def pilot_nodes(case, rp):
    """the real sizing statement of _prepare_pilot, executed for small figures"""
    import math
    n = 0
    for cores in (0, 1, 7, 8, 9, 64):
        for gpus in (0, 1, 5, 8):
            for cpn in (None, 0, 1, 8):
                for gpn in (None, 0, 2, 4):
                    for nodes in (0, 3):
                        n += 1
                        env = dict(requested_nodes=nodes, requested_cores=cores, requested_gpus=gpus,
                                   avail_cores_per_node=cpn, avail_gpus_per_node=gpn, math=math)
                        try:
                            exec_fragment(rp, 'pmgr/launching/base.py', 'PMGRLaunchingComponent._prepare_pilot',
                                          "marker:raise RuntimeError('use \"cores\" in PilotDescription')", env)
                        except RuntimeError:
                            if nodes and not cpn: continue
                            return dict(confirmed=True, detail='sizing raised RuntimeError', input=dict(env, math=None))
                        got = env['requested_nodes']
                        inp = dict(nodes=nodes, cores=cores, gpus=gpus, cores_per_node=cpn, gpus_per_node=gpn)
                        if nodes:
                            if got != nodes: return dict(confirmed=True, detail='explicit node count %s became %s' % (nodes, got), input=inp)
                            continue
                        if cpn and got * cpn < cores:
                            return dict(confirmed=True, detail='%s node(s) of %s cores for %s requested cores' % (got, cpn, cores), input=inp)
                        if gpn and got * gpn < gpus:
                            return dict(confirmed=True, detail='%s node(s) of %s GPUs for %s requested GPUs' % (got, gpn, gpus), input=inp)
                        if cpn and gpn and got >= 1 and (got - 1) * cpn >= cores and (got - 1) * gpn >= gpus:
                            return dict(confirmed=True, detail='%s nodes requested where %s would do' % (got, got - 1), input=inp)
    return dict(confirmed=False, detail='%d sizing cases hold natively' % n)

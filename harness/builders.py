"""native builders: construct receivers the way the repository's own unit tests
do (object.__new__ + the attributes the function reads, loggers stubbed), call
the REAL function and evaluate the violated clause natively."""

import copy
import threading
import time

from harness.rp_boot import Stub

BUILDERS = dict()


def builder(*keys):
    def deco(fn):
        for k in keys:
            BUILDERS[k] = fn
        return fn
    return deco


def model_get(case, name, default=None):
    m = case.get('model') or {}
    if ('at:' + name) in m:
        return m['at:' + name]
    return m.get(name, default)


FINAL = ['DONE', 'FAILED', 'CANCELED']


class _Event:
    def __init__(self): self.v = False
    def is_set(self): return self.v


# ------------------------------------------------------------------------------
# C15
#
def _wait_scenario(obj, call, later_state, requested):
    """start `call` in a thread, move the entity to `later_state` after 0.2 s,
    expect the call to return within 2 s if later_state is awaited or final"""
    box = dict()

    def run():
        try:
            box['ret'] = call()
        except Exception as e:
            box['exc'] = repr(e)
    t = threading.Thread(target=run, daemon=True)
    t0 = time.time()
    t.start()
    time.sleep(0.2)
    obj._state = later_state
    t.join(2.0)
    must_return = later_state in FINAL or later_state in requested
    if t.is_alive():
        obj._pm._terminate.v = True           # let the thread go
        t.join(1.0)
        if must_return:
            return dict(confirmed=True, detail='wait() did not return within '
                        '2 s although the entity reached %s (requested %s)'
                        % (later_state, requested))
        return dict(confirmed=False, detail='still waiting, as it should')
    if 'exc' in box:
        return dict(confirmed=True, detail='wait() raised %s' % box['exc'])
    if box.get('ret') != obj._state:
        return dict(confirmed=True, detail='wait() returned %r but the state '
                    'is %r' % (box.get('ret'), obj._state))
    return dict(confirmed=False, detail='returned %r after %.2fs'
                % (box.get('ret'), time.time() - t0))


@builder('task.py:Task.wait')
def task_wait(case, rp):
    from radical.pilot.task import Task
    t = object.__new__(Task)
    t._log = Stub()
    t._pm = t._tmgr = type('M', (), {})()
    t._tmgr._terminate = _Event()
    t._state = model_get(case, 'self._state') if 'self._state' in (case.get('model') or {}) else 'NEW'
    m = case.get('model') or {}
    t._state = m.get('self._state') or 'NEW'
    if t._state in FINAL:
        ret = t.wait(m.get('state'), m.get('timeout'))
        ok = (ret == t._state)
        return dict(confirmed=not ok, detail='final at call: returned %r' % ret)
    later = m.get('at:self._state') or 'DONE'
    state = m.get('state')
    requested = FINAL if not state else state if isinstance(state, list) \
                else [state]
    if 'default-is-final' in case['obligation'] or later not in FINAL + requested:
        later = 'DONE'
    return _wait_scenario(t, lambda: t.wait(state, None), later, requested)


@builder('pilot.py:Pilot.wait')
def pilot_wait(case, rp):
    from radical.pilot.pilot import Pilot
    p = object.__new__(Pilot)
    p._log = Stub()
    p._pm = p._pmgr = type('M', (), {})()
    p._pmgr._terminate = _Event()
    m = case.get('model') or {}
    p._state = m.get('self._state') or 'NEW'
    state = m.get('state')
    requested = FINAL if not state else state if isinstance(state, list) \
                else [state]
    if p._state in FINAL:
        ret = p.wait(state, m.get('timeout'))
        ok = (ret == p._state)
        return dict(confirmed=not ok, detail='final at call: wait() returned '
                    '%r, the pilot state is %r' % (ret, p._state))
    later = m.get('at:self._state') or 'DONE'
    if 'default-is-final' in case['obligation'] or later not in FINAL + requested:
        later = 'DONE'
    return _wait_scenario(p, lambda: p.wait(state, None), later, requested)

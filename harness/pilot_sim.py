"""C17 (b), bounded stand-in: the real PMGRLaunchingComponent._prepare_pilot of the
tree selected by VERIF_REPO is run for every shipped platform with a known node
size and a set of pilot sizes; the batch job it describes must ask for the
smallest number of whole nodes whose usable cores (cores x hardware threads minus
blocked cores) and GPUs cover the request, plus the backup nodes, and the agent
configuration must carry the same figures."""
import copy
import os
from unittest import mock

from .builders import builder


class _Session:
    def __init__(self, ru):
        self.uid, self.sid = 'session.verif', 'session.verif'
        self.cfg = ru.Config(cfg={})
        self._ru = ru
    def _get_endpoint_fs(self, pilot):       return self._ru.Url('/')
    def _get_resource_sandbox(self, pilot):  return self._ru.Url('/resource/sandbox')
    def _get_session_sandbox(self, pilot):   return self._ru.Url('/resource/sandbox/%s' % self.uid)
    def _get_pilot_sandbox(self, pilot):     return self._ru.Url('/resource/sandbox/%s/%s' % (self.uid, pilot['uid']))
    def _get_client_sandbox(self):           return self._ru.Url('/client/sandbox')


def _component(rp):
    import radical.utils as ru
    from radical.pilot.pmgr.launching.base import PMGRLaunchingComponent
    c = object.__new__(PMGRLaunchingComponent)
    c._uid, c._pmgr = 'pmgr.launching.0000', 'pmgr.0000'
    c._cfg, c._log, c._prof = mock.Mock(), mock.Mock(), mock.Mock()
    c._session = _Session(ru)
    c._sandboxes = dict()
    c._root_dir = '/radical_pilot_src'
    c._rm_info = ru.Config(cfg={'details': None})
    c._rp_version = getattr(rp, 'version', '1.0')
    return c


def _pilot(nodes=0, cores=0, gpus=0, backup=0):
    return {'uid': 'pilot.0000',
            'description': {'cores': cores, 'gpus': gpus, 'nodes': nodes, 'backup_nodes': backup, 'queue': 'default',
                            'project': 'verif', 'job_name': None, 'runtime': 10, 'app_comm': 0, 'cleanup': 0, 'memory': 0,
                            'services': [], 'prepare_env': {}, 'enable_ep': False, 'reconfig_src': None}}


def run_all(rp, tier='quick'):
    # _prepare_pilot leaves one rp.agent_cfg.* directory per call in the temp directory:
    # give it a private one and remove it afterwards
    import tempfile, shutil
    saved, private = tempfile.tempdir, tempfile.mkdtemp(prefix='verif_pilot_')
    tempfile.tempdir = private
    try:
        return _run_all(rp, tier)
    finally:
        tempfile.tempdir = saved
        shutil.rmtree(private, ignore_errors=True)


def _run_all(rp, tier='quick'):
    import radical.utils as ru
    os.environ.pop('RADICAL_SMT', None)
    # _prepare_pilot looks radical-utils-env.sh up on PATH: the interpreter's bin directory has it
    import sys
    os.environ['PATH'] = '%s:%s' % (os.path.dirname(sys.executable), os.environ.get('PATH', ''))
    configs = ru.Config('radical.pilot.resource', name='*')
    comp = _component(rp)
    viol, n, skipped = [], 0, 0
    with mock.patch.object(ru.Config, 'write', return_value=None):
        for site in sorted(configs):
            for name in sorted(configs[site]):
                resource = '%s.%s' % (site, name)
                try:
                    rcfg = rp.ResourceConfig(configs[site][name])
                except Exception:
                    skipped += 1; continue
                if not rcfg.cores_per_node:
                    continue
                arch = rcfg.system_architecture or {}
                smt = int(arch.get('smt', 1) or 1)
                cpn = rcfg.cores_per_node * smt - len(arch.get('blocked_cores', []) or [])
                gpn = (rcfg.gpus_per_node or 0) - len(arch.get('blocked_gpus', []) or [])
                sizes = [dict(nodes=1), dict(nodes=3, backup=1), dict(cores=1), dict(cores=cpn), dict(cores=cpn + 1),
                         dict(cores=2 * cpn, backup=2)]
                if gpn > 0:
                    sizes += [dict(cores=1, gpus=gpn + 1), dict(cores=cpn, gpus=1, backup=1)]
                for size in sizes:
                    n += 1
                    pilot = _pilot(**size)
                    pd = pilot['description']
                    try:
                        comp._prepare_pilot(resource, copy.deepcopy(rcfg), pilot, {}, '')
                    except Exception as e:
                        viol.append(dict(id='%s:raises' % resource, detail='%s %s: _prepare_pilot raised %r' % (resource, size, e), input=dict(resource=resource, size=size)))
                        break
                    nodes = pd['nodes']
                    if not nodes:
                        nodes = 0
                        while nodes * cpn < pd['cores'] or (gpn > 0 and nodes * gpn < pd['gpus']):
                            nodes += 1
                    total = nodes + pd['backup_nodes']
                    want = (total, total * cpn, (total * gpn) or pd['gpus'])
                    jd, cfg = pilot['jd_dict'], pilot['cfg']
                    got = (jd.node_count, jd.total_cpu_count, jd.total_gpu_count)
                    told = (cfg['nodes'] + cfg['backup_nodes'], cfg['cores'], cfg['gpus'])
                    if got != want:
                        viol.append(dict(id='%s:sizing' % resource,
                                    detail='%s, pilot %s: the job asks for (nodes, cores, gpus) = %s, the smallest fit is %s [%d usable cores, %d GPUs per node, smt %d]'
                                           % (resource, size, got, want, cpn, gpn, smt), input=dict(resource=resource, size=size)))
                        break
                    n_bc = len(arch.get('blocked_cores', []) or [])
                    n_bg = len(arch.get('blocked_gpus', []) or [])
                    if (cfg['cores_per_node'] - n_bc) * total != cfg['cores'] or \
                       (gpn > 0 and (cfg['gpus_per_node'] - n_bg) * total != cfg['gpus']):
                        viol.append(dict(id='%s:agent-node-size' % resource,
                                    detail='%s, pilot %s: the agent is told a node has %s cores / %s GPUs (%d / %d blocked), which on %d nodes '
                                           'does not give the %s cores / %s GPUs the job was sized for [smt %d]'
                                           % (resource, size, cfg['cores_per_node'], cfg['gpus_per_node'], n_bc, n_bg, total, cfg['cores'], cfg['gpus'], smt),
                                    input=dict(resource=resource, size=size)))
                        break
                    if told != got:
                        viol.append(dict(id='%s:agent-figures' % resource,
                                    detail='%s, pilot %s: the agent is told %s, the job asks for %s' % (resource, size, told, got),
                                    input=dict(resource=resource, size=size)))
                        break
    return dict(cases=n, violations=viol[:8],
                bound='%d sizings: every shipped platform with a known node size x 6-8 pilot sizes (explicit nodes, cores below / at / above one node, GPUs, backup nodes)' % n)


@builder('pmgr/launching/base.py:PMGRLaunchingComponent._prepare_pilot')
def pilot_replay(case, rp):
    r = run_all(rp)
    for v in r['violations']:
        return dict(confirmed=True, detail=v['detail'], input=v['input'], found_by='bounded native pilot sizing')
    return dict(confirmed=False, detail='%d pilot sizings fit' % r['cases'])

"""effect callees: calls whose only modelled effect is an event appended to a
ghost log (advance, publish, callbacks), or nothing at all (assumption A5: they
return normally)."""
import ast
import z3
from pyvc.core import (Val, NONE, TBool, fresh, coerce, lift, PyTuple, TList,
                       OutsideSubset, SpecError)
from pyvc.calls import pos_args, kw_args


def ignore_call(ex, node, st):
    for a in node.args:
        try: ex.ev(a, st)
        except OutsideSubset: pass
    return NONE
ignore_call.mutates = ()


def nondet_bool(ex, node, st):
    return fresh(TBool, 'nondet')
nondet_bool.mutates = ()


def log_call(logname, rec, fields, params=None, defaults=None):
    """handler: append rec(**{f: <spec expr over the call's arguments>}) to the
    ghost list `logname`.  `params` names the positional parameters."""
    params = params or []
    defaults = defaults or {}

    def handler(ex, node, st):
        env = dict()
        for p, a in zip(params, node.args):
            env[p] = ex.ev(a, st)
        for k in node.keywords:
            env[k.arg] = ex.ev(k.value, st)
        for p, d in defaults.items():
            env.setdefault(p, lift(d))
        sub = st.fork()
        sub.env = dict(st.env)
        sub.env.update(env)
        vals = dict()
        for f, text in fields.items():
            vals[f] = ex.spec_expr(text, sub)
        from pyvc.core import PyDict
        log = ex.get_var(st, logname)
        if log is None:
            raise SpecError('ghost log %s not declared in spec of %s'
                            % (logname, ex.spec['short']))
        e = coerce(PyDict(vals), rec)
        ty = log.ty
        n = ty.len(log.term)
        st.env[logname] = Val(ty, ty.mk(z3.Store(ty.arr(log.term), n, e.term),
                                        n + 1))
        return NONE
    handler.mutates = (logname,)
    return handler


def read_field(root):
    """handler for a call that only reads a boolean flag modelled as the self
    field `root` (e.g. self._terminate.is_set() -> self._terminating)"""
    def handler(ex, node, st):
        v = ex.get_var(st, root)
        if v is None:
            raise SpecError('%s not declared' % root)
        return v
    handler.mutates = ()
    return handler

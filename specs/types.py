"""record shapes (assumption A2) shared by the contracts"""
from pyvc.spec import REG, T

OStr = T.Opt(T.Str)
OAny = T.Opt(T.Any)

# -- client side task facade (radical.pilot.Task) and the dicts that update it --
TaskDescrC = T.Rec('TaskDescrC', mode=OStr, metadata=OAny)
_upd_keys = ['stdout', 'stderr', 'exit_code', 'return_value', 'endpoint_fs',
             'resource_sandbox', 'session_sandbox', 'pilot_sandbox',
             'task_sandbox', 'client_sandbox', 'exception',
             'slots', 'partition', 'ofiles']
TaskObj = T.RecD('Task', dict(
    [('_uid', T.Str), ('_state', OStr), ('_pilot', OStr),
     ('_exception_detail', OStr)] +
    [('_' + k, OAny) for k in _upd_keys] + [('_descr', TaskDescrC)]))
REG.types['Task'] = TaskObj

TaskDict = T.RecD('TaskDict', dict(
    [('uid', T.Str), ('state', OStr), ('pilot', OStr),
     ('exception_detail', OStr), ('target_state', OStr), ('type', OStr)] +
    [(k, OAny) for k in _upd_keys] +
    [('description', T.Opt(T.Rec('TaskDictDescr', metadata=OAny)))]))
REG.types['TaskDict'] = TaskDict
REG.optional_keys['TaskDict'] = set(TaskDict.fields) - {'uid', 'state'}
REG.optional_keys['TaskDictDescr'] = {'metadata'}

# properties of facade classes modelled as records
REG.rec_props = {'Task': {'state': '_state', 'uid': '_uid', 'pilot': '_pilot'}}

# -- client side pilot facade ---------------------------------------------------
PilotObj = T.Rec('Pilot', _uid=T.Str, _state=OStr)
REG.types['Pilot'] = PilotObj
REG.rec_props['Pilot'] = {'uid': '_uid', 'state': '_state'}

# -- agent scheduler ------------------------------------------------------------
ORealT = T.Opt(T.Real)
RO    = T.Rec('RO', index=T.Int, occupation=T.Real)
SlotD = T.Rec('Slot', node_name=T.Str, node_index=T.Int, cores=T.List(RO),
              gpus=T.List(RO), lfs=T.Int, mem=T.Int, version=T.Opt(T.Int))
NodeD = T.RecD('Node', dict(index=T.Int, name=T.Str, cores=T.List(ORealT),
              gpus=T.List(ORealT), lfs=T.Int, mem=T.Int))
REG.types.update(RO=RO, Slot=SlotD, Node=NodeD)
REG.optional_keys['Slot'] = {'version'}


def _mk_RO(ex, node, st):
    from pyvc.core import PyDict, coerce
    from pyvc.calls import kw_args
    kw = kw_args(ex, node, st)
    return coerce(PyDict(kw), RO)


def _mk_Slot(ex, node, st):
    from pyvc.core import PyDict, coerce, lift
    from pyvc.calls import kw_args
    kw = kw_args(ex, node, st)
    kw.setdefault('version', lift(1))
    return coerce(PyDict(kw), SlotD)


REG.constructors['RO'] = _mk_RO
REG.constructors['Slot'] = _mk_Slot

# -- pilot update dicts ----------------------------------------------------------
PilotRes  = T.Rec('PilotRes', rm_info=OAny)
REG.optional_keys['PilotRes'] = {'rm_info'}
PilotDict = T.Rec('PilotDict', uid=T.Str, state=OStr, resources=T.Opt(PilotRes),
                  resource_details=OAny, lm_info=OAny, lm_detail=OAny, type=OStr)
REG.optional_keys['PilotDict'] = set(PilotDict.fields) - {'uid'}
REG.types['PilotDict'] = PilotDict

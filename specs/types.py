"""record shapes (assumption A2) shared by the contracts"""
from pyvc.spec import REG, T

OStr = T.Opt(T.Str)
OAny = T.Opt(T.Any)

# -- client side task facade (radical.pilot.Task) and the dicts that update it --
TaskDescrC = T.Rec('TaskDescrC', mode=OStr, metadata=OAny)
_upd_keys = ['stdout', 'stderr', 'exit_code', 'return_value', 'endpoint_fs',
             'resource_sandbox', 'session_sandbox', 'pilot_sandbox',
             'task_sandbox', 'client_sandbox', 'exception',
             'slots', 'partition', 'ofiles']
TaskObj = T.RecD('Task', dict(
    [('_uid', T.Str), ('_state', OStr), ('_pilot', OStr),
     ('_exception_detail', OStr)] +
    [('_' + k, OAny) for k in _upd_keys] + [('_descr', TaskDescrC)]))
REG.types['Task'] = TaskObj

TaskDict = T.RecD('TaskDict', dict(
    [('uid', T.Str), ('state', OStr), ('pilot', OStr),
     ('exception_detail', OStr), ('target_state', OStr), ('type', OStr)] +
    [(k, OAny) for k in _upd_keys] +
    [('description', T.Opt(T.Rec('TaskDictDescr', metadata=OAny)))]))
REG.types['TaskDict'] = TaskDict
REG.optional_keys['TaskDict'] = set(TaskDict.fields) - {'uid', 'state'}
REG.optional_keys['TaskDictDescr'] = {'metadata'}

# properties of facade classes modelled as records
REG.rec_props = {'Task': {'state': '_state', 'uid': '_uid', 'pilot': '_pilot'}}

# -- client side pilot facade ---------------------------------------------------
PilotObj = T.Rec('Pilot', _uid=T.Str, _state=OStr)
REG.types['Pilot'] = PilotObj
REG.rec_props['Pilot'] = {'uid': '_uid', 'state': '_state'}

"""C09: launch methods (agent/launch_method/*.py): the command generated for a task,
as a function of the task's placement.

The postconditions state the command in the launcher's own command-line grammar
(`<cmd> -np <ranks> -host <nodes of the placement, in order> <exec>` ..), written
as the same string operations over the *placement*; that this grammar makes the
launcher start those processes on those nodes is assumption A14 (the external
tool's command line).  Every get_launch_cmds has frame `modifies nothing`: the
launcher object does not change, so the command cannot depend on earlier calls.
"""
import z3
from pyvc import core as C
from pyvc.spec import REG, T
from pyvc.core import Val, fresh
from .types import OStr, OAny, RO
from .effects import ignore_call

ROL   = T.List(RO)
LSlot = T.Rec('LSlot', node_name=T.Str, node_index=T.Int, cores=ROL, gpus=ROL)
LDesc = T.Rec('LDesc', ranks=T.Int, cores_per_rank=T.Opt(T.Int), gpus_per_rank=T.Opt(T.Real), executable=OStr,
              use_mpi=T.Opt(T.Bool))
REG.optional_keys['LDesc'] = {'cores_per_rank', 'gpus_per_rank'}
LTask = T.Rec('LTask', uid=T.Str, description=LDesc, slots=T.List(LSlot), task_sandbox_path=T.Str, partition=T.Opt(T.Int))
REG.optional_keys['LTask'] = {'partition'}

_base = dict(params=dict(task=LTask, exec_path=T.Str), returns=T.Str, modifies=[], serves=['C09'])

REG.spec('agent/launch_method/fork.py:Fork.get_launch_cmds',
    self    = dict(_command=T.Str),
    raises  = {},
    ensures = [('runs-the-executable-directly-once', 'result == exec_path')], **_base)

REG.spec('agent/launch_method/fork.py:Fork.can_launch',
    params  = dict(task=LTask),
    self    = dict(node_name=T.Str),
    returns = T.Tuple(T.Bool, T.Str),
    modifies = [],
    requires = ['len(task.slots) >= 1'],
    raises  = {},
    ensures = [('refuses-what-it-cannot-start',
                'implies(task.description.ranks > 1 or bool(task.description.use_mpi) or '
                '(task.slots[0].node_name != "localhost" and task.slots[0].node_name != self.node_name), not result[0])')],
    serves  = ['C09'])

for _f, _c in (('ssh.py', 'SSH'), ('rsh.py', 'RSH')):
    REG.spec('agent/launch_method/%s:%s.get_launch_cmds' % (_f, _c),
        self    = dict(_command=T.Str),
        raises  = {'RuntimeError': 'len(task.slots) != 1'},
        ensures = [('one-process-on-the-node-of-the-placement',
                    'result == ("%s %s %s" % (self._command, task.slots[0].node_name, exec_path)).rstrip()')], **_base)

REG.spec('agent/launch_method/ccmrun.py:CCMRun.get_launch_cmds',
    self    = dict(_command=T.Str),
    raises  = {},
    ensures = [('as-many-processes-as-ranks',
                'result == ("%s -n %d %s" % (self._command, task.description.ranks, exec_path)).rstrip()')], **_base)

REG.spec('agent/launch_method/aprun.py:APRun.get_launch_cmds',
    self    = dict(_command=T.Str),
    locals  = dict(cores_per_rank=T.Int),
    raises  = {},
    ensures = [('as-many-processes-as-ranks-with-the-requested-depth',
                'result == ("%s %s %s" % (self._command, "-n %s " % task.description.ranks + "-d %s" % '
                'ite(task.description.cores_per_rank is None, 1, val(task.description.cores_per_rank)), exec_path)).rstrip()')], **_base)


# ------------------------------------------------------------------------------
# mpirun: host list / host file from the placement, -np
def _create_hostfile(ex, node, st):
    """ru.create_hostfile(sandbox, uid, host_list, impaired=True) (radical.utils): writes
    the hosts to a file and returns its name; the list written is recorded (ghost
    `hostfile_hosts`), the file name is opaque"""
    args = [ex.ev(a, st) for a in node.args]
    st.env['hostfile_hosts'] = args[2]
    return fresh(T.Str, 'hostfile')
_create_hostfile.mutates = ('hostfile_hosts',)

StrL = T.List(T.Str)
REG.define('hosts_of(hl, slots)',
    'len(hl) == len(slots) and forall(lambda k: implies(0 <= k < len(slots), hl[k] == slots[k].node_name))')

REG.spec('agent/launch_method/mpirun.py:MPIRun.get_launch_cmds',
    params  = dict(task=LTask, exec_path=T.Str),
    self    = dict(name=T.Str, _command=T.Str, _ccmrun=T.Str, _dplace=T.Str, _omplace=T.Str, _mpt=T.Bool,
                   _mpi_flavor=OStr, MPI_FLAVOR_SPECTRUM=T.Str),
    returns = T.Str,
    ghost   = dict(hostfile_hosts=StrL),
    locals  = dict(host_list=StrL, core_list=ROL, save_list=ROL, hosts_string=T.Str, mpt_hosts_string=T.Str,
                   np=T.Int, options=T.Str, task_cores=T.Int),
    calls   = {'ru.create_hostfile': _create_hostfile},
    requires = ['len(task.slots) >= 1', 'forall(lambda k: implies(0 <= k < len(task.slots), len(task.slots[k].cores) >= 1))'],
    modifies = ['hostfile_hosts'],
    raises  = {'ValueError': 'True', 'TypeError': 'True', 'AssertionError': 'True'},
    raises_weak = ['ValueError', 'TypeError', 'AssertionError'],
    frame_on_raise = False,
    cuts = {'for slot in slots:': [
        ('the-hosts-handed-to-mpirun-are-the-nodes-of-the-placement-rank-by-rank', 'hosts_of(host_list, task.slots)', 'post')]},
    ensures = [
      ('short-list-names-the-placement-and-starts-one-process-per-rank',
       'implies(len(task.slots) <= 42 and not self._mpt, result == ("%s %s %s %s %s %s %s %s" % '
       '(self._ccmrun, self._command, "", options, self._dplace, self._omplace, "-host %s" % ",".join(host_list), exec_path)).strip() and '
       'np == len(task.slots) and (options == "" + "-np %d" % np or options == "-gpu " + "-np %d" % np))'),
      ('mpt-names-each-rank-host-once-with-one-process-each',
       'implies(len(task.slots) <= 42 and self._mpt, result == ("%s %s %s %s %s %s %s %s" % '
       '(self._ccmrun, self._command, "%s" % ",".join(host_list), options, self._dplace, self._omplace, "", exec_path)).strip() and np == 1)'),
      ('long-list-goes-to-a-host-file-holding-the-placement',
       'implies(len(task.slots) > 42, hosts_of(hostfile_hosts, task.slots) and np == ite(self._mpt, 1, len(task.slots)))'),
    ],
    loops = {'1': ['len(host_list) == i_slot', 'forall(lambda k: implies(0 <= k < i_slot, host_list[k] == task.slots[k].node_name))',
                   'len(core_list) == i_slot', 'self._dplace == old(self._dplace)']},
    opts    = dict(merge='scalars'),
    serves  = ['C09'])

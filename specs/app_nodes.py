"""C01, application-level placement (resource_config.py): Node.find_slot /
allocate_slot / deallocate_slot and NodeList.find_slots / release_slots, the
finder an application uses through Pilot.nodelist to supply placements.

Occupations are reals (A3: float arithmetic treated as mathematical)."""
import z3
from pyvc import core as C
from pyvc.spec import REG, T
from pyvc.core import Val, fresh
from .types import OStr, OAny, RO, SlotD

ARO   = T.Rec('ARO', index=T.Int, occupation=T.Opt(T.Real))          # a cell of a node: None = DOWN
AROL  = T.List(ARO)
ROL   = T.List(RO)
ANode = T.RecD('ANode', dict(index=T.Int, name=T.Str, cores=AROL, gpus=AROL, lfs=T.Opt(T.Int), mem=T.Opt(T.Int)))
ARR   = T.Rec('ARR', n_cores=T.Int, core_occupation=T.Real, n_gpus=T.Int, gpu_occupation=T.Real, lfs=T.Int, mem=T.Int)
REG.types.update(ARO=ARO, ANode=ANode, ARR=ARR)

# cells sit at the position their index names and are DOWN or occupied 0..1
REG.define('cells_ok(cs)', 'forall(lambda i: implies(0 <= i < len(cs), cs[i].index == i and '
                           '(cs[i].occupation is None or 0 <= val(cs[i].occupation) <= 1)))')
REG.define('anode_ok(n)', 'cells_ok(n.cores) and cells_ok(n.gpus) and (n.lfs is None or val(n.lfs) >= 0) and (n.mem is None or val(n.mem) >= 0)')
# the shares ros (strictly increasing indices: no cell twice) fit into cs
REG.define('fits(cs, ros)',
    'forall(lambda k: implies(0 <= k < len(ros), 0 <= ros[k].index < len(cs) and cs[ros[k].index].occupation is not None and '
    'ros[k].occupation >= 0 and val(cs[ros[k].index].occupation) + ros[k].occupation <= 1)) and '
    'forall(lambda k, l: implies(0 <= k < l < len(ros), ros[k].index < ros[l].index))')
# cs1 is cs0 with sign * share added on exactly the named cells
REG.define('moved(cs0, cs1, ros, sign)',
    'len(cs1) == len(cs0) and '
    'forall(lambda k: implies(0 <= k < len(ros), cs1[ros[k].index].index == cs0[ros[k].index].index and cs1[ros[k].index].occupation is not None and '
    'val(cs1[ros[k].index].occupation) == val(cs0[ros[k].index].occupation) + sign * ros[k].occupation)) and '
    'forall(lambda i: implies(0 <= i < len(cs0) and not exists(lambda k: 0 <= k < len(ros) and ros[k].index == i), cs1[i] == cs0[i]))')

REG.spec('resource_config.py:Node._get_core_index',
    self_type = ANode,
    params    = dict(ro=RO),
    returns   = T.Int,
    modifies  = [],
    raises    = {'ValueError': 'not exists(lambda i: 0 <= i < len(self.cores) and self.cores[i].index == ro.index)'},
    ensures   = ['0 <= result < len(self.cores) and self.cores[result].index == ro.index',
                 'forall(lambda j: implies(0 <= j < result, self.cores[j].index != ro.index))'],
    loops     = {'1': ['forall(lambda j: implies(0 <= j < i__ro, self.cores[j].index != ro.index))']},
    serves    = ['C01'])

REG.spec('resource_config.py:Node._get_gpu_index',
    self_type = ANode,
    params    = dict(ro=RO),
    returns   = T.Int,
    modifies  = [],
    raises    = {'ValueError': 'not exists(lambda i: 0 <= i < len(self.gpus) and self.gpus[i].index == ro.index)'},
    ensures   = ['0 <= result < len(self.gpus) and self.gpus[result].index == ro.index',
                 'forall(lambda j: implies(0 <= j < result, self.gpus[j].index != ro.index))'],
    loops     = {'1': ['forall(lambda j: implies(0 <= j < i__ro, self.gpus[j].index != ro.index))']},
    serves    = ['C01'])

_GI = {'self._get_core_index': 'resource_config.py:Node._get_core_index',
       'self._get_gpu_index':  'resource_config.py:Node._get_gpu_index'}

REG.spec('resource_config.py:Node.allocate_slot',
    self_type = ANode,
    params    = dict(slot=SlotD, _check=T.Bool),
    defaults  = dict(_check=True),
    calls     = _GI,
    locals    = dict(cores=ROL, gpus=ROL, c_idx=T.Int, g_idx=T.Int),
    # the unchecked form, as find_slot uses it for the slots it has just built;
    # the checked form (slots built elsewhere: ints / RO lists, isinstance
    # dispatch) is outside the verified subset
    requires  = ['not _check', 'anode_ok(self)', 'fits(self.cores, slot.cores)', 'fits(self.gpus, slot.gpus)',
                 'slot.lfs >= 0 and slot.mem >= 0',
                 'implies(self.lfs is not None, val(self.lfs) >= slot.lfs)', 'implies(self.mem is not None, val(self.mem) >= slot.mem)'],
    modifies  = ['self'],
    raises    = {},
    ensures   = [
      ('node-stays-well-formed', 'anode_ok(self)'),
      ('exactly-the-named-core-shares-are-booked', 'moved(old(self).cores, self.cores, slot.cores, 1)'),
      ('exactly-the-named-gpu-shares-are-booked',  'moved(old(self).gpus, self.gpus, slot.gpus, 1)'),
      ('lfs-and-mem-debited-within-what-the-node-has',
       'self.lfs == ite(old(self).lfs is None, None, val(old(self).lfs) - slot.lfs) and '
       'self.mem == ite(old(self).mem is None, None, val(old(self).mem) - slot.mem)'),
      ('identity-kept', 'self.index == old(self).index and self.name == old(self).name'),
    ],
    loops = {
      '3': ['cores == slot.cores', 'gpus == slot.gpus', 'self.gpus == old(self).gpus', 'self.lfs == old(self).lfs', 'self.mem == old(self).mem',
            'self.index == old(self).index and self.name == old(self).name',
            'len(self.cores) == len(old(self).cores)',
            'forall(lambda i: implies(0 <= i < len(self.cores), self.cores[i].index == i))',
            'forall(lambda k: implies(0 <= k < i_ro, self.cores[cores[k].index].occupation is not None and '
            'val(self.cores[cores[k].index].occupation) == val(old(self).cores[cores[k].index].occupation) + cores[k].occupation))',
            'forall(lambda k: implies(i_ro <= k < len(cores), self.cores[cores[k].index] == old(self).cores[cores[k].index]))',
            'forall(lambda i: implies(0 <= i < len(self.cores) and not exists(lambda k: 0 <= k < len(cores) and cores[k].index == i), self.cores[i] == old(self).cores[i]))'],
      '4': ['cores == slot.cores', 'gpus == slot.gpus', 'self.lfs == old(self).lfs', 'self.mem == old(self).mem',
            'self.index == old(self).index and self.name == old(self).name',
            'moved(old(self).cores, self.cores, slot.cores, 1)', 'cells_ok(self.cores)',
            'len(self.gpus) == len(old(self).gpus)',
            'forall(lambda i: implies(0 <= i < len(self.gpus), self.gpus[i].index == i))',
            'forall(lambda k: implies(0 <= k < i_ro, self.gpus[gpus[k].index].occupation is not None and '
            'val(self.gpus[gpus[k].index].occupation) == val(old(self).gpus[gpus[k].index].occupation) + gpus[k].occupation))',
            'forall(lambda k: implies(i_ro <= k < len(gpus), self.gpus[gpus[k].index] == old(self).gpus[gpus[k].index]))',
            'forall(lambda i: implies(0 <= i < len(self.gpus) and not exists(lambda k: 0 <= k < len(gpus) and gpus[k].index == i), self.gpus[i] == old(self).gpus[i]))'],
    },
    serves = ['C01'])

# the shares ros are booked on cs (they can be given back without going below 0)
REG.define('booked(cs, ros)',
    'forall(lambda k: implies(0 <= k < len(ros), 0 <= ros[k].index < len(cs) and cs[ros[k].index].occupation is not None and '
    'ros[k].occupation >= 0 and val(cs[ros[k].index].occupation) - ros[k].occupation >= 0)) and '
    'forall(lambda k, l: implies(0 <= k < l < len(ros), ros[k].index < ros[l].index))')

REG.spec('resource_config.py:Node.deallocate_slot',
    self_type = ANode,
    params    = dict(slot=SlotD),
    requires  = ['anode_ok(self)', 'booked(self.cores, slot.cores)', 'booked(self.gpus, slot.gpus)', 'slot.lfs >= 0 and slot.mem >= 0'],
    modifies  = ['self'],
    # a node without lfs / mem figures (None) cannot take a slot back: the node lists
    # the resource manager hands out always carry both (C18)
    raises    = {'TypeError': 'self.lfs is None or self.mem is None'},
    frame_on_raise = False,
    ensures   = [
      ('node-stays-well-formed', 'anode_ok(self)'),
      ('exactly-the-named-core-shares-are-given-back', 'moved(old(self).cores, self.cores, slot.cores, -1)'),
      ('exactly-the-named-gpu-shares-are-given-back',  'moved(old(self).gpus, self.gpus, slot.gpus, -1)'),
      ('lfs-and-mem-credited', 'self.lfs == val(old(self).lfs) + slot.lfs and self.mem == val(old(self).mem) + slot.mem'),
      ('identity-kept', 'self.index == old(self).index and self.name == old(self).name'),
    ],
    loops = {
      '1': ['self.gpus == old(self).gpus', 'self.lfs == old(self).lfs', 'self.mem == old(self).mem',
            'self.index == old(self).index and self.name == old(self).name',
            'len(self.cores) == len(old(self).cores)',
            'forall(lambda i: implies(0 <= i < len(self.cores), self.cores[i].index == i))',
            'forall(lambda k: implies(0 <= k < i_ro, self.cores[slot.cores[k].index].occupation is not None and '
            'val(self.cores[slot.cores[k].index].occupation) == val(old(self).cores[slot.cores[k].index].occupation) - slot.cores[k].occupation))',
            'forall(lambda k: implies(i_ro <= k < len(slot.cores), self.cores[slot.cores[k].index] == old(self).cores[slot.cores[k].index]))',
            'forall(lambda i: implies(0 <= i < len(self.cores) and not exists(lambda k: 0 <= k < len(slot.cores) and slot.cores[k].index == i), self.cores[i] == old(self).cores[i]))'],
      '2': ['self.lfs == old(self).lfs', 'self.mem == old(self).mem',
            'self.index == old(self).index and self.name == old(self).name',
            'moved(old(self).cores, self.cores, slot.cores, -1)', 'cells_ok(self.cores)',
            'len(self.gpus) == len(old(self).gpus)',
            'forall(lambda i: implies(0 <= i < len(self.gpus), self.gpus[i].index == i))',
            'forall(lambda k: implies(0 <= k < i_ro, self.gpus[slot.gpus[k].index].occupation is not None and '
            'val(self.gpus[slot.gpus[k].index].occupation) == val(old(self).gpus[slot.gpus[k].index].occupation) - slot.gpus[k].occupation))',
            'forall(lambda k: implies(i_ro <= k < len(slot.gpus), self.gpus[slot.gpus[k].index] == old(self).gpus[slot.gpus[k].index]))',
            'forall(lambda i: implies(0 <= i < len(self.gpus) and not exists(lambda k: 0 <= k < len(slot.gpus) and slot.gpus[k].index == i), self.gpus[i] == old(self).gpus[i]))'],
    },
    serves = ['C01', 'C03'])

def _found(cells, ros, occ, n):
    return ('len(%(r)s) == %(n)s and fits(old(self).%(c)s, %(r)s) and moved(old(self).%(c)s, self.%(c)s, %(r)s, 1) and '
            'forall(lambda k: implies(0 <= k < len(%(r)s), %(r)s[k].occupation == %(o)s))') % dict(c=cells, r=ros, o=occ, n=n)

def _scan_inv(cells, lst, occ, n):
    return ['self == old(self)', 'len(%s) < %s' % (lst, n),
            'forall(lambda k: implies(0 <= k < len(%(l)s), 0 <= %(l)s[k].index < i_ro and %(l)s[k].occupation == %(o)s and '
            'self.%(c)s[%(l)s[k].index].occupation is not None and val(self.%(c)s[%(l)s[k].index].occupation) + %(o)s <= 1))' % dict(l=lst, c=cells, o=occ),
            'forall(lambda k, l: implies(0 <= k < l < len(%(l)s), %(l)s[k].index < %(l)s[l].index))' % dict(l=lst)]

_rr_ok = ['rr.n_cores >= 0 and rr.n_gpus >= 0 and rr.core_occupation >= 0 and rr.gpu_occupation >= 0 and rr.lfs >= 0 and rr.mem >= 0']

REG.spec('resource_config.py:Node.find_slot',
    self_type = ANode,
    params    = dict(rr=ARR),
    returns   = T.Opt(SlotD),
    locals    = dict(cores=ROL, gpus=ROL, slot=SlotD),
    calls     = {'self.allocate_slot': 'resource_config.py:Node.allocate_slot'},
    requires  = ['anode_ok(self)'] + _rr_ok,
    modifies  = ['self'],
    raises    = {},
    ensures   = [
      ('node-stays-well-formed', 'anode_ok(self)'),
      ('a-refusal-books-nothing', 'implies(result is None, self == old(self))'),
      ('a-slot-names-the-requested-number-of-distinct-cores-that-had-room-and-books-exactly-those',
       'implies(result is not None, ' + _found('cores', 'val(result).cores', 'rr.core_occupation', 'rr.n_cores') + ')'),
      ('a-slot-names-the-requested-number-of-distinct-gpus-that-had-room-and-books-exactly-those',
       'implies(result is not None, ' + _found('gpus', 'val(result).gpus', 'rr.gpu_occupation', 'rr.n_gpus') + ')'),
      ('lfs-and-mem-within-what-the-node-has',
       'implies(result is not None, val(result).lfs == rr.lfs and val(result).mem == rr.mem and '
       'self.lfs == ite(old(self).lfs is None, None, val(old(self).lfs) - rr.lfs) and '
       'self.mem == ite(old(self).mem is None, None, val(old(self).mem) - rr.mem))'),
      ('the-slot-names-this-node', 'implies(result is not None, val(result).node_index == self.index and val(result).node_name == self.name and '
                                   'self.index == old(self).index and self.name == old(self).name)'),
    ],
    cuts = {
      'if rr.n_cores:': ['self == old(self)', 'len(gpus) == 0', 'len(cores) == rr.n_cores', 'fits(self.cores, cores)',
                         'forall(lambda k: implies(0 <= k < len(cores), cores[k].occupation == rr.core_occupation))'],
      'if rr.n_gpus:':  ['self == old(self)', 'len(gpus) == rr.n_gpus', 'fits(self.gpus, gpus)',
                         'forall(lambda k: implies(0 <= k < len(gpus), gpus[k].occupation == rr.gpu_occupation))'],
    },
    loops = {'1': _scan_inv('cores', 'cores', 'rr.core_occupation', 'rr.n_cores') + ['len(gpus) == 0'],
             '2': _scan_inv('gpus', 'gpus', 'rr.gpu_occupation', 'rr.n_gpus') +
                  ['len(cores) == rr.n_cores', 'fits(self.cores, cores)',
                   'forall(lambda k: implies(0 <= k < len(cores), cores[k].occupation == rr.core_occupation))']},
    serves = ['C01', 'C02'])


# ------------------------------------------------------------------------------
# NodeList: which node a slot is taken from and given back to
ANodeL = T.List(ANode)
SlotL  = T.List(SlotD)
RelEvt = T.Rec('ARelEvt', node_index=T.Int, slot=SlotD)
REG.define('nodes_ok(ns)', 'forall(lambda j: implies(0 <= j < len(ns), anode_ok(ns[j])))')
REG.define('has_node(ns, ix)', 'exists(lambda j: 0 <= j < len(ns) and ns[j].index == ix)')

REG.spec('resource_config.py:NodeList._get_node',
    params   = dict(node_index=T.Int),
    self     = dict(nodes=ANodeL),
    returns  = ANode,
    modifies = [],
    raises   = {'ValueError': 'not has_node(self.nodes, node_index)'},
    ensures  = [('the-node-with-that-index-not-the-node-at-that-position', 'result.index == node_index'),
                ('it-is-a-node-of-the-list', 'exists(lambda j: 0 <= j < len(self.nodes) and self.nodes[j] == result)')],
    loops    = {'1': ['forall(lambda j: implies(0 <= j < i_node, self.nodes[j].index != node_index))']},
    serves   = ['C01', 'C03'])


def _give_back(ex, node, st):
    """node.deallocate_slot(slot) at NodeList level: an event (index of the node that
    takes the slot back, the slot), with the obligation that it is the node the slot
    names; what the node then does is Node.deallocate_slot's contract (above)"""
    n = ex.ev(node.func.value, st)
    s = C.coerce(ex.ev(node.args[0], st), SlotD)
    ex.oblige(st, 'a-slot-is-given-back-to-the-node-it-was-taken-from@L%s' % ex.cur_line,
              n.ty.get(n.term, 'index') == SlotD.get(s.term, 'node_index'), 'post',
              note='node.index == slot.node_index at node.deallocate_slot(slot)')
    log = ex.get_var(st, 'rel_log')
    ty = log.ty
    k = ty.len(log.term)
    st.env['rel_log'] = Val(ty, ty.mk(z3.Store(ty.arr(log.term), k, RelEvt.mk(n.ty.get(n.term, 'index'), s.term)), k + 1))
    return C.NONE
_give_back.mutates = ('rel_log',)

_rel_post = [
    ('every-slot-is-given-back-once-to-the-node-it-names',
     'len(rel_log) == len(old(rel_log)) + len(slots) and forall(lambda k: implies(0 <= k < len(slots), '
     'rel_log[len(old(rel_log)) + k].slot == slots[k] and rel_log[len(old(rel_log)) + k].node_index == slots[k].node_index))'),
    ('earlier-events-kept', 'forall(lambda k: implies(0 <= k < len(old(rel_log)), rel_log[k] == old(rel_log)[k]))')]
_rel_inv = ['len(rel_log) == len(old(rel_log)) + i_slot',
            'forall(lambda k: implies(0 <= k < i_slot, rel_log[len(old(rel_log)) + k].slot == slots[k] and '
            'rel_log[len(old(rel_log)) + k].node_index == slots[k].node_index))',
            'forall(lambda k: implies(0 <= k < len(old(rel_log)), rel_log[k] == old(rel_log)[k]))']
_NL = 'resource_config.py:NodeList.'

REG.spec(_NL + 'release_slots#give-back',
    fragment = 'for slot in slots:',
    params   = dict(slots=SlotL),
    self     = dict(nodes=ANodeL),
    ghost    = dict(rel_log=T.List(RelEvt)),
    locals   = dict(node=ANode),
    calls    = {'self._get_node': _NL + '_get_node', 'node.deallocate_slot': _give_back},
    requires = ['forall(lambda k: implies(0 <= k < len(slots), has_node(self.nodes, slots[k].node_index)))'],
    modifies = ['rel_log'],
    raises   = {},
    ensures  = _rel_post,
    loops    = {'1': _rel_inv},
    serves   = ['C01', 'C03'])

REG.spec(_NL + 'find_slots#roll-back',
    fragment = 'if len(slots) != n_slots:',
    # `node` is live at this point (the last node the search looked at): a free
    # variable of the fragment, so that a use before the fragment's own assignment
    # is an obligation failure and not a shape error
    params   = dict(slots=SlotL, n_slots=T.Int, rr=ARR, node=ANode),
    self     = dict(nodes=ANodeL, __last_failed_rr__=T.Opt(ARR), __last_failed_n__=T.Opt(T.Int)),
    ghost    = dict(rel_log=T.List(RelEvt)),
    returns  = T.Opt(SlotL),
    returns_in_fragment = True,
    calls    = {'self._get_node': _NL + '_get_node', 'node.deallocate_slot': _give_back},
    requires = ['forall(lambda k: implies(0 <= k < len(slots), has_node(self.nodes, slots[k].node_index)))'],
    modifies = ['rel_log', 'self.__last_failed_rr__', 'self.__last_failed_n__', 'node'],
    raises   = {},
    ensures  = [('a-refused-request-gives-every-collected-slot-back-to-the-node-it-names',
                 'implies(len(slots) != n_slots, ' + _rel_post[0][1] + ')'),
                ('a-complete-request-gives-nothing-back', 'implies(len(slots) == n_slots, rel_log == old(rel_log))'),
                _rel_post[1]],
    loops    = {'1': _rel_inv},
    serves   = ['C01', 'C03'])

REG.spec(_NL + 'find_slots#collect',
    fragment = 'for i in range(0, len(self.nodes)):',
    params   = dict(rr=ARR, n_slots=T.Int, slots=SlotL, start=T.Int, count=T.Int),
    self     = dict(nodes=ANodeL),
    locals   = dict(node=ANode, slot=T.Opt(SlotD), idx=T.Int, stop=T.Int),
    calls    = {'node.find_slot': 'resource_config.py:Node.find_slot'},
    requires = ['nodes_ok(self.nodes)', 'len(slots) == 0', 'n_slots >= 1'] + _rr_ok,
    modifies = ['self.nodes', 'slots'],
    raises   = {},
    ensures  = [
      ('no-node-is-overbooked-by-the-search', 'nodes_ok(self.nodes) and len(self.nodes) == len(old(self.nodes))'),
      ('nodes-keep-their-identity', 'forall(lambda j: implies(0 <= j < len(self.nodes), self.nodes[j].index == old(self.nodes)[j].index))'),
      ('never-more-slots-than-requested', 'len(slots) <= n_slots'),
      ('every-collected-slot-names-a-node-of-the-list',
       'forall(lambda k: implies(0 <= k < len(slots), has_node(self.nodes, slots[k].node_index)))'),
      ('every-collected-slot-has-the-requested-shape',
       'forall(lambda k: implies(0 <= k < len(slots), len(slots[k].cores) == rr.n_cores and len(slots[k].gpus) == rr.n_gpus and '
       'slots[k].lfs == rr.lfs and slots[k].mem == rr.mem))'),
    ],
    loops = {'1':   ['nodes_ok(self.nodes)', 'len(self.nodes) == len(old(self.nodes))', 'len(slots) < n_slots',
                     'forall(lambda j: implies(0 <= j < len(self.nodes), self.nodes[j].index == old(self.nodes)[j].index))',
                     'forall(lambda k: implies(0 <= k < len(slots), has_node(self.nodes, slots[k].node_index)))',
                     'forall(lambda k: implies(0 <= k < len(slots), len(slots[k].cores) == rr.n_cores and len(slots[k].gpus) == rr.n_gpus and '
                     'slots[k].lfs == rr.lfs and slots[k].mem == rr.mem))'],
             '1.1': ['nodes_ok(self.nodes)', 'len(self.nodes) == len(old(self.nodes))', 'len(slots) < n_slots', '0 <= idx < len(self.nodes)',
                     'forall(lambda j: implies(0 <= j < len(self.nodes), self.nodes[j].index == old(self.nodes)[j].index))',
                     'forall(lambda k: implies(0 <= k < len(slots), has_node(self.nodes, slots[k].node_index)))',
                     'forall(lambda k: implies(0 <= k < len(slots), len(slots[k].cores) == rr.n_cores and len(slots[k].gpus) == rr.n_gpus and '
                     'slots[k].lfs == rr.lfs and slots[k].mem == rr.mem))']},
    serves = ['C01', 'C02'])

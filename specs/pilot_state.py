"""C14: pilot state progression (states.py, pilot.py, pilot_manager.py, agent_0.py)"""
from pyvc.spec import REG, T
from .types import OStr, OAny, PilotObj, PilotDict
from .effects import ignore_call, log_call

REG.spec('states.py:_pilot_state_value',
    params=dict(s=OStr), returns=T.Int,
    raises={'KeyError': 'not is_pstate(s)'},
    ensures=['result == pv(s)'], serves=['C14'])

REG.spec('states.py:_pilot_state_progress',
    params   = dict(pid=T.Str, current=OStr, target=OStr),
    returns  = T.Tuple(OStr, T.List(OStr)),
    requires = ['is_pstate(current)', 'is_pstate(target)'],
    # only a DONE pilot refuses another final state; FAILED and CANCELED yield
    raises   = {'ValueError': 'current == DONE and target in [FAILED, CANCELED]'},
    ensures  = [
      ('never-backward', 'pv(result[0]) >= pv(current)'),
      ('final-never-left-for-non-final', 'implies(current in FINAL, result[0] in FINAL)'),
      ('new-is-current-or-target', 'result[0] == current or result[0] == target'),
      ('advance-iff-later', 'implies(pv(target) > pv(current), result[0] == target)'),
      ('passed-length', 'implies(pv(target) > pv(current), len(result[1]) == pv(target) - pv(current))'),
      ('passed-empty-unless-advance', 'implies(pv(target) <= pv(current), len(result[1]) == 0)'),
      ('passed-fills-gap', 'forall(lambda j: implies(0 <= j < len(result[1]) - 1, result[1][j] == rps._pilot_state_inv[pv(current) + 1 + j]))'),
      ('passed-ends-in-target', 'implies(len(result[1]) > 0, result[1][len(result[1]) - 1] == target)'),
      ('passed-strictly-increasing', 'forall(lambda j: implies(0 <= j < len(result[1]), pv(result[1][j]) == pv(current) + 1 + j))'),
      ('passed-intermediates-not-final', 'forall(lambda j: implies(0 <= j < len(result[1]) - 1, result[1][j] not in FINAL and result[1][j] is not None))'),
      ('passed-known-states', 'forall(lambda j: implies(0 <= j < len(result[1]), is_pstate(result[1][j])))'),
    ],
    locals   = dict(passed=T.List(OStr)),
    loops    = {'1': ['len(passed) == i_i',
                      'forall(lambda j: implies(0 <= j < len(passed), passed[j] == rps._pilot_state_inv[cur + 1 + j]))']},
    serves   = ['C14'])

# the facade: Pilot._update sets the state it is told (forward single steps,
# FAILED / CANCELED from anywhere) and notifies the callbacks once
PCbEvt = T.Rec('PCbEvt', uid=T.Str, state=OStr)


def _pilot_callbacks(ex, node, st):
    from pyvc.core import PyDict, coerce, Val
    import z3
    log = ex.get_var(st, 'pcb_log')
    slf = ex.get_var(st, 'self')
    e = coerce(PyDict({'uid': Val(T.Str, slf.ty.get(slf.term, '_uid')),
                       'state': Val(OStr, slf.ty.get(slf.term, '_state'))}), PCbEvt)
    n = log.ty.len(log.term)
    st.env['pcb_log'] = Val(log.ty, log.ty.mk(z3.Store(log.ty.arr(log.term), n, e.term), n + 1))
_pilot_callbacks.mutates = ('pcb_log',)
_pilot_callbacks.__name__ = 'pcb_log.append((uid, state))'

REG.define('p_target(self, d)', 'ite(d.state is None, self._state, d.state)')

REG.spec('pilot.py:Pilot._update',
    self_type = PilotObj,
    params    = dict(pilot_dict=PilotDict),
    ghost     = dict(pcb_log=T.List(PCbEvt)),
    requires  = ['is_pstate(self._state)', 'is_pstate(pilot_dict.state)'],
    effects   = {'self._sub.stop': ignore_call, 'ru.dict_merge': ignore_call},
    with_effects = {'self._cb_lock': _pilot_callbacks},
    modifies  = ['self', 'pilot_dict', 'pcb_log'],
    raises    = {'AssertionError': 'pilot_dict.uid != self._uid',
                 'RuntimeError': 'pilot_dict.uid == self._uid and p_target(self, pilot_dict) not in [FAILED, CANCELED] '
                                 'and pv(p_target(self, pilot_dict)) - pv(self._state) > 1'},
    frame_on_raise = False,
    exc_ensures = {'RuntimeError': [('unchanged', 'self == old(self) and pcb_log == old(pcb_log)')],
                   'AssertionError': [('unchanged', 'self == old(self) and pcb_log == old(pcb_log)')]},
    ensures   = [
      ('state-is-requested', 'self._state == p_target(old(self), old(pilot_dict))'),
      ('uid-kept', 'self._uid == old(self._uid)'),
      ('one-callback-round-with-the-new-state',
       'len(pcb_log) == len(old(pcb_log)) + 1 and pcb_log[len(old(pcb_log))].uid == self._uid and '
       'pcb_log[len(old(pcb_log))].state == self._state'),
      ('history-kept', 'forall(lambda k: implies(0 <= k < len(old(pcb_log)), pcb_log[k] == old(pcb_log)[k]))'),
      ('dict-uid-state-kept', 'pilot_dict.uid == old(pilot_dict.uid) and pilot_dict.state == old(pilot_dict.state)'),
    ],
    serves    = ['C14'])


# ------------------------------------------------------------------------------
# PilotManager._update_pilot
#
PilotMap = T.Map(T.Str, PilotObj)
REG.define('pmgr_inv(pilots)',
    'forall(lambda u: implies(indom(pilots, u), at(pilots, u)._uid == u and is_pstate(at(pilots, u)._state)), Str)')

REG.spec('pilot_manager.py:PilotManager._update_pilot',
    params   = dict(pilot_dict=PilotDict, publish=T.Bool, advance=T.Bool),
    defaults = dict(publish=False, advance=True),
    self     = dict(_pilots=PilotMap),
    ghost    = dict(pcb_log=T.List(PCbEvt)),
    locals   = dict(passed=T.List(OStr)),
    effects  = {'self.advance': ignore_call},
    requires = ['pmgr_inv(self._pilots)', 'is_pstate(pilot_dict.state)', 'pilot_dict.state is not None'],
    modifies = ['self._pilots', 'pilot_dict', 'pcb_log'],
    raises   = {'ValueError': 'indom(self._pilots, pilot_dict.uid) and at(self._pilots, pilot_dict.uid)._state == DONE '
                              'and pilot_dict.state in [FAILED, CANCELED]'},
    frame_on_raise = False,
    exc_ensures = {'ValueError': [('nothing-applied', 'self._pilots == old(self._pilots) and pcb_log == old(pcb_log)')]},
    ensures  = [
      ('ds-invariant', 'pmgr_inv(self._pilots)'),
      ('same-pilots', 'forall(lambda u: indom(self._pilots, u) == indom(old(self._pilots), u), Str)'),
      ('unknown-pilot-ignored',
       'implies(not indom(old(self._pilots), old(pilot_dict.uid)), self._pilots == old(self._pilots) and pcb_log == old(pcb_log))'),
      ('other-pilots-untouched',
       'forall(lambda u: implies(indom(self._pilots, u) and u != old(pilot_dict.uid), at(self._pilots, u) == at(old(self._pilots), u)), Str)'),
      ('never-backward',
       'forall(lambda u: implies(indom(self._pilots, u), pv(at(self._pilots, u)._state) >= pv(at(old(self._pilots), u)._state)), Str)'),
      ('final-never-left-for-non-final',
       'forall(lambda u: implies(indom(self._pilots, u) and at(old(self._pilots), u)._state in FINAL, at(self._pilots, u)._state in FINAL), Str)'),
      ('callbacks-never-see-an-earlier-state',
       'forall(lambda k: implies(len(old(pcb_log)) <= k < len(pcb_log), pcb_log[k].uid == old(pilot_dict.uid) and '
       'pv(pcb_log[k].state) >= pv(at(old(self._pilots), old(pilot_dict.uid))._state) and '
       'pv(pcb_log[k].state) <= pv(at(self._pilots, old(pilot_dict.uid))._state)))'),
      ('callbacks-in-order',
       'forall(lambda k, l: implies(len(old(pcb_log)) <= k < l < len(pcb_log), pv(pcb_log[k].state) < pv(pcb_log[l].state)))'),
      ('old-callbacks-kept', 'forall(lambda k: implies(0 <= k < len(old(pcb_log)), pcb_log[k] == old(pcb_log)[k]))'),
    ],
    loops = {
      '1': ['indom(self._pilots, pid)', 'pid == old(pilot_dict.uid)', 'pilot_dict.uid == pid',
            'pmgr_inv(self._pilots)',
            'forall(lambda u: indom(self._pilots, u) == indom(old(self._pilots), u), Str)',
            'forall(lambda u: implies(u != pid, at(self._pilots, u) == at(old(self._pilots), u)), Str)',
            'current == at(old(self._pilots), pid)._state',
            'implies(len(passed) > 0, current not in FINAL)',
            'implies(i_s == 0, at(self._pilots, pid)._state == current)',
            'implies(i_s > 0, at(self._pilots, pid)._state == passed[i_s - 1])',
            'implies(target in [CANCELED, FAILED] and len(passed) > 0, len(passed) == 1 and passed[0] == target)',
            'implies(target not in [CANCELED, FAILED], forall(lambda j: implies(0 <= j < len(passed), '
            'pv(passed[j]) == pv(current) + 1 + j and passed[j] not in [CANCELED, FAILED])))',
            'forall(lambda j: implies(0 <= j < len(passed), is_pstate(passed[j]) and passed[j] is not None and pv(passed[j]) > pv(current)))',
            'forall(lambda j, j2: implies(0 <= j < j2 < len(passed), pv(passed[j]) < pv(passed[j2])))',
            'len(pcb_log) == len(old(pcb_log)) + i_s',
            'forall(lambda k: implies(0 <= k < len(old(pcb_log)), pcb_log[k] == old(pcb_log)[k]))',
            'forall(lambda k: implies(len(old(pcb_log)) <= k < len(pcb_log), pcb_log[k].uid == pid and '
            'pcb_log[k].state == passed[k - len(old(pcb_log))]))'],
    },
    serves = ['C14'])


# ------------------------------------------------------------------------------
# why the agent ended -> the pilot's final state (agent_0.py)
#
AgentCfg = T.Rec('AgentCfg', runtime=T.Opt(T.Int))
CancelArg = T.Rec('CancelArg', uids=T.List(T.Str))
CancelMsg = T.Rec('CancelMsg', arg=CancelArg, cmd=OStr)

REG.spec('agent/agent_0.py:Agent_0.stop',
    params   = dict(),
    self     = dict(_final_cause=OStr),
    effects  = {'super.stop': ignore_call, 'self._session.close': ignore_call},
    modifies = ['self._final_cause'],
    raises   = {},
    # a cause that is already known (e.g. 'timeout') survives the stop
    ensures  = [('known-cause-kept', 'implies(bool(old(self._final_cause)), self._final_cause == old(self._final_cause))'),
                ('stop-without-cause-is-a-cancel', 'implies(not old(self._final_cause), self._final_cause == "cancel")')],
    serves   = ['C14'])

REG.spec('agent/agent_0.py:Agent_0._check_lifetime',
    params   = dict(),
    self     = dict(_final_cause=OStr, _cfg=AgentCfg, _starttime=T.Real),
    returns  = T.Bool,
    calls    = {'self.stop': 'agent/agent_0.py:Agent_0.stop'},
    requires = ['self._final_cause is None or self._final_cause == "timeout"'],
    modifies = ['self._final_cause'],
    raises   = {},
    ensures  = [('run-time-exceeded-means-timeout', 'implies(not result, self._final_cause == "timeout")'),
                ('still-running-keeps-cause', 'implies(result, self._final_cause == old(self._final_cause))')],
    serves   = ['C14'])

REG.spec('agent/agent_0.py:Agent_0._ctrl_cancel_pilots',
    params   = dict(msg=CancelMsg),
    self     = dict(_final_cause=OStr, _pid=T.Str),
    returns  = T.Bool,
    calls    = {'self.stop': 'agent/agent_0.py:Agent_0.stop'},
    effects  = {'self.publish': ignore_call},
    requires = ['self._final_cause is None or self._final_cause == "cancel"'],
    modifies = ['self._final_cause'],
    raises   = {},
    ensures  = [('named-pilot-is-canceled', 'implies(self._pid in msg.arg.uids, self._final_cause == "cancel" and not result)'),
                ('other-pilots-ignore-it', 'implies(self._pid not in msg.arg.uids, self._final_cause == old(self._final_cause) and result)')],
    serves   = ['C14'])


# Agent_0.finalize maps the cause to the final state through a literal
# if / elif chain and writes that state to killme.signal and into the final
# pilot update: read from the AST and checked exhaustively
import ast as _ast
from pyvc.frontend import FunctionSource as _FS, ModuleEnv as _ME
from pyvc.core import SpecError as _SE


def _finalize_mapping():
    f = _FS('agent/agent_0.py', 'Agent_0.finalize')
    rps = _ME.get('states.py')
    chain = None
    for n in _ast.walk(f.node):
        if isinstance(n, _ast.If) and isinstance(n.test, _ast.Compare) and \
           isinstance(n.test.left, _ast.Attribute) and n.test.left.attr == '_final_cause':
            chain = n; break
    if chain is None:
        raise _SE('finalize: cause -> state chain not found')
    mapping, default = dict(), None
    n = chain
    while True:
        cause = n.test.comparators[0].value
        st = n.body[0]
        if not (isinstance(st, _ast.Assign) and st.targets[0].id == 'state'):
            raise _SE('finalize: unexpected branch body')
        mapping[cause] = rps.lookup(st.value.attr)
        if len(n.orelse) == 1 and isinstance(n.orelse[0], _ast.If):
            n = n.orelse[0]; continue
        if len(n.orelse) == 1 and isinstance(n.orelse[0], _ast.Assign):
            default = rps.lookup(n.orelse[0].value.attr)
        break
    want = {'timeout': 'DONE', 'cancel': 'CANCELED', 'sys.exit': 'CANCELED'}
    out = []
    for cause, state in want.items():
        out.append(dict(name='cause-%s-gives-%s' % (cause, state), ok=(mapping.get(cause) == state),
                        note='finalize maps %r to %r' % (cause, mapping.get(cause)),
                        witness=dict(cause=cause, state=mapping.get(cause))))
    out.append(dict(name='any-other-cause-gives-FAILED', ok=(default == 'FAILED' and set(mapping) == set(want)),
                    note='else branch gives %r; explicit causes %s' % (default, sorted(mapping)),
                    witness=dict(default=default, causes=sorted(mapping))))
    # the computed state is what is written to killme.signal and published
    src = _ast.get_source_segment(f.src, f.node)
    written = "fout.write('%s\\n' % state)" in src
    published = any(isinstance(n, _ast.Dict) and any(isinstance(k, _ast.Constant) and k.value == 'state'
                    and isinstance(v, _ast.Name) and v.id == 'state' for k, v in zip(n.keys, n.values))
                    for n in _ast.walk(f.node))
    out.append(dict(name='state-written-to-killme-signal', ok=written, note='killme.signal gets `state`'))
    out.append(dict(name='state-published-in-final-update', ok=published, note="pilot dict carries 'state': state"))
    return out


REG.finite_check('C14.finalize-cause-to-state', _finalize_mapping, ['C14'], 'agent/agent_0.py:Agent_0.finalize')


# ------------------------------------------------------------------------------
# PMGRLaunchingComponent.work, the launch of one (resource, schema) bucket: every pilot
# of the bucket - and no other - is reported once, PMGR_ACTIVE_PENDING if the bulk
# launch went through and FAILED if it raised (C14: a pilot ends FAILED only for its
# own reason)
import z3 as _z3
from pyvc import core as _C
from pyvc.core import Val as _Val, coerce as _coerce

LPDescr = T.Rec('LPDescr', resource=T.Str, access_schema=T.Str)
LPilot  = T.Rec('LPilot', uid=T.Str, state=OStr, description=LPDescr)
LPilotL = T.List(LPilot)
LPAdv   = T.Rec('LPAdv', uid=T.Str, state=OStr)

def _lp_advance(ex, node, st):
    things = _coerce(ex.ev(node.args[0], st), LPilotL)
    state  = _coerce(ex.ev(node.args[1], st), OStr)
    log = ex.get_var(st, 'ladv')
    lty = log.ty
    l0, n = lty.len(log.term), LPilotL.len(things.term)
    i = _z3.Int(_C.fresh_name('i'))
    out = ex.fresh_wf(st, lty, 'ladv')
    st.assume(lty.len(out.term) == l0 + n)
    st.assume(_z3.ForAll([i], _z3.Implies(_z3.And(0 <= i, i < l0), _z3.Select(lty.arr(out.term), i) == _z3.Select(lty.arr(log.term), i))))
    st.assume(_z3.ForAll([i], _z3.Implies(_z3.And(l0 <= i, i < l0 + n),
              _z3.Select(lty.arr(out.term), i) == LPAdv.mk(LPilot.get(_z3.Select(LPilotL.arr(things.term), i - l0), 'uid'), state.term)),
              patterns=[_z3.Select(lty.arr(out.term), i)]))
    st.env['ladv'] = out
    return _C.NONE
_lp_advance.mutates = ('ladv',)

def _lp_launch(ex, node, st):
    """self._start_pilot_bulk(resource, schema, pilots): stages and submits, or raises"""
    e = st.fork(); e.guards = []
    e.env = dict(e.env)
    e.env['launch_failed'] = _Val(T.Bool, _z3.BoolVal(True))
    ex.exits.append(('Exception', e, ex.cur_line))
    return _C.NONE
_lp_launch.mutates = ('launch_failed',)

REG.define('lp_bucket(b, r, s)', 'at(at(b, r), s)')

REG.spec('pmgr/launching/base.py:PMGRLaunchingComponent.work#bucket',
    fragment = 'try:',
    # `pilots` is live here (the whole input bulk): a free variable of the statement
    params   = dict(buckets=T.Map(T.Str, T.Map(T.Str, LPilotL)), resource=T.Str, schema=T.Str, pilots=LPilotL),
    ghost    = dict(ladv=T.List(LPAdv), launch_failed=T.Bool),
    locals   = dict(pids=T.List(T.Str)),
    calls    = {'self._start_pilot_bulk': _lp_launch},
    effects  = {'self.advance': _lp_advance},
    requires = ['indom(buckets, resource)', 'indom(at(buckets, resource), schema)', 'not launch_failed'],
    modifies = ['ladv', 'launch_failed', 'pilots'],
    raises   = {},
    no_raise_is_property = True,
    ensures  = [
      ('every-pilot-of-this-bucket-and-no-other-is-reported-once',
       'len(ladv) == len(old(ladv)) + len(lp_bucket(buckets, resource, schema)) and '
       'forall(lambda i: implies(0 <= i < len(lp_bucket(buckets, resource, schema)), '
       'ladv[len(old(ladv)) + i].uid == lp_bucket(buckets, resource, schema)[i].uid))'),
      ('failed-only-if-the-launch-of-its-own-bucket-raised',
       'forall(lambda k: implies(len(old(ladv)) <= k < len(ladv), ladv[k].state == ite(launch_failed, FAILED, rps.PMGR_ACTIVE_PENDING)))'),
      ('earlier-reports-kept', 'forall(lambda k: implies(0 <= k < len(old(ladv)), ladv[k] == old(ladv)[k]))'),
    ],
    serves   = ['C14'])

"""C14: pilot state progression (states.py, pilot.py, pilot_manager.py, agent_0.py)"""
from pyvc.spec import REG, T
from .types import OStr, OAny, PilotObj, PilotDict
from .effects import ignore_call, log_call

REG.spec('states.py:_pilot_state_value',
    params=dict(s=OStr), returns=T.Int,
    raises={'KeyError': 'not is_pstate(s)'},
    ensures=['result == pv(s)'], serves=['C14'])

REG.spec('states.py:_pilot_state_progress',
    params   = dict(pid=T.Str, current=OStr, target=OStr),
    returns  = T.Tuple(OStr, T.List(OStr)),
    requires = ['is_pstate(current)', 'is_pstate(target)'],
    # only a DONE pilot refuses another final state; FAILED and CANCELED yield
    raises   = {'ValueError': 'current == DONE and target in [FAILED, CANCELED]'},
    ensures  = [
      ('never-backward', 'pv(result[0]) >= pv(current)'),
      ('final-never-left-for-non-final', 'implies(current in FINAL, result[0] in FINAL)'),
      ('new-is-current-or-target', 'result[0] == current or result[0] == target'),
      ('advance-iff-later', 'implies(pv(target) > pv(current), result[0] == target)'),
      ('passed-length', 'implies(pv(target) > pv(current), len(result[1]) == pv(target) - pv(current))'),
      ('passed-empty-unless-advance', 'implies(pv(target) <= pv(current), len(result[1]) == 0)'),
      ('passed-fills-gap', 'forall(lambda j: implies(0 <= j < len(result[1]) - 1, result[1][j] == rps._pilot_state_inv[pv(current) + 1 + j]))'),
      ('passed-ends-in-target', 'implies(len(result[1]) > 0, result[1][len(result[1]) - 1] == target)'),
      ('passed-strictly-increasing', 'forall(lambda j: implies(0 <= j < len(result[1]), pv(result[1][j]) == pv(current) + 1 + j))'),
      ('passed-intermediates-not-final', 'forall(lambda j: implies(0 <= j < len(result[1]) - 1, result[1][j] not in FINAL and result[1][j] is not None))'),
      ('passed-known-states', 'forall(lambda j: implies(0 <= j < len(result[1]), is_pstate(result[1][j])))'),
    ],
    locals   = dict(passed=T.List(OStr)),
    loops    = {'1': ['len(passed) == i_i',
                      'forall(lambda j: implies(0 <= j < len(passed), passed[j] == rps._pilot_state_inv[cur + 1 + j]))']},
    serves   = ['C14'])

# the facade: Pilot._update sets the state it is told (forward single steps,
# FAILED / CANCELED from anywhere) and notifies the callbacks once
PCbEvt = T.Rec('PCbEvt', uid=T.Str, state=OStr)


def _pilot_callbacks(ex, node, st):
    from pyvc.core import PyDict, coerce, Val
    import z3
    log = ex.get_var(st, 'pcb_log')
    slf = ex.get_var(st, 'self')
    e = coerce(PyDict({'uid': Val(T.Str, slf.ty.get(slf.term, '_uid')),
                       'state': Val(OStr, slf.ty.get(slf.term, '_state'))}), PCbEvt)
    n = log.ty.len(log.term)
    st.env['pcb_log'] = Val(log.ty, log.ty.mk(z3.Store(log.ty.arr(log.term), n, e.term), n + 1))
_pilot_callbacks.mutates = ('pcb_log',)
_pilot_callbacks.__name__ = 'pcb_log.append((uid, state))'

REG.define('p_target(self, d)', 'ite(d.state is None, self._state, d.state)')

REG.spec('pilot.py:Pilot._update',
    self_type = PilotObj,
    params    = dict(pilot_dict=PilotDict),
    ghost     = dict(pcb_log=T.List(PCbEvt)),
    requires  = ['is_pstate(self._state)', 'is_pstate(pilot_dict.state)'],
    effects   = {'self._sub.stop': ignore_call, 'ru.dict_merge': ignore_call},
    with_effects = {'self._cb_lock': _pilot_callbacks},
    modifies  = ['self', 'pilot_dict', 'pcb_log'],
    raises    = {'AssertionError': 'pilot_dict.uid != self._uid',
                 'RuntimeError': 'pilot_dict.uid == self._uid and p_target(self, pilot_dict) not in [FAILED, CANCELED] '
                                 'and pv(p_target(self, pilot_dict)) - pv(self._state) > 1'},
    frame_on_raise = False,
    exc_ensures = {'RuntimeError': [('unchanged', 'self == old(self) and pcb_log == old(pcb_log)')],
                   'AssertionError': [('unchanged', 'self == old(self) and pcb_log == old(pcb_log)')]},
    ensures   = [
      ('state-is-requested', 'self._state == p_target(old(self), old(pilot_dict))'),
      ('uid-kept', 'self._uid == old(self._uid)'),
      ('one-callback-round-with-the-new-state',
       'len(pcb_log) == len(old(pcb_log)) + 1 and pcb_log[len(old(pcb_log))].uid == self._uid and '
       'pcb_log[len(old(pcb_log))].state == self._state'),
      ('history-kept', 'forall(lambda k: implies(0 <= k < len(old(pcb_log)), pcb_log[k] == old(pcb_log)[k]))'),
      ('dict-uid-state-kept', 'pilot_dict.uid == old(pilot_dict.uid) and pilot_dict.state == old(pilot_dict.state)'),
    ],
    serves    = ['C14'])

"""C19: TaskDescription._verify (alias mapping, mode requirements, idempotence)"""
from pyvc.spec import REG, T
from pyvc.frontend import ModuleEnv
from .types import OStr, OAny

_td = ModuleEnv.get('task_description.py')
for _n in ('TASK_EXECUTABLE', 'TASK_SERVICE', 'AGENT_SERVICE', 'TASK_FUNC',
           'TASK_METH', 'TASK_PROC', 'TASK_EVAL', 'TASK_EXEC', 'TASK_SHELL',
           'RAPTOR_MASTER', 'RAPTOR_WORKER'):
    REG.consts[_n] = _td.lookup(_n)

# (deprecated attribute, replacement, value it is cleared to)
ALIASES = [('cpu_processes', 'ranks'), ('cpu_threads', 'cores_per_rank'),
           ('cpu_thread_type', 'threading_type'), ('gpu_processes', 'gpus_per_rank'),
           ('gpu_process_type', 'gpu_type'), ('lfs_per_process', 'lfs_per_rank'),
           ('mem_per_process', 'mem_per_rank'), ('scheduler', 'raptor_id'),
           ('worker_file', 'raptor_file'), ('worker_class', 'raptor_class')]

OInt = T.Opt(T.Int)
TD = T.Rec('TaskDescription',
    mode=OStr, executable=OStr, function=OStr, named_env=OStr, code=OStr,
    command=OStr,
    cpu_processes=OInt, ranks=OInt, cpu_threads=OInt, cores_per_rank=OInt,
    cpu_thread_type=OStr, threading_type=OStr,
    gpu_processes=OInt, gpus_per_rank=T.Opt(T.Real),
    gpu_process_type=OStr, gpu_type=OStr,
    lfs_per_process=OInt, lfs_per_rank=OInt, mem_per_process=OInt, mem_per_rank=OInt,
    scheduler=OStr, raptor_id=OStr, worker_file=OStr, raptor_file=OStr,
    worker_class=OStr, raptor_class=OStr, use_mpi=T.Opt(T.Bool),
    cpu_process_type=OStr, gpu_threads=OInt, gpu_thread_type=OStr)
REG.types['TaskDescription'] = TD
REG.optional_keys['TaskDescription'] = set(TD.fields)

_missing = (
  '((not self.mode or self.mode in [TASK_EXECUTABLE, TASK_SERVICE, AGENT_SERVICE]) and not self.executable) or '
  '(self.mode in [TASK_FUNC, TASK_METH] and (not self.function or self.named_env)) or '
  '(self.mode == TASK_PROC and not self.executable) or '
  '(self.mode in [TASK_EVAL, TASK_EXEC] and not self.code) or '
  '(self.mode == TASK_SHELL and not self.command)')

_alias_post = []
for dep, new in ALIASES:
    if dep == 'gpu_processes':
        same = 'self.%s == float(val(old(self.%s)))' % (new, dep)
    else:
        same = 'self.%s == old(self.%s)' % (new, dep)
    _alias_post.append(('alias:%s->%s' % (dep, new),
        'ite(bool(old(self.%s)), %s and not self.%s, '
        'self.%s == old(self.%s) and self.%s == old(self.%s))'
        % (dep, same, dep, new, new, dep, dep)))

_no_deprecated = ' and '.join('not self.%s' % d for d, _ in ALIASES)

REG.define('td_normal(d)',
    'bool(d.mode) and d.use_mpi is not None and ' +
    ' and '.join('not d.%s' % d for d, _ in ALIASES))

REG.spec('task_description.py:TaskDescription._verify',
    self_type = TD,
    params    = dict(),
    requires  = ['implies(self.use_mpi is None and not self.cpu_processes, self.ranks is not None)',
                 'implies(self.use_mpi is None and bool(self.cpu_processes), True)'],
    modifies  = ['self'],
    raises    = {'ValueError': _missing},
    exc_ensures = {'ValueError': []},
    frame_on_raise = False,
    ensures   = _alias_post + [
      ('mode-defaults-to-executable', 'self.mode == ite(bool(old(self.mode)), val(old(self.mode)), TASK_EXECUTABLE)'),
      ('use-mpi-derived', 'ite(old(self.use_mpi) is None, self.use_mpi == (val(self.ranks) != 1), self.use_mpi == old(self.use_mpi))'),
      ('payload-kept', 'self.executable == old(self.executable) and self.function == old(self.function) and '
                       'self.code == old(self.code) and self.command == old(self.command) and self.named_env == old(self.named_env)'),
      # normal form: nothing deprecated is left, so verifying again changes nothing
      ('normal-form', 'td_normal(self)'),
      ('fixpoint', 'implies(td_normal(old(self)), self == old(self))'),
    ],
    serves    = ['C19'])

# idempotence from the two contract clauses above
REG.lemma('C19.idempotent',
    vars  = dict(d0=TD, d1=TD, d2=TD),
    hyps  = ['td_normal(d1)',                           # normal-form of the first call
             'implies(td_normal(d1), d2 == d1)'],       # fixpoint clause of the second call
    goals = [('verify-twice-equals-verify-once', 'd2 == d1')],
    serves = ['C19'])

"""C06 / C14: state progression functions (states.py)"""
from pyvc.spec import REG, T

OStr = T.Opt(T.Str)

REG.define('tv(s)', 'rps._task_state_values[s]')
REG.define('pv(s)', 'rps._pilot_state_values[s]')
REG.define('is_tstate(s)', 's in rps._task_state_values')
REG.define('is_pstate(s)', 's in rps._pilot_state_values')

REG.spec('states.py:_task_state_progress',
    params   = dict(uid=T.Str, current=OStr, target=OStr),
    returns  = T.Tuple(OStr, T.List(OStr)),
    requires = ['is_tstate(current)', 'is_tstate(target)'],
    # C06: no (current, target) pair raises; contradictory final states are
    # discarded (docstring: task_state_progress(DONE, FAILED) --> [DONE, []])
    raises   = {},
    no_raise_is_property = True,
    ensures  = [
      ('never-backward', 'tv(result[0]) >= tv(current)'),
      ('new-is-current-or-target', 'result[0] == current or result[0] == target'),
      ('advance-iff-later', 'implies(tv(target) > tv(current), result[0] == target)'),
      ('no-advance-keeps',  'implies(tv(target) <= tv(current) and current != CANCELED, result[0] == current and len(result[1]) == 0)'),
      ('canceled-yields-to-final', 'implies(current == CANCELED and target in FINAL, result[0] == target and len(result[1]) == 0)'),
      ('passed-length', 'implies(tv(target) > tv(current), len(result[1]) == tv(target) - tv(current))'),
      ('passed-fills-gap', 'forall(lambda j: implies(0 <= j < len(result[1]) - 1, result[1][j] == rps._task_state_inv[tv(current) + 1 + j]))'),
      ('passed-ends-in-target', 'implies(len(result[1]) > 0, result[1][len(result[1]) - 1] == target)'),
      ('passed-intermediates-not-final', 'forall(lambda j: implies(0 <= j < len(result[1]) - 1, result[1][j] not in FINAL and result[1][j] is not None))'),
      ('passed-empty-unless-advance', 'implies(tv(target) <= tv(current), len(result[1]) == 0)'),
      ('passed-known-states', 'forall(lambda j: implies(0 <= j < len(result[1]), is_tstate(result[1][j])))'),
      ('passed-strictly-increasing', 'forall(lambda j: implies(0 <= j < len(result[1]), tv(result[1][j]) == tv(current) + 1 + j))'),
    ],
    locals   = dict(passed=T.List(OStr)),
    loops    = {'1': ['len(passed) == i_i',
                      'forall(lambda j: implies(0 <= j < len(passed), passed[j] == rps._task_state_inv[cur + 1 + j]))']},
    serves   = ['C06'])

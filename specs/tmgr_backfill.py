"""C12: the Backfilling client scheduler (tmgr/scheduler/backfilling.py)"""
import z3
from pyvc import core as C
from pyvc.spec import REG, T
from pyvc.core import Val, fresh
from .types import OStr, OAny
from .effects import ignore_call
from .tmgr_sched import TaskC, TaskCL, PilotC, TasksM, FwdEvt, _advance, FWD

BInfo  = T.Rec('BInfo', cores=T.Int, hwm=T.Int, used=T.Int, tasks=T.List(T.Str), done=T.List(T.Str))
BEntry = T.Rec('BPilotEntry', role=OStr, state=OStr, pilot=T.Opt(PilotC), info=T.Opt(BInfo))
BPilots = T.Map(T.Str, BEntry)
Pool   = T.Map(T.Str, TaskC)
StrL   = T.List(T.Str)

# a pilot the scheduler may assign to right now
REG.define('bf_eligible(e, lo, hi)',
    'e.role == ADDED and e.state is not None and is_pstate(e.state) and lo <= pv(e.state) <= hi and '
    'e.info is not None and val(e.info).used < val(e.info).hwm')
# ghost index maps are total (their domain component is not used)
REG.define('same_idx(a, b)', 'forall(lambda u: at(a, u) == at(b, u), Str)')
REG.define('grown_s(new, old)', 'len(new) >= len(old) and forall(lambda k: implies(0 <= k < len(old), new[k] == old[k]))')
REG.define('bf_inv(pilots, pids)',
    'no_dups(pids) and forall(lambda i: implies(0 <= i < len(pids), indom(pilots, pids[i]) and at(pilots, pids[i]).info is not None and '
    'at(pilots, pids[i]).role == ADDED and '
    'at(pilots, pids[i]).state is not None and is_pstate(at(pilots, pids[i]).state) and '
    'at(pilots, pids[i]).pilot is not None and val(at(pilots, pids[i]).pilot).uid == pids[i]))')
REG.define('bf_pool_ok(pool)',
    'forall(lambda u: implies(indom(pool, u), at(pool, u).uid == u and not at(pool, u).pilot and at(pool, u).description is not None and '
    'val(at(pool, u).description).ranks >= 0 and val(at(pool, u).description).cores_per_rank >= 0), Str)')


def _assign_site(ex, node, st):
    """ghost code at the assignment site (`info['tasks'].append(task['uid'])`, the
    first statement of the branch that binds the task): the property itself -
    the pilot is added, in an eligible state, listed, and below its high-water
    mark at this moment"""
    sub = st.fork(); sub.env = dict(st.env)
    goal = ex.spec_bool('in_list(self._pids, pid) and indom(self._pilots, pid) and '
                        'bf_eligible_pre(at(self._pilots, pid), _BF_START_VAL, _BF_STOP_VAL, task.uid)', sub)
    ex.oblige(st, 'assigned-only-to-an-eligible-pilot-below-its-high-water-mark@L%s' % ex.cur_line, goal, 'post',
              note='backfilling never assigns to a pilot outside its eligible states, not added, or already at its high-water mark')
    n = ex.get_var(st, 'n_assigned')
    st.env['n_assigned'] = Val(T.Int, n.term + 1)
_assign_site.mutates = ('n_assigned',)

# at the site the uid has just been appended to info.tasks, `used` not yet raised
REG.define('bf_eligible_pre(e, lo, hi, uid)',
    'e.role == ADDED and e.state is not None and is_pstate(e.state) and lo <= pv(e.state) <= hi and '
    'e.info is not None and val(e.info).used < val(e.info).hwm')

def _note_sched(ex, node, st):
    """ghost code after `scheduled.append(task)`: where the task sits in scheduled"""
    lst  = ex.get_var(st, 'scheduled')
    task = ex.ev(node.value.args[0], st)
    m    = ex.get_var(st, 'spos')
    uid  = task.ty.get(task.term, 'uid')
    st.env['spos'] = Val(m.ty, m.ty.mk(z3.Store(m.ty.val(m.term), uid, lst.ty.len(lst.term) - 1), m.ty.dom(m.term)))
_note_sched.mutates = ('spos',)

def _note_uns(ex, node, st):
    n = ex.get_var(st, 'n_kept')
    st.env['n_kept'] = Val(T.Int, n.term + 1)
_note_uns.mutates = ('n_kept',)

_bf_self = dict(_pids=StrL, _pilots=BPilots, _wait_pool=Pool, _tasks=TasksM)

REG.spec('tmgr/scheduler/backfilling.py:Backfilling._schedule_tasks',
    params   = dict(),
    self     = _bf_self,
    ghost    = dict(fwd_log=T.List(FwdEvt), n_assigned=T.Int, n_kept=T.Int, spos=T.Map(T.Str, T.Int)),
    globals  = dict(_BF_START_VAL=T.Int, _BF_STOP_VAL=T.Int),
    locals   = dict(pids=StrL, scheduled=TaskCL, unscheduled=Pool, cores=T.Int, success=T.Bool),
    calls    = {'self._assign_pilot': 'tmgr/scheduler/base.py:TMGRSchedulingComponent._assign_pilot',
                'rps._pilot_state_value': 'states.py:_pilot_state_value'},
    effects  = {'self.advance': _advance},
    stmt_ghost = {"info['tasks'].append(task['uid'])": _assign_site,
                  'unscheduled[uid] = task': _note_uns, 'scheduled.append(task)': _note_sched},
    requires = ['bf_inv(self._pilots, self._pids)', 'bf_pool_ok(self._wait_pool)'],
    modifies = ['self._pilots', 'self._wait_pool', 'self._tasks', 'fwd_log', 'n_assigned', 'n_kept', 'spos'],
    raises   = {},
    no_raise_is_property = True,
    ensures  = [
      ('bookkeeping-invariant-kept', 'bf_inv(self._pilots, self._pids) and bf_pool_ok(self._wait_pool)'),
      ('every-assigned-task-is-forwarded-exactly-once',
       'len(fwd_log) - len(old(fwd_log)) == n_assigned - old(n_assigned) and n_assigned >= old(n_assigned) and '
       'forall(lambda k: implies(len(old(fwd_log)) <= k < len(fwd_log), fwd_log[k].state == %s and fwd_log[k].pilot is not None and '
       'in_list(self._pids, val(fwd_log[k].pilot)) and indom(old(self._wait_pool), fwd_log[k].uid) and '
       'not indom(self._wait_pool, fwd_log[k].uid)))' % FWD),
      ('history-kept', 'forall(lambda k: implies(0 <= k < len(old(fwd_log)), fwd_log[k] == old(fwd_log)[k]))'),
      ('no-waiting-task-is-lost',
       'forall(lambda u: implies(indom(old(self._wait_pool), u), indom(self._wait_pool, u) or '
       '(len(old(fwd_log)) <= len(old(fwd_log)) + at(spos, u) < len(fwd_log) and fwd_log[len(old(fwd_log)) + at(spos, u)].uid == u)), Str)'),
      ('tasks-that-stay-wait-unchanged',
       'forall(lambda u: implies(indom(self._wait_pool, u), indom(old(self._wait_pool), u) and at(self._wait_pool, u) == at(old(self._wait_pool), u)), Str)'),
      ('roles-states-and-pilots-untouched',
       'forall(lambda p: indom(self._pilots, p) == indom(old(self._pilots), p) and implies(indom(self._pilots, p), '
       'at(self._pilots, p).role == at(old(self._pilots), p).role and at(self._pilots, p).state == at(old(self._pilots), p).state and '
       'at(self._pilots, p).pilot == at(old(self._pilots), p).pilot), Str)'),
      ('usage-only-grows-here',
       'forall(lambda p: implies(indom(self._pilots, p) and at(old(self._pilots), p).info is not None, at(self._pilots, p).info is not None and '
       'val(at(self._pilots, p).info).used >= val(at(old(self._pilots), p).info).used and '
       'val(at(self._pilots, p).info).hwm == val(at(old(self._pilots), p).info).hwm and '
       'val(at(self._pilots, p).info).done == val(at(old(self._pilots), p).info).done and '
       'grown_s(val(at(self._pilots, p).info).tasks, val(at(old(self._pilots), p).info).tasks)), Str)'),
    ],
    loops = {
      '1': ['forall(lambda m: implies(0 <= m < len(pids), in_list(self._pids, pids[m]) and '
            'bf_eligible(at(self._pilots, pids[m]), _BF_START_VAL, _BF_STOP_VAL)))',
            'no_dups(pids)',
            'forall(lambda m: implies(0 <= m < len(pids), exists(lambda j: 0 <= j < i_pid and self._pids[j] == pids[m])))'],
      '2': ['bf_inv(self._pilots, self._pids)',
            'forall(lambda j: implies(i_task <= j < len(keys_task), at(self._wait_pool, keys_task[j]).uid == keys_task[j] and '
            'not at(self._wait_pool, keys_task[j]).pilot and at(self._wait_pool, keys_task[j]).description is not None and '
            'val(at(self._wait_pool, keys_task[j]).description).ranks >= 0 and val(at(self._wait_pool, keys_task[j]).description).cores_per_rank >= 0))', 'no_dups(pids)',
            'fwd_log == old(fwd_log)', 'n_assigned - old(n_assigned) == len(scheduled)',
            'forall(lambda u: indom(self._wait_pool, u) == indom(old(self._wait_pool), u), Str)',
            'forall(lambda m: implies(0 <= m < len(pids), in_list(self._pids, pids[m]) and '
            'bf_eligible(at(self._pilots, pids[m]), _BF_START_VAL, _BF_STOP_VAL)))',
            'forall(lambda k: implies(0 <= k < len(scheduled), scheduled[k].pilot is not None and in_list(self._pids, val(scheduled[k].pilot)) and '
            'indom(old(self._wait_pool), scheduled[k].uid) and not indom(unscheduled, scheduled[k].uid) and '
            'exists(lambda j: 0 <= j < i_task and keys_task[j] == scheduled[k].uid)))',
            'forall(lambda u: implies(indom(unscheduled, u), indom(old(self._wait_pool), u) and at(unscheduled, u) == at(old(self._wait_pool), u) and '
            'exists(lambda j: 0 <= j < i_task and keys_task[j] == u)), Str)',
            'forall(lambda j: implies(i_task <= j < len(keys_task), at(self._wait_pool, keys_task[j]) == at(old(self._wait_pool), keys_task[j])))',
            'forall(lambda j: implies(0 <= j < i_task, indom(unscheduled, keys_task[j]) or is_at(scheduled, at(spos, keys_task[j]), keys_task[j])))',
            'forall(lambda p: indom(self._pilots, p) == indom(old(self._pilots), p) and implies(indom(self._pilots, p), '
            'at(self._pilots, p).role == at(old(self._pilots), p).role and at(self._pilots, p).state == at(old(self._pilots), p).state and '
            'at(self._pilots, p).pilot == at(old(self._pilots), p).pilot), Str)',
            'forall(lambda p: implies(indom(self._pilots, p) and at(old(self._pilots), p).info is not None, at(self._pilots, p).info is not None and '
            'val(at(self._pilots, p).info).used >= val(at(old(self._pilots), p).info).used and '
            'val(at(self._pilots, p).info).hwm == val(at(old(self._pilots), p).info).hwm and '
            'val(at(self._pilots, p).info).done == val(at(old(self._pilots), p).info).done and '
            'grown_s(val(at(self._pilots, p).info).tasks, val(at(old(self._pilots), p).info).tasks)), Str)'],
      '2.1': ['not success', 'task.uid == uid and not task.pilot and task.description is not None', 'cores >= 0', 'self._pilots == at_head("2", self._pilots)', 'self._tasks == at_head("2", self._tasks)',
              'self._wait_pool == at_head("2", self._wait_pool)', 'scheduled == at_head("2", scheduled)', 'pids == at_head("2", pids)',
              'n_assigned == at_head("2", n_assigned)', 'n_kept == at_head("2", n_kept)', 'unscheduled == at_head("2", unscheduled)',
              'same_idx(spos, at_head("2", spos))'],
    },
    opts   = dict(merge='scalars', parallel=6),
    serves = ['C12'])


# ------------------------------------------------------------------------------
# Backfilling.update_tasks: a task that left execution gives its cores back, once
def _done_site(ex, node, st):
    """ghost code at `info['done'].append(uid)`: the task is one the pilot was
    given and it has not been counted as finished before"""
    sub = st.fork(); sub.env = dict(st.env)
    # (the append has happened: the last element of done is uid)
    goal = ex.spec_bool('in_list(info.tasks, uid) and '
                        'forall(lambda k: implies(0 <= k < len(info.done) - 1, info.done[k] != uid))', sub)
    ex.oblige(st, 'usage-is-given-back-once-and-only-for-a-task-of-this-pilot@L%s' % ex.cur_line, goal, 'post',
              note='a finished task is counted once, and only against the pilot it was assigned to')
_done_site.mutates = ()

def _bf_sched(ex, node, st):
    """self._schedule_tasks() inside update_tasks / add_pilots / _work: by its own
    contract (Backfilling._schedule_tasks), applied through call_contract"""
    from pyvc.calls import call_contract
    return call_contract(ex, st, ex.reg.get('tmgr/scheduler/backfilling.py:Backfilling._schedule_tasks'), node)
_bf_sched.mutates = ('self._pilots', 'self._wait_pool', 'self._tasks', 'fwd_log', 'n_assigned', 'n_kept', 'spos')

REG.define('bf_done_ok(pilots)',
    'forall(lambda p: implies(indom(pilots, p) and at(pilots, p).info is not None, no_dups(val(at(pilots, p).info).done)), Str)')

REG.spec('tmgr/scheduler/backfilling.py:Backfilling.update_tasks',
    params   = dict(tasks=TaskCL),
    self     = _bf_self,
    ghost    = dict(fwd_log=T.List(FwdEvt), n_assigned=T.Int, n_kept=T.Int, spos=T.Map(T.Str, T.Int)),
    globals  = dict(_BF_START_VAL=T.Int, _BF_STOP_VAL=T.Int),
    locals   = dict(reschedule=T.Bool, uid=T.Str, state=OStr, pid=T.Str),
    calls    = {'self._schedule_tasks': 'tmgr/scheduler/backfilling.py:Backfilling._schedule_tasks',
                'rps._task_state_value': 'states.py:_task_state_value'},
    stmt_ghost = {"info['done'].append(uid)": _done_site},
    requires = ['bf_inv(self._pilots, self._pids)', 'bf_pool_ok(self._wait_pool)', 'bf_done_ok(self._pilots)',
                'forall(lambda p: implies(indom(self._pilots, p), at(self._pilots, p).info is not None), Str)',
                'forall(lambda t: implies(0 <= t < len(tasks), tasks[t].state is not None and is_tstate(val(tasks[t].state)) and tasks[t].description is not None))'],
    modifies = ['self._pilots', 'self._wait_pool', 'self._tasks', 'fwd_log', 'n_assigned', 'n_kept', 'spos'],
    raises   = {'RuntimeError': 'True'},
    raises_weak = ['RuntimeError'],
    frame_on_raise = False,
    ensures  = [
      ('bookkeeping-invariant-kept', 'bf_inv(self._pilots, self._pids) and bf_pool_ok(self._wait_pool)'),
      ('a-finished-task-is-listed-once', 'bf_done_ok(self._pilots)'),
      ('usage-never-negative-after-an-update',
       'forall(lambda p: implies(indom(old(self._pilots), p) and val(at(old(self._pilots), p).info).used >= 0, val(at(self._pilots, p).info).used >= 0), Str)'),
    ],
    loops = {
      '1': ['bf_inv(self._pilots, self._pids)', 'bf_done_ok(self._pilots)', 'self._wait_pool == old(self._wait_pool)',
            'fwd_log == old(fwd_log)', 'n_assigned == old(n_assigned)', 'n_kept == old(n_kept)', 'same_idx(spos, old(spos))', 'self._tasks == old(self._tasks)',
            'forall(lambda p: indom(self._pilots, p) == indom(old(self._pilots), p) and implies(indom(self._pilots, p), at(self._pilots, p).info is not None), Str)',
            'forall(lambda p: implies(indom(old(self._pilots), p) and val(at(old(self._pilots), p).info).used >= 0, val(at(self._pilots, p).info).used >= 0), Str)'],
    },
    opts   = dict(merge='scalars'),
    serves = ['C12'])


# ------------------------------------------------------------------------------
# Backfilling.add_pilots / remove_pilots / _work / update_pilots
REG.spec('tmgr/scheduler/backfilling.py:Backfilling.add_pilots',
    params   = dict(pids=StrL),
    self     = _bf_self,
    ghost    = dict(fwd_log=T.List(FwdEvt), n_assigned=T.Int, n_kept=T.Int, spos=T.Map(T.Str, T.Int)),
    globals  = dict(_BF_START_VAL=T.Int, _BF_STOP_VAL=T.Int, _HWM=T.Int),
    locals   = dict(cores=T.Int, hwm=T.Int),
    calls    = {'self._schedule_tasks': 'tmgr/scheduler/backfilling.py:Backfilling._schedule_tasks'},
    requires = ['bf_inv(self._pilots, self._pids)', 'bf_pool_ok(self._wait_pool)', 'no_dups(pids)',
                # a pilot is added once (TaskManager.add_pilots refuses one that is already added)
                'forall(lambda k, i: implies(0 <= k < len(pids) and 0 <= i < len(self._pids), self._pids[i] != pids[k]))',
                # the base class has registered them (control_cb) with their description
                'forall(lambda k: implies(0 <= k < len(pids), indom(self._pilots, pids[k]) and at(self._pilots, pids[k]).role == ADDED and '
                'at(self._pilots, pids[k]).state is not None and '
                'is_pstate(at(self._pilots, pids[k]).state) and at(self._pilots, pids[k]).pilot is not None and '
                'val(at(self._pilots, pids[k]).pilot).uid == pids[k] and val(at(self._pilots, pids[k]).pilot).description is not None))'],
    modifies = ['self._pids', 'self._pilots', 'self._wait_pool', 'self._tasks', 'fwd_log', 'n_assigned', 'n_kept', 'spos'],
    raises   = {},
    ensures  = [
      ('bookkeeping-invariant-kept', 'bf_inv(self._pilots, self._pids) and bf_pool_ok(self._wait_pool)'),
      ('a-pilot-added-again-keeps-its-usage-figure',
       'forall(lambda k: implies(0 <= k < len(pids) and at(old(self._pilots), pids[k]).info is not None, '
       'val(at(self._pilots, pids[k]).info).used >= val(at(old(self._pilots), pids[k]).info).used and '
       'val(at(self._pilots, pids[k]).info).done == val(at(old(self._pilots), pids[k]).info).done and '
       'forall(lambda m: implies(0 <= m < len(val(at(old(self._pilots), pids[k]).info).tasks), '
       'in_list(val(at(self._pilots, pids[k]).info).tasks, val(at(old(self._pilots), pids[k]).info).tasks[m])))))'),
      ('pilot-list-extended', 'len(self._pids) == len(old(self._pids)) + len(pids) and '
       'forall(lambda i: implies(0 <= i < len(old(self._pids)), self._pids[i] == old(self._pids)[i])) and '
       'forall(lambda i: implies(0 <= i < len(pids), self._pids[len(old(self._pids)) + i] == pids[i]))'),
    ],
    loops = {'1': ['self._pids == old(self._pids)', 'self._wait_pool == old(self._wait_pool)', 'fwd_log == old(fwd_log)',
                   'forall(lambda p: indom(self._pilots, p) == indom(old(self._pilots), p) and implies(indom(self._pilots, p), '
                   'at(self._pilots, p).role == at(old(self._pilots), p).role and at(self._pilots, p).state == at(old(self._pilots), p).state and '
                   'at(self._pilots, p).pilot == at(old(self._pilots), p).pilot), Str)',
                   # a pilot seen for the first time starts empty; one that was added before keeps its books
                   'forall(lambda k: implies(0 <= k < i_pid, at(self._pilots, pids[k]).info is not None and '
                   'ite(at(old(self._pilots), pids[k]).info is None, '
                   'val(at(self._pilots, pids[k]).info).used == 0 and len(val(at(self._pilots, pids[k]).info).tasks) == 0 and '
                   'len(val(at(self._pilots, pids[k]).info).done) == 0, '
                   'at(self._pilots, pids[k]).info == at(old(self._pilots), pids[k]).info)))',
                   'forall(lambda p: implies(indom(self._pilots, p) and not exists(lambda k: 0 <= k < i_pid and pids[k] == p), '
                   'at(self._pilots, p).info == at(old(self._pilots), p).info), Str)']},
    opts   = dict(merge='scalars'),
    serves = ['C12'])

REG.spec('tmgr/scheduler/backfilling.py:Backfilling.remove_pilots',
    params   = dict(pids=StrL),
    self     = dict(_pids=StrL),
    requires = ['no_dups(self._pids)'],
    modifies = ['self._pids'],
    raises   = {'ValueError': 'True'},
    raises_weak = ['ValueError'],
    frame_on_raise = False,
    ensures  = [
      ('removed-pilots-are-no-longer-eligible',
       'forall(lambda k, i: implies(0 <= k < len(pids) and 0 <= i < len(self._pids), self._pids[i] != pids[k]))'),
      ('others-stay-eligible',
       'forall(lambda i: implies(0 <= i < len(old(self._pids)) and not in_list(pids, old(self._pids)[i]), in_list(self._pids, old(self._pids)[i])))'),
      ('only-known-pilots-remain',
       'forall(lambda i: implies(0 <= i < len(self._pids), in_list(old(self._pids), self._pids[i])))'),
      ('no-dups', 'no_dups(self._pids)'),
    ],
    loops    = {'1': ['no_dups(self._pids)',
                      'forall(lambda k, i: implies(0 <= k < i_pid and 0 <= i < len(self._pids), self._pids[i] != pids[k]))',
                      'forall(lambda i: implies(0 <= i < len(old(self._pids)) and not exists(lambda k: 0 <= k < i_pid and pids[k] == old(self._pids)[i]), in_list(self._pids, old(self._pids)[i])))',
                      'forall(lambda i: implies(0 <= i < len(self._pids), in_list(old(self._pids), self._pids[i])))']},
    serves   = ['C12'])

REG.spec('tmgr/scheduler/backfilling.py:Backfilling._work',
    params   = dict(tasks=TaskCL),
    self     = _bf_self,
    ghost    = dict(fwd_log=T.List(FwdEvt), n_assigned=T.Int, n_kept=T.Int, spos=T.Map(T.Str, T.Int)),
    globals  = dict(_BF_START_VAL=T.Int, _BF_STOP_VAL=T.Int),
    locals   = dict(uid=T.Str),
    calls    = {'self._schedule_tasks': 'tmgr/scheduler/backfilling.py:Backfilling._schedule_tasks'},
    requires = ['bf_inv(self._pilots, self._pids)', 'bf_pool_ok(self._wait_pool)',
                # TMGRSchedulingComponent.work hands over unbound tasks only
                'forall(lambda t: implies(0 <= t < len(tasks), not tasks[t].pilot and tasks[t].description is not None and '
                'val(tasks[t].description).ranks >= 0 and val(tasks[t].description).cores_per_rank >= 0))'],
    modifies = ['self._pilots', 'self._wait_pool', 'self._tasks', 'fwd_log', 'n_assigned', 'n_kept', 'spos'],
    raises   = {},
    ensures  = [
      ('bookkeeping-invariant-kept', 'bf_inv(self._pilots, self._pids) and bf_pool_ok(self._wait_pool)'),
      ('every-task-waits-or-is-forwarded-once',
       'forall(lambda t: implies(0 <= t < len(tasks), indom(self._wait_pool, tasks[t].uid) or '
       '(len(old(fwd_log)) <= len(old(fwd_log)) + at(spos, tasks[t].uid) < len(fwd_log) and '
       'fwd_log[len(old(fwd_log)) + at(spos, tasks[t].uid)].uid == tasks[t].uid)))'),
      ('forwarded-tasks-do-not-wait-any-more',
       'forall(lambda k: implies(len(old(fwd_log)) <= k < len(fwd_log), not indom(self._wait_pool, fwd_log[k].uid)))'),
    ],
    loops = {'1': ['self._pilots == old(self._pilots)', 'fwd_log == old(fwd_log)', 'self._tasks == old(self._tasks)',
                   'n_assigned == old(n_assigned)', 'n_kept == old(n_kept)', 'same_idx(spos, old(spos))', 'bf_pool_ok(self._wait_pool)',
                   'forall(lambda t: implies(0 <= t < i_task, indom(self._wait_pool, tasks[t].uid)))']},
    opts   = dict(merge='scalars'),
    serves = ['C12'])

"""C15: wait calls (task.py, pilot.py, task_manager.py, pilot_manager.py)"""
from pyvc.spec import REG, T
from pyvc.core import Val, TBool, fresh

OStr = T.Opt(T.Str)


def nondet_bool(ex, node, st):
    return fresh(TBool, 'nondet')
nondet_bool.mutates = ()

# awaited state argument: None | one state | list of states
StateArg = T.Union(T.NoneT, T.Str, T.List(T.Str))

_wait_common = dict(
    params   = dict(state=StateArg, timeout=T.Opt(T.Real)),
    self     = dict(_state=OStr),
    props    = dict(state='_state'),
    returns  = OStr,
    locals   = dict(states=T.List(OStr), start_wait=T.Real),
    requires = ['is_tstate(self._state)'],
    # the entity's state is written by another thread: it may change between
    # any two polls, but only forward (C06 / C14)
    volatile = ['self._state'],
    rely     = ['tv(self._state) >= tv(old(self._state))', 'is_tstate(self._state)'],
    modifies = ['self._state'],
)

REG.spec('task.py:Task.wait',
    calls    = {'self._tmgr._terminate.is_set': nondet_bool},
    ensures  = [('returns-actual-state', 'result == self._state')],
    loops    = {'1': [('default-is-final', 'implies(not state, seq_eq(states, FINAL))'),
                      'implies(isinstance(state, str) and state, len(states) == 1 and states[0] == state)',
                      'implies(isinstance(state, list) and state, seq_eq(states, state))']},
    # C15: the loop is left once the awaited state is reached, and once the
    # entity is final (it can make no further progress)
    loop_exit = {'1': ['self._state in states', 'self._state in FINAL']},
    serves   = ['C15'], **_wait_common)

_pilot_wait = dict(_wait_common)
_pilot_wait['requires'] = ['is_pstate(self._state)']
_pilot_wait['rely'] = ['pv(self._state) >= pv(old(self._state))',
                       'is_pstate(self._state)']
REG.spec('pilot.py:Pilot.wait',
    calls    = {'self._pmgr._terminate.is_set': nondet_bool},
    ensures  = [('returns-actual-state', 'result == self._state')],
    loops    = {'1': [('default-is-final', 'implies(not state, seq_eq(states, FINAL))'),
                      'implies(isinstance(state, str) and state, len(states) == 1 and states[0] == state)',
                      'implies(isinstance(state, list) and state, seq_eq(states, state))']},
    loop_exit = {'1': ['self._state in states', 'self._state in FINAL']},
    serves   = ['C15'], **_pilot_wait)


# ------------------------------------------------------------------------------
# TaskManager.wait_tasks: the threshold the polling loop compares task states
# with.  A task stops being waited for when its state value reaches the threshold
# (or it is final); "returns once every task reached an awaited state" therefore
# needs the threshold to be the value of the EARLIEST awaited state - then a task
# in any awaited state, or past it, is at or above the threshold.  The polling
# loop itself (threads, sleeps) is exercised by the bounded wait scenarios.
REG.spec('task_manager.py:TaskManager.wait_tasks#threshold',
    fragment = 'threshold of the awaited states',
    fragment_after  = "self._log.debug('wait for %s: %s', uids, states)",
    fragment_before = 'start    = time.time()',
    params   = dict(states=T.List(T.Str)),
    locals   = dict(check_state_val=T.Int),
    returns_local = 'check_state_val',
    requires = ['forall(lambda i: implies(0 <= i < len(states), is_tstate(states[i])))'],
    modifies = [],
    raises   = {},
    ensures  = [
      ('a-task-in-any-awaited-state-is-at-or-above-the-threshold',
       'forall(lambda i: implies(0 <= i < len(states), check_state_val <= tv(states[i])))'),
      ('the-threshold-is-the-value-of-an-awaited-state-no-task-is-released-early',
       'implies(len(states) > 0, exists(lambda i: 0 <= i < len(states) and check_state_val == tv(states[i]))) and '
       'implies(len(states) == 0, check_state_val == tv(CANCELED))'),
    ],
    loops    = {'1': ['forall(lambda i: implies(0 <= i < i_state, check_state_val <= tv(states[i])))',
                      'check_state_val == tv(CANCELED) or exists(lambda i: 0 <= i < i_state and check_state_val == tv(states[i]))',
                      'check_state_val <= tv(CANCELED)']},
    serves   = ['C15'])

"""C18: the node list the agent offers (agent/resource_manager/base.py)"""
import z3
from pyvc import core as C
from pyvc.spec import REG, T
from pyvc.core import Val, fresh, TBool
from .types import OStr, OAny, NodeD
from .sched_agent import NodeL

AgentLayout = T.Rec('AgentLayout', target=OStr)
REG.optional_keys['AgentLayout'] = {'target'}
RMCfg  = T.Rec('RMCfg', agents=T.Opt(T.Map(T.Str, AgentLayout)))
REG.optional_keys['RMCfg'] = {'agents'}
RMInfoB = T.Rec('RMInfoB', backup_nodes=T.Opt(T.Int), node_list=NodeL,
                backup_list=NodeL, requested_nodes=T.Int,
                agent_node_list=NodeL, service_node_list=NodeL)


def _probe_nodes(ex, node, st):
    """`if rm_info.backup_nodes:` block of _filter_nodes: every node is probed
    with `ssh <name> hostname`; the nodes that answered replace the node list
    (RuntimeError if none did).  Modelled as: when backup nodes were requested,
    node_list becomes an arbitrary order-preserving sub-list of itself."""
    ri = ex.get_var(st, 'rm_info')
    ty = ri.ty
    bn = Val(ty.fields['backup_nodes'], ty.get(ri.term, 'backup_nodes'))
    outs = []
    for s, taken in ex.branch(st, C.truthy(bn)):
        if not taken:
            outs.append(('next', s, None)); continue
        ri = ex.get_var(s, 'rm_info')
        nl = Val(NodeL, ty.get(ri.term, 'node_list'))
        ok = ex.fresh_wf(s, NodeL, 'ok')
        idx = z3.Function(C.fresh_name('probe_idx'), z3.IntSort(), z3.IntSort())
        j, j2 = z3.Int(C.fresh_name('j')), z3.Int(C.fresh_name('j'))
        n, m = NodeL.len(nl.term), NodeL.len(ok.term)
        s.assume(m <= n)
        s.assume(z3.ForAll([j], z3.Implies(z3.And(0 <= j, j < m),
                 z3.And(0 <= idx(j), idx(j) < n,
                        z3.Select(NodeL.arr(ok.term), j) == z3.Select(NodeL.arr(nl.term), idx(j)))),
                 patterns=[z3.Select(NodeL.arr(ok.term), j)]))
        s.assume(z3.ForAll([j, j2], z3.Implies(z3.And(0 <= j, j < j2, j2 < m), idx(j) < idx(j2))))
        e = s.fork(); e.pc.append(m == 0)
        if ex.feasible(e):
            outs.append(('raise', e, ('RuntimeError', node.lineno)))
        s.assume(m > 0)
        s.env['rm_info'] = Val(ty, ty.set(ri.term, 'node_list', ok.term))
        outs.append(('next', s, None))
    return outs
_probe_nodes.mutates = ('rm_info',)
_probe_nodes.__name__ = 'node_list := order-preserving sub-list (ssh probe)'


def _isfile(ex, node, st):
    return fresh(TBool, 'isfile')


REG.modfuncs['os.path.isfile'] = _isfile

# a is an order-preserving sub-list of b
REG.define('sublist_nodes(a, b)',
    'forall(lambda i: implies(0 <= i < len(a), exists(lambda p: 0 <= p < len(b) and b[p] == a[i])))')
REG.define('disjoint_nodes(a, b)',
    'forall(lambda i, j: implies(0 <= i < len(a) and 0 <= j < len(b), a[i].index != b[j].index))')

REG.spec('agent/resource_manager/base.py:ResourceManager._filter_nodes',
    params   = dict(rm_info=RMInfoB),
    self     = dict(_cfg=RMCfg),
    locals   = dict(agent_nodes=T.Int, service_nodes=T.Int),
    stmt_effects = {'if rm_info.backup_nodes:': _probe_nodes},
    requires = ['distinct_nodes(rm_info.node_list)', 'rm_info.requested_nodes >= 0',
                # the per-RM code may have reserved agent / service nodes already:
                # they are not part of node_list then
                'disjoint_nodes(rm_info.agent_node_list, rm_info.node_list)',
                'disjoint_nodes(rm_info.service_node_list, rm_info.node_list)',
                'disjoint_nodes(rm_info.agent_node_list, rm_info.service_node_list)'],
    modifies = ['rm_info'],
    raises   = {'RuntimeError': 'True', 'IndexError': 'True', 'AssertionError': 'True'},
    raises_weak = ['RuntimeError', 'IndexError', 'AssertionError'],
    frame_on_raise = False,
    ensures  = [
      ('never-empty', 'len(rm_info.node_list) >= 1'),
      ('never-longer-than-requested', 'len(rm_info.node_list) <= rm_info.requested_nodes'),
      ('only-allocated-nodes', 'sublist_nodes(rm_info.node_list, old(rm_info.node_list))'),
      ('unique-indices', 'distinct_nodes(rm_info.node_list)'),
      ('agent-nodes-set-aside', 'disjoint_nodes(rm_info.agent_node_list, rm_info.node_list)'),
      ('service-nodes-set-aside', 'disjoint_nodes(rm_info.service_node_list, rm_info.node_list)'),
      ('agent-and-service-nodes-differ', 'disjoint_nodes(rm_info.agent_node_list, rm_info.service_node_list)'),
      ('requested-kept', 'rm_info.requested_nodes == old(rm_info.requested_nodes)'),
    ],
    loops = {
      '3': ['agent_nodes >= 0', 'rm_info == at_entry("3", rm_info)'],
      '4': ['len(rm_info.agent_node_list) == i__',
            'len(rm_info.node_list) == len(at_entry("4", rm_info.node_list)) - i__',
            'forall(lambda k: implies(0 <= k < len(rm_info.node_list), rm_info.node_list[k] == at_entry("4", rm_info.node_list)[k]))',
            'forall(lambda k: implies(0 <= k < i__, rm_info.agent_node_list[k] == at_entry("4", rm_info.node_list)[len(at_entry("4", rm_info.node_list)) - 1 - k]))',
            'rm_info.service_node_list == at_entry("4", rm_info.service_node_list)',
            'rm_info.requested_nodes == at_entry("4", rm_info.requested_nodes)'],
      '5': ['len(rm_info.service_node_list) == i__',
            'len(rm_info.node_list) == len(at_entry("5", rm_info.node_list)) - i__',
            'forall(lambda k: implies(0 <= k < len(rm_info.node_list), rm_info.node_list[k] == at_entry("5", rm_info.node_list)[k]))',
            'forall(lambda k: implies(0 <= k < i__, rm_info.service_node_list[k] == at_entry("5", rm_info.node_list)[len(at_entry("5", rm_info.node_list)) - 1 - k]))',
            'rm_info.agent_node_list == at_entry("5", rm_info.agent_node_list)',
            'rm_info.requested_nodes == at_entry("5", rm_info.requested_nodes)'],
    },
    opts = dict(merge='scalars'),
    serves = ['C18'])

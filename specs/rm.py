"""C18: the node list the agent offers (agent/resource_manager/base.py)"""
import z3
from pyvc import core as C
from pyvc.spec import REG, T
from pyvc.core import Val, fresh, TBool
from .types import OStr, OAny, NodeD
from .sched_agent import NodeL

AgentLayout = T.Rec('AgentLayout', target=OStr)
REG.optional_keys['AgentLayout'] = {'target'}
RMCfg  = T.Rec('RMCfg', agents=T.Opt(T.Map(T.Str, AgentLayout)))
REG.optional_keys['RMCfg'] = {'agents'}
RMInfoB = T.Rec('RMInfoB', backup_nodes=T.Opt(T.Int), node_list=NodeL,
                backup_list=NodeL, requested_nodes=T.Int,
                agent_node_list=NodeL, service_node_list=NodeL)


def _probe_nodes(ex, node, st):
    """`if rm_info.backup_nodes:` block of _filter_nodes: every node is probed
    with `ssh <name> hostname`; the nodes that answered replace the node list
    (RuntimeError if none did).  Modelled as: when backup nodes were requested,
    node_list becomes an arbitrary order-preserving sub-list of itself."""
    ri = ex.get_var(st, 'rm_info')
    ty = ri.ty
    bn = Val(ty.fields['backup_nodes'], ty.get(ri.term, 'backup_nodes'))
    outs = []
    for s, taken in ex.branch(st, C.truthy(bn)):
        if not taken:
            outs.append(('next', s, None)); continue
        ri = ex.get_var(s, 'rm_info')
        nl = Val(NodeL, ty.get(ri.term, 'node_list'))
        ok = ex.fresh_wf(s, NodeL, 'ok')
        idx = z3.Function(C.fresh_name('probe_idx'), z3.IntSort(), z3.IntSort())
        j, j2 = z3.Int(C.fresh_name('j')), z3.Int(C.fresh_name('j'))
        n, m = NodeL.len(nl.term), NodeL.len(ok.term)
        s.assume(m <= n)
        s.assume(z3.ForAll([j], z3.Implies(z3.And(0 <= j, j < m),
                 z3.And(0 <= idx(j), idx(j) < n,
                        z3.Select(NodeL.arr(ok.term), j) == z3.Select(NodeL.arr(nl.term), idx(j)))),
                 patterns=[z3.Select(NodeL.arr(ok.term), j)]))
        s.assume(z3.ForAll([j, j2], z3.Implies(z3.And(0 <= j, j < j2, j2 < m), idx(j) < idx(j2))))
        e = s.fork(); e.pc.append(m == 0)
        if ex.feasible(e):
            outs.append(('raise', e, ('RuntimeError', node.lineno)))
        s.assume(m > 0)
        s.env['rm_info'] = Val(ty, ty.set(ri.term, 'node_list', ok.term))
        outs.append(('next', s, None))
    return outs
_probe_nodes.mutates = ('rm_info',)
_probe_nodes.__name__ = 'node_list := order-preserving sub-list (ssh probe)'


def _isfile(ex, node, st):
    return fresh(TBool, 'isfile')


REG.modfuncs['os.path.isfile'] = _isfile

# a is an order-preserving sub-list of b
REG.define('sublist_nodes(a, b)',
    'forall(lambda i: implies(0 <= i < len(a), exists(lambda p: 0 <= p < len(b) and b[p] == a[i])))')
REG.define('disjoint_nodes(a, b)',
    'forall(lambda i, j: implies(0 <= i < len(a) and 0 <= j < len(b), a[i].index != b[j].index))')

REG.spec('agent/resource_manager/base.py:ResourceManager._filter_nodes',
    params   = dict(rm_info=RMInfoB),
    self     = dict(_cfg=RMCfg),
    locals   = dict(agent_nodes=T.Int, service_nodes=T.Int),
    stmt_effects = {'if rm_info.backup_nodes:': _probe_nodes},
    requires = ['distinct_nodes(rm_info.node_list)', 'rm_info.requested_nodes >= 0',
                # the per-RM code may have reserved agent / service nodes already:
                # they are not part of node_list then
                'disjoint_nodes(rm_info.agent_node_list, rm_info.node_list)',
                'disjoint_nodes(rm_info.service_node_list, rm_info.node_list)',
                'disjoint_nodes(rm_info.agent_node_list, rm_info.service_node_list)'],
    modifies = ['rm_info'],
    raises   = {'RuntimeError': 'True', 'IndexError': 'True', 'AssertionError': 'True'},
    raises_weak = ['RuntimeError', 'IndexError', 'AssertionError'],
    frame_on_raise = False,
    ensures  = [
      ('never-empty', 'len(rm_info.node_list) >= 1'),
      ('never-longer-than-requested', 'len(rm_info.node_list) <= rm_info.requested_nodes'),
      ('only-allocated-nodes', 'sublist_nodes(rm_info.node_list, old(rm_info.node_list))'),
      ('unique-indices', 'distinct_nodes(rm_info.node_list)'),
      ('agent-nodes-set-aside', 'disjoint_nodes(rm_info.agent_node_list, rm_info.node_list)'),
      ('service-nodes-set-aside', 'disjoint_nodes(rm_info.service_node_list, rm_info.node_list)'),
      ('agent-and-service-nodes-differ', 'disjoint_nodes(rm_info.agent_node_list, rm_info.service_node_list)'),
      ('requested-kept', 'rm_info.requested_nodes == old(rm_info.requested_nodes)'),
    ],
    loops = {
      '3': ['agent_nodes >= 0', 'rm_info == at_entry("3", rm_info)'],
      '4': ['len(rm_info.agent_node_list) == i__',
            'len(rm_info.node_list) == len(at_entry("4", rm_info.node_list)) - i__',
            'forall(lambda k: implies(0 <= k < len(rm_info.node_list), rm_info.node_list[k] == at_entry("4", rm_info.node_list)[k]))',
            'forall(lambda k: implies(0 <= k < i__, rm_info.agent_node_list[k] == at_entry("4", rm_info.node_list)[len(at_entry("4", rm_info.node_list)) - 1 - k]))',
            'rm_info.service_node_list == at_entry("4", rm_info.service_node_list)',
            'rm_info.requested_nodes == at_entry("4", rm_info.requested_nodes)'],
      '5': ['len(rm_info.service_node_list) == i__',
            'len(rm_info.node_list) == len(at_entry("5", rm_info.node_list)) - i__',
            'forall(lambda k: implies(0 <= k < len(rm_info.node_list), rm_info.node_list[k] == at_entry("5", rm_info.node_list)[k]))',
            'forall(lambda k: implies(0 <= k < i__, rm_info.service_node_list[k] == at_entry("5", rm_info.node_list)[len(at_entry("5", rm_info.node_list)) - 1 - k]))',
            'rm_info.agent_node_list == at_entry("5", rm_info.agent_node_list)',
            'rm_info.requested_nodes == at_entry("5", rm_info.requested_nodes)'],
    },
    opts = dict(merge='scalars'),
    serves = ['C18'])


# ------------------------------------------------------------------------------
# node list construction
#
NodeTup = T.Tuple(T.Str, T.Int)
RMInfoG = T.Rec('RMInfoG', gpus_per_node=T.Int, lfs_per_node=T.Int, mem_per_node=T.Int)

REG.spec('agent/resource_manager/base.py:ResourceManager._get_node_list',
    params   = dict(nodes=T.List(NodeTup), rm_info=RMInfoG),
    returns  = NodeL,
    locals   = dict(node_list=NodeL),
    requires = ['forall(lambda i: implies(0 <= i < len(nodes), nodes[i][1] >= 0))',
                'rm_info.gpus_per_node >= 0'],
    raises   = {},
    ensures  = [
      ('one-entry-per-node', 'len(result) == len(nodes)'),
      ('indices-are-positions', 'forall(lambda i: implies(0 <= i < len(result), result[i].index == i and result[i].name == nodes[i][0]))'),
      ('unique-indices', 'distinct_nodes(result)'),
      ('configured-cores-and-gpus-all-free',
       'forall(lambda i: implies(0 <= i < len(result), len(result[i].cores) == nodes[i][1] and len(result[i].gpus) == rm_info.gpus_per_node and '
       'forall(lambda c: implies(0 <= c < len(result[i].cores), result[i].cores[c] == FREE)) and '
       'forall(lambda g: implies(0 <= g < len(result[i].gpus), result[i].gpus[g] == FREE))))'),
      ('lfs-mem-from-config', 'forall(lambda i: implies(0 <= i < len(result), result[i].lfs == rm_info.lfs_per_node and result[i].mem == rm_info.mem_per_node))'),
    ],
    serves   = ['C18', 'C01'])

REG.spec('agent/resource_manager/base.py:ResourceManager._get_cores_per_node',
    params   = dict(nodes=T.List(NodeTup)),
    returns  = T.Int,
    raises   = {'ValueError': 'True'},
    raises_weak = ['ValueError'],
    ensures  = [('every-node-has-that-many-cores',
                 'len(nodes) >= 1 and forall(lambda i: implies(0 <= i < len(nodes), nodes[i][1] == result))')],
    serves   = ['C18'])


# blocked cores / GPUs (core specialisation): a fragment of _init_from_scratch
RMInfoN = T.Rec('RMInfoN', cores_per_node=T.Int, gpus_per_node=T.Int, node_list=NodeL)
IntL = T.List(T.Int)
REG.define('in_list(xs, v)', 'exists(lambda k: 0 <= k < len(xs) and xs[k] == v)')

REG.spec('agent/resource_manager/base.py:ResourceManager._init_from_scratch#blocked',
    fragment = 'if blocked_cores or blocked_gpus:',
    fragment_marker = "node['cores'][idx] = rpc.DOWN",
    params   = dict(rm_info=RMInfoN, blocked_cores=IntL, blocked_gpus=IntL),
    requires = ['forall(lambda k: implies(0 <= k < len(blocked_cores), blocked_cores[k] >= 0))',
                'forall(lambda k: implies(0 <= k < len(blocked_gpus), blocked_gpus[k] >= 0))'],
    modifies = ['rm_info'],
    raises   = {'AssertionError': 'True'},
    raises_weak = ['AssertionError'],
    frame_on_raise = False,
    ensures  = [
      ('same-nodes', 'same_skeleton(rm_info.node_list, old(rm_info.node_list)) and '
                     'forall(lambda n: implies(0 <= n < len(rm_info.node_list), rm_info.node_list[n].lfs == old(rm_info.node_list)[n].lfs and rm_info.node_list[n].mem == old(rm_info.node_list)[n].mem))'),
      ('blocked-cores-marked-unusable-on-every-node',
       'forall(lambda n, k: implies(0 <= n < len(rm_info.node_list) and 0 <= k < len(blocked_cores), rm_info.node_list[n].cores[blocked_cores[k]] is None))'),
      ('blocked-gpus-marked-unusable-on-every-node',
       'forall(lambda n, k: implies(0 <= n < len(rm_info.node_list) and 0 <= k < len(blocked_gpus), rm_info.node_list[n].gpus[blocked_gpus[k]] is None))'),
      ('other-cores-untouched',
       'forall(lambda n, c: implies(0 <= n < len(rm_info.node_list) and 0 <= c < len(rm_info.node_list[n].cores) and not in_list(blocked_cores, c), '
       'rm_info.node_list[n].cores[c] == old(rm_info.node_list)[n].cores[c]))'),
      ('other-gpus-untouched',
       'forall(lambda n, c: implies(0 <= n < len(rm_info.node_list) and 0 <= c < len(rm_info.node_list[n].gpus) and not in_list(blocked_gpus, c), '
       'rm_info.node_list[n].gpus[c] == old(rm_info.node_list)[n].gpus[c]))'),
      ('per-node-figures-reduced',
       'rm_info.cores_per_node == old(rm_info.cores_per_node) - len(blocked_cores) and '
       'rm_info.gpus_per_node == old(rm_info.gpus_per_node) - len(blocked_gpus)'),
    ],
    loops = {
      '1': ['same_skeleton(rm_info.node_list, old(rm_info.node_list))',
            'rm_info.cores_per_node == old(rm_info.cores_per_node) - len(blocked_cores) and rm_info.gpus_per_node == old(rm_info.gpus_per_node) - len(blocked_gpus)',
            'forall(lambda n: implies(0 <= n < len(rm_info.node_list), rm_info.node_list[n].lfs == old(rm_info.node_list)[n].lfs and rm_info.node_list[n].mem == old(rm_info.node_list)[n].mem))',
            'forall(lambda n: implies(i_node <= n < len(rm_info.node_list), rm_info.node_list[n] == old(rm_info.node_list)[n]))',
            'forall(lambda n, k: implies(0 <= n < i_node and 0 <= k < len(blocked_cores), rm_info.node_list[n].cores[blocked_cores[k]] is None))',
            'forall(lambda n, k: implies(0 <= n < i_node and 0 <= k < len(blocked_gpus), rm_info.node_list[n].gpus[blocked_gpus[k]] is None))',
            'forall(lambda n, c: implies(0 <= n < i_node and 0 <= c < len(rm_info.node_list[n].cores) and not in_list(blocked_cores, c), rm_info.node_list[n].cores[c] == old(rm_info.node_list)[n].cores[c]))',
            'forall(lambda n, c: implies(0 <= n < i_node and 0 <= c < len(rm_info.node_list[n].gpus) and not in_list(blocked_gpus, c), rm_info.node_list[n].gpus[c] == old(rm_info.node_list)[n].gpus[c]))'],
      '1.1': ['len(rm_info.node_list) == len(old(rm_info.node_list))', '0 <= i_node < len(rm_info.node_list)',
              'forall(lambda n: implies(0 <= n < len(rm_info.node_list) and n != i_node, rm_info.node_list[n] == at_head("1", rm_info.node_list)[n]))',
              'rm_info.cores_per_node == at_head("1", rm_info.cores_per_node) and rm_info.gpus_per_node == at_head("1", rm_info.gpus_per_node)',
              'node.index == old(rm_info.node_list)[i_node].index and node.name == old(rm_info.node_list)[i_node].name and '
              'node.lfs == old(rm_info.node_list)[i_node].lfs and node.mem == old(rm_info.node_list)[i_node].mem and '
              'node.gpus == old(rm_info.node_list)[i_node].gpus and len(node.cores) == len(old(rm_info.node_list)[i_node].cores)',
              'forall(lambda k: implies(0 <= k < i_idx, node.cores[blocked_cores[k]] is None))',
              'forall(lambda c: implies(0 <= c < len(node.cores) and not exists(lambda k: 0 <= k < i_idx and blocked_cores[k] == c), node.cores[c] == old(rm_info.node_list)[i_node].cores[c]))'],
      '1.2': ['len(rm_info.node_list) == len(old(rm_info.node_list))', '0 <= i_node < len(rm_info.node_list)',
              'forall(lambda n: implies(0 <= n < len(rm_info.node_list) and n != i_node, rm_info.node_list[n] == at_head("1", rm_info.node_list)[n]))',
              'rm_info.cores_per_node == at_head("1", rm_info.cores_per_node) and rm_info.gpus_per_node == at_head("1", rm_info.gpus_per_node)',
              'node.index == old(rm_info.node_list)[i_node].index and node.name == old(rm_info.node_list)[i_node].name and '
              'node.lfs == old(rm_info.node_list)[i_node].lfs and node.mem == old(rm_info.node_list)[i_node].mem and '
              'len(node.cores) == len(old(rm_info.node_list)[i_node].cores) and len(node.gpus) == len(old(rm_info.node_list)[i_node].gpus)',
              'forall(lambda k: implies(0 <= k < len(blocked_cores), node.cores[blocked_cores[k]] is None))',
              'forall(lambda c: implies(0 <= c < len(node.cores) and not in_list(blocked_cores, c), node.cores[c] == old(rm_info.node_list)[i_node].cores[c]))',
              'forall(lambda k: implies(0 <= k < i_idx, node.gpus[blocked_gpus[k]] is None))',
              'forall(lambda c: implies(0 <= c < len(node.gpus) and not exists(lambda k: 0 <= k < i_idx and blocked_gpus[k] == c), node.gpus[c] == old(rm_info.node_list)[i_node].gpus[c]))'],
    },
    opts   = dict(merge='scalars'),
    serves = ['C18', 'C01'])


# C01 / C18: the list the scheduler starts from satisfies the occupancy invariant
REG.lemma('C01.init',
    vars  = dict(nl0=NodeL, nl1=NodeL, nl2=NodeL, blocked_cores=IntL, blocked_gpus=IntL,
                 gpn=T.Int, lfs=T.Int, mem=T.Int),
    hyps  = ['lfs >= 0', 'mem >= 0', 'gpn >= 0',
             # _get_node_list
             'distinct_nodes(nl0)',
             'forall(lambda i: implies(0 <= i < len(nl0), len(nl0[i].cores) >= 1 and len(nl0[i].gpus) == gpn and nl0[i].lfs == lfs and nl0[i].mem == mem and '
             'forall(lambda c: implies(0 <= c < len(nl0[i].cores), nl0[i].cores[c] == FREE)) and '
             'forall(lambda g: implies(0 <= g < len(nl0[i].gpus), nl0[i].gpus[g] == FREE))))',
             # blocked marking
             'same_skeleton(nl1, nl0)',
             'forall(lambda n: implies(0 <= n < len(nl1), nl1[n].lfs == nl0[n].lfs and nl1[n].mem == nl0[n].mem))',
             'forall(lambda n, c: implies(0 <= n < len(nl1) and 0 <= c < len(nl1[n].cores), nl1[n].cores[c] is None or nl1[n].cores[c] == nl0[n].cores[c]))',
             'forall(lambda n, c: implies(0 <= n < len(nl1) and 0 <= c < len(nl1[n].gpus), nl1[n].gpus[c] is None or nl1[n].gpus[c] == nl0[n].gpus[c]))',
             # _filter_nodes
             'sublist_nodes(nl2, nl1)', 'distinct_nodes(nl2)'],
    goals = [('scheduler-invariant-holds-initially', 'sched_inv(nl2, gpn)')],
    serves = ['C01', 'C18'])


# ------------------------------------------------------------------------------
# Slurm.init_from_scratch: the node list offered on a Slurm allocation - one node per
# allocated host, in order, each with the configured number of cores (what the
# batch system reports only where the configuration is silent) and GPUs
import z3 as _z3
from pyvc import core as _C
from pyvc.core import Val as _Val, coerce as _coerce

def _env_get(ex, node, st):
    """os.environ.get(name): an arbitrary but fixed environment (function of the name)"""
    k = _coerce(ex.ev(node.args[0], st), T.Str)
    oty = T.Opt(T.Str)
    return _Val(oty, _z3.Function('env!get', _C.StrSort, oty.sort())(k.term))
_env_get.mutates = ()

def _env_item(ex, node, st):
    return _env_get(ex, node, st)

def _hostlist(ex, node, st):
    a = _coerce(ex.ev(node.args[0], st), T.Str)
    lty = T.List(T.Str)
    v = _Val(lty, _z3.Function('ru!hostlist', _C.StrSort, lty.sort())(a.term))
    for f in ex.wf(v): st.assume(f)
    return v
_hostlist.mutates = ()

RMInfoS = T.Rec('RMInfoS', cores_per_node=T.Opt(T.Int), gpus_per_node=T.Opt(T.Int), lfs_per_node=T.Int, mem_per_node=T.Int,
                node_list=NodeL)

def _s_node_list(ex, node, st):
    """self._get_node_list(nodes, rm_info) by its verified contract (above); rm_info is seen
    through the fields that contract reads"""
    nodes = ex.ev(node.args[0], st)
    info  = ex.ev(node.args[1], st)
    gpn = info.ty.get(info.term, 'gpus_per_node')
    oty = info.ty.fields['gpus_per_node']
    out = ex.fresh_wf(st, NodeL, 'node_list')
    i = _z3.Int(_C.fresh_name('i'))
    nty = nodes.ty
    st.assume(NodeL.len(out.term) == nty.len(nodes.term))
    el = _z3.Select(NodeL.arr(out.term), i)
    tup = _z3.Select(nty.arr(nodes.term), i)
    st.assume(_z3.ForAll([i], _z3.Implies(_z3.And(0 <= i, i < NodeL.len(out.term)), _z3.And(
        NodeL.elem.get(el, 'index') == i, NodeL.elem.get(el, 'name') == nty.elem.get(tup, 0),
        NodeL.elem.fields['cores'].len(NodeL.elem.get(el, 'cores')) == nty.elem.get(tup, 1),
        NodeL.elem.fields['gpus'].len(NodeL.elem.get(el, 'gpus')) == _z3.If(oty.is_some(gpn), oty.val(gpn), 0))),
        patterns=[el]))
    return out
_s_node_list.mutates = ()

def _str_int(ex, node, st):
    a = _coerce(ex.ev(node.args[0], st), T.Str)
    return _Val(T.Int, _z3.Function('str!int', _C.StrSort, _z3.IntSort())(a.term))
_str_int.mutates = ()

REG.spec('agent/resource_manager/slurm.py:Slurm.init_from_scratch',
    params   = dict(rm_info=RMInfoS),
    returns  = RMInfoS,
    locals   = dict(node_names=T.List(T.Str), nodes=T.List(NodeTup), nodelist=T.Opt(T.Str), cpn_str=T.Opt(T.Str), gpu_ids=T.Opt(T.Str)),
    # the process environment: an arbitrary map from names to texts
    globals  = dict(os=T.Rec('OsModule', environ=T.Map(T.Str, T.Str))),
    calls    = {'ru.get_hostlist': _hostlist, 'self._get_node_list': _s_node_list, 'int': _str_int,
                'ru.write_json': lambda ex, node, st: _C.NONE},
    modifies = ['rm_info'],
    raises   = {'RuntimeError': 'True', 'KeyError': 'False'},
    raises_weak = ['RuntimeError'],
    frame_on_raise = False,
    ensures  = [
      ('a-configured-node-size-is-kept-whatever-the-batch-system-reports',
       'implies(bool(old(rm_info).cores_per_node), rm_info.cores_per_node == old(rm_info).cores_per_node) and '
       'implies(bool(old(rm_info).gpus_per_node), rm_info.gpus_per_node == old(rm_info).gpus_per_node)'),
      ('one-node-per-allocated-host-in-order-with-that-many-cores',
       'rm_info.cores_per_node is not None and len(rm_info.node_list) == len(node_names) and '
       'forall(lambda k: implies(0 <= k < len(rm_info.node_list), rm_info.node_list[k].name == node_names[k] and '
       'rm_info.node_list[k].index == k and len(rm_info.node_list[k].cores) == val(rm_info.cores_per_node)))'),
      ('the-same-object-is-returned', 'result == rm_info'),
    ],
    serves   = ['C18'])

"""C10: the pieces the task scripts are assembled from (agent/executing/base.py,
agent/launch_method/base.py).  Strings are identifiers here (A15): a contract
states *which* values go into *which* slot of the script text, as the same string
expression over the task; that bash then does with the text what the property
says is checked by running generated scripts (bounded, harness/script_sim.py)."""
import z3
from pyvc import core as C
from pyvc.spec import REG, T
from pyvc.core import Val, fresh
from .types import OStr, OAny
from .effects import ignore_call

XDesc = T.Rec('XDesc', cores_per_rank=T.Int, gpus_per_rank=T.Real, services=T.Opt(T.List(T.Str)),
              executable=T.Str, arguments=T.Opt(T.List(T.Str)), pre_exec_sync=T.Opt(T.Bool))
REG.optional_keys['XDesc'] = {'services'}
XTask = T.RecD('XTask', dict(uid=T.Str, name=OStr, description=XDesc, task_sandbox_path=T.Str,
              stdout_file_short=T.Str, stderr_file_short=T.Str))
REG.optional_keys['XTask'] = {'name'}
Bridge = T.Rec('BridgeCfg', addr_pub=T.Str, addr_sub=T.Str)
RegM   = T.Map(T.Str, T.Any)


def _realpath(ex, node, st):
    a = C.coerce(ex.ev(node.args[0], st), T.Str)
    return Val(T.Str, z3.Function('os!realpath', C.StrSort, C.StrSort)(a.term))
_realpath.mutates = ()

def _sh_quote(ex, node, st):
    a = C.coerce(ex.ev(node.args[0], st), T.Str)
    return Val(T.Str, z3.Function('ru!sh_quote', C.StrSort, C.StrSort)(a.term))
_sh_quote.mutates = ()
REG.modfuncs['ru.sh_quote'] = _sh_quote

REG.spec('agent/launch_method/base.py:LaunchMethod._create_arg_string',
    params  = dict(args=T.Opt(T.List(T.Str))),
    returns = T.Str,
    calls   = {'ru.sh_quote': _sh_quote},
    modifies = [],
    raises  = {},
    ensures = [('every-argument-quoted-once-in-the-described-order',
                'result == ite(args is not None and len(val(args)) > 0, " ".join([ru.sh_quote(a) for a in val(args)]), "")')],
    serves  = ['C10'])

REG.spec('agent/launch_method/base.py:LaunchMethod.get_exec',
    params  = dict(task=XTask),
    returns = T.Str,
    calls   = {'self._create_arg_string': 'agent/launch_method/base.py:LaunchMethod._create_arg_string'},
    modifies = [],
    raises  = {},
    ensures = [('the-described-executable-with-the-described-arguments',
                'result == ("%s %s" % (task.description.executable, ite(task.description.arguments is not None and '
                'len(val(task.description.arguments)) > 0, " ".join([ru.sh_quote(a) for a in val(task.description.arguments)]), ""))).rstrip()')],
    serves  = ['C10'])


# ------------------------------------------------------------------------------
def _lm_exec(ex, node, st):
    """launcher.get_exec(task): by the contract of LaunchMethod.get_exec (above) the
    executable with its quoted arguments; here a function of the task"""
    t = ex.ev(node.args[0], st)
    return Val(T.Str, z3.Function('lm!get_exec', t.ty.sort(), C.StrSort)(t.term))
_lm_exec.mutates = ()
REG.modfuncs['launcher.get_exec'] = _lm_exec

REG.spec('agent/executing/base.py:AgentExecutingComponent._get_exec',
    params  = dict(task=XTask, launcher=T.Any),
    returns = T.Str,
    calls   = {'launcher.get_exec': _lm_exec},
    modifies = [],
    raises  = {},
    ensures = [('runs-the-described-command-once-waits-for-it-and-keeps-its-exit-code',
                'result == "%s &\\n" % launcher.get_exec(task) + "\\nRP_EXEC_PID=$$\\nRP_RANK_PID=$!\\n\\n" + "wait $RP_RANK_PID\\n" + "RP_RET=$?\\n"')],
    serves  = ['C10'])


def _lm_cmds(ex, node, st):
    t = ex.ev(node.args[0], st)
    p = C.coerce(ex.ev(node.args[1], st), T.Str)
    return Val(T.Str, z3.Function('lm!launch_cmd', t.ty.sort(), C.StrSort, C.StrSort)(t.term, p.term))
_lm_cmds.mutates = ()
REG.modfuncs['launcher.get_launch_cmds'] = _lm_cmds

def _as_list1(ex, node, st):
    from pyvc.core import PyTuple
    v = ex.ev(node.args[0], st)
    if isinstance(v.ty, C.TList) or isinstance(v, PyTuple):
        return v
    if isinstance(v.ty, C.TOpt) and isinstance(v.ty.elem, C.TList):
        # ru.as_list(None) == []
        lty = v.ty.elem
        empty = C.coerce(PyTuple([], True), lty)
        return Val(lty, z3.If(v.ty.is_none(v.term), empty.term, v.ty.val(v.term)))
    return PyTuple([v], True)
_as_list1.mutates = ()

REG.spec('agent/executing/base.py:AgentExecutingComponent._get_launch',
    params  = dict(task=XTask, launcher=T.Any, exec_path=T.Str),
    returns = T.Str,
    calls   = {'launcher.get_launch_cmds': _lm_cmds, 'ru.as_list': _as_list1},
    modifies = [],
    raises  = {},
    ensures = [('the-launch-command-runs-once-with-stdout-and-stderr-in-the-described-files-and-its-exit-code-kept',
                'result == "( \\\\\\n" + "  %s \\\\\\n" % launcher.get_launch_cmds(task, exec_path) + '
                '") 1> %s \\\\\\n  2> %s\\n" % (task.stdout_file_short, task.stderr_file_short) + "RP_RET=$?\\n" + "RP_LAUNCH_PID=$$\\n"')],
    serves  = ['C10'])


PDesc = T.Rec('PrepDesc', pre_exec=T.Opt(T.List(T.Str)), post_exec=T.Opt(T.List(T.Str)), pre_exec_sync=T.Opt(T.Bool))
REG.optional_keys['PrepDesc'] = {'pre_exec', 'post_exec'}
PTask = T.Rec('PrepTask', uid=T.Str, description=PDesc)

REG.spec('agent/executing/base.py:AgentExecutingComponent._get_prep_exec',
    params  = dict(task=PTask, n_ranks=T.Int, sig=T.Str),
    returns = T.Str,
    locals  = dict(entries=T.List(T.Str), switch_per_rank=T.Bool, sync_ranks_cmd=T.Str),
    calls   = {'ru.as_list': _as_list1},
    requires = ['sig == "pre_exec" or sig == "post_exec"'],
    modifies = [],
    raises  = {},
    ensures = [
      ('every-described-command-is-guarded-a-failing-one-ends-the-script-before-what-follows',
       'implies(sig in task.description, '
       'result == "".join(["%s || rp_error %s\\n" % (x, sig) for x in ru.as_list(task.description[sig])]) + '
       'ite(sig == "pre_exec" and bool(task.description.pre_exec_sync), "rp_sync_ranks %s\\n" % sig, ""))'),
      ('nothing-described-nothing-written', 'implies(sig not in task.description, result == "")'),
    ],
    opts    = dict(merge='scalars'),
    serves  = ['C10'])


# ------------------------------------------------------------------------------
# _get_rp_env: which value goes into which RP_* variable
def _svc_lines(ex, node, st):
    """the loop over td['services'] (RP_INFO_<service> lines from the registry) is
    not under contract: it appends an opaque text that depends on the services"""
    ret = ex.get_var(st, 'ret')
    svc = ex.get_var(st, 'services')
    extra = Val(T.Str, z3.Function('svc!lines', svc.ty.sort(), C.StrSort)(svc.term)) if not isinstance(svc, C.PyTuple) else C.lift('')
    st.env['ret'] = ex.binop(__import__('ast').Add(), ret, extra, st)
    return [('next', st, None)]
_svc_lines.mutates = ('ret',)

def _svc_fn(ex, node, st):
    svc = ex.ev(node.args[0], st)
    if isinstance(svc, C.PyTuple):
        return C.lift('')
    return Val(T.Str, z3.Function('svc!lines', svc.ty.sort(), C.StrSort)(svc.term))
_svc_fn.mutates = ()
REG.constructors['svc_lines'] = _svc_fn

RSelf = dict(_pwd=T.Str, pid=T.Str, sid=T.Str, resource=T.Str, rsbox=T.Str, ssbox=T.Str, psbox=T.Str, gtod=T.Str, prof=T.Str,
             rp_ctrl=T.Str, _reg=T.Map(T.Str, Bridge), session=T.Rec('SessR', reg_addr=T.Str), _prof=T.Rec('ProfR', enabled=T.Bool))

REG.define('rp_sbox(self_pwd, task)',
    'ite(os.path.realpath(task.task_sandbox_path).startswith(self_pwd), '
    '"$RP_PILOT_SANDBOX%s" % os.path.realpath(task.task_sandbox_path)[len(self_pwd):], os.path.realpath(task.task_sandbox_path))')

REG.spec('agent/executing/base.py:AgentExecutingComponent._get_rp_env',
    params  = dict(task=XTask),
    self    = RSelf,
    returns = T.Str,
    locals  = dict(services=T.List(T.Str), sbox=T.Str, name=T.Str),
    calls   = {'os.path.realpath': _realpath},
    stmt_effects = {'for service in services:': _svc_lines},
    requires = ['indom(self._reg, "bridges.control_pubsub")', 'task.description.gpus_per_rank >= 0'],
    modifies = [],
    raises  = {},
    ensures = [
      ('each-rp-variable-carries-the-value-it-is-documented-to-carry',
       'result == "\\n" + '
       '"export RP_TASK_ID=\\"%s\\"\\n" % task.uid + '
       '"export RP_TASK_NAME=\\"%s\\"\\n" % ite(bool(task.name), val(task.name), task.uid) + '
       '"export RP_PILOT_ID=\\"%s\\"\\n" % self.pid + '
       '"export RP_SESSION_ID=\\"%s\\"\\n" % self.sid + '
       '"export RP_RESOURCE=\\"%s\\"\\n" % self.resource + '
       '"export RP_RESOURCE_SANDBOX=\\"%s\\"\\n" % self.rsbox + '
       '"export RP_SESSION_SANDBOX=\\"%s\\"\\n" % self.ssbox + '
       '"export RP_PILOT_SANDBOX=\\"%s\\"\\n" % self.psbox + '
       '"export RP_TASK_SANDBOX=\\"%s\\"\\n" % rp_sbox(self._pwd, task) + '
       '"export RP_REGISTRY_ADDRESS=\\"%s\\"\\n" % self.session.reg_addr + '
       '"export RP_CONTROL_PUB_ADDRESS=%s\\n" % at(self._reg, "bridges.control_pubsub").addr_pub + '
       '"export RP_CONTROL_SUB_ADDRESS=%s\\n" % at(self._reg, "bridges.control_pubsub").addr_sub + '
       '"export RP_CORES_PER_RANK=%d\\n" % task.description.cores_per_rank + '
       '"export RP_GPUS_PER_RANK=%s\\n" % ite(int(task.description.gpus_per_rank) == task.description.gpus_per_rank, '
       '"%d" % task.description.gpus_per_rank, "%f" % task.description.gpus_per_rank) + '
       'svc_lines(services) + '
       '"export RP_GTOD=\\"%s\\"\\n" % self.gtod + "export RP_PROF=\\"%s\\"\\n" % self.prof + "export RP_CTRL=\\"%s\\"\\n" % self.rp_ctrl + '
       'ite(self._prof.enabled, "export RP_PROF_TGT=\\"%s/%s.prof\\"\\n" % (rp_sbox(self._pwd, task), task.uid), "unset  RP_PROF_TGT\\n")'),
    ],
    serves  = ['C10'])


# ------------------------------------------------------------------------------
# Popen._handle_task, the statements that name the task's stdout / stderr files
# (the names _get_launch then redirects to, contract above)
SDesc = T.Rec('StdioDesc', stdout=OStr, stderr=OStr)
STask = T.RecD('StdioTask', dict(uid=T.Str, description=SDesc, task_sandbox_path=T.Str, stdout=OStr, stderr=OStr,
               stdout_file=OStr, stdout_file_short=OStr, stderr_file=OStr, stderr_file_short=OStr))

def _named(k, tid='tid'):
    return 'ite(td.%s is not None and val(td.%s) != "", val(td.%s), "%%s.%s" %% %s)' % (k, k, k, k[3:], tid)

def _stdio_post(k):
    n = _named(k)
    return ('val(task.%(k)s_file) == ite(%(n)s[0] != "/", "%%s/%%s" %% (sbox, %(n)s), %(n)s) and '
            'val(task.%(k)s_file_short) == ite(%(n)s[0] != "/", "$RP_TASK_SANDBOX/%%s" %% %(n)s, %(n)s)') % dict(k=k, n=n)

REG.spec('agent/executing/popen.py:Popen._handle_task#stdio',
    fragment = 'stdout_file',
    fragment_marker = "td.get('stdout')",
    fragment_until  = "task['stderr_file_short']",
    params  = dict(task=STask, td=SDesc, tid=T.Str, sbox=T.Str),
    locals  = dict(stdout_file=T.Str, stderr_file=T.Str),
    modifies = ['task'],
    raises  = {},
    ensures = [
      ('stdout-goes-to-the-described-file-absolute-as-given-relative-inside-the-task-sandbox-default-uid-out', _stdio_post('stdout')),
      ('stderr-goes-to-the-described-file-decided-by-its-own-name', _stdio_post('stderr')),
      ('nothing-else-of-the-task-changes',
       'task.uid == old(task).uid and task.description == old(task).description and task.task_sandbox_path == old(task).task_sandbox_path '
       'and task.stdout == old(task).stdout and task.stderr == old(task).stderr'),
    ],
    serves  = ['C10'])

"""C11: staging directives (staging_directives.py) and the agent-side dispatch."""
import z3
from pyvc import core as C
from pyvc.spec import REG, T
from pyvc.core import Val, fresh
from .types import OStr, OAny
from .effects import ignore_call

SDIn  = T.Rec('SDIn', source=OStr, target=OStr, action=OStr, flags=OAny, priority=OAny, uid=OStr)
REG.optional_keys['SDIn'] = {'source', 'target', 'action', 'flags', 'priority', 'uid'}
SDOut = T.Rec('SDOut', uid=T.Str, source=T.Str, target=T.Str, action=T.Str, flags=T.Any, priority=T.Any)
UrlR  = T.Rec('UrlP', schema=OStr, host=OStr, path=T.Str)


def _as_list(ex, node, st):
    return ex.ev(node.args[0], st)
_as_list.mutates = ()

def _gen_id(ex, node, st):
    return fresh(T.Str, 'sd_uid')
_gen_id.mutates = ()

def _url_of(ex, node, st):
    """ru.Url(x): parsed into schema / host / path (uninterpreted functions of the text)"""
    a = ex.ev(node.args[0], st)
    a = C.coerce(a, OStr) if a.ty != T.Any else a
    srt = a.ty.sort()
    mk = lambda n, r: z3.Function('url!%s!%s' % (n, srt), srt, r)(a.term)
    return Val(UrlR, UrlR.mk(mk('schema', OStr.sort()), mk('host', OStr.sort()), mk('path', C.StrSort)))
_url_of.mutates = ()

def _basename(ex, node, st):
    a = C.coerce(ex.ev(node.args[0], st), T.Str)
    return Val(T.Str, z3.Function('os!basename', C.StrSort, C.StrSort)(a.term))
_basename.mutates = ()

REG.define('default_target(src)', 'os.path.basename(ru.Url(src).path)')

REG.spec('staging_directives.py:expand_staging_directives',
    params   = dict(sds=T.Union(T.List(SDIn), T.List(T.Str)), src_context=T.NoneT, tgt_context=T.NoneT, log=T.NoneT),
    defaults = dict(src_context=None, tgt_context=None, log=None),
    returns  = T.List(SDOut),
    locals   = dict(ret=T.List(SDOut), src=T.Str, tgt=T.Str),
    globals  = dict(DEFAULT_ACTION=T.Str, DEFAULT_FLAGS=T.Any, DEFAULT_PRIORITY=T.Any),
    calls    = {'ru.as_list': _as_list, 'ru.generate_id': _gen_id, 'ru.Url': _url_of, 'os.path.basename': _basename},
    modifies = [],
    raises   = {'ValueError': 'True', 'Exception': 'True'},
    raises_weak = ['ValueError', 'Exception'],
    ensures  = [
      ('one-directive-out-per-directive-in', 'len(result) == len(sds)'),
    ],
    variant_ensures = {
      'sds:List[Rec[SDIn]]': [
        ('dictionary-form-keeps-what-is-given-and-fills-the-documented-defaults',
         'forall(lambda k: implies(0 <= k < len(sds), sds[k].source is not None and result[k].source == val(sds[k].source) and '
         'result[k].target == ite(sds[k].target is None, default_target(sds[k].source), val(sds[k].target)) and '
         'result[k].action == ite(sds[k].action is None, DEFAULT_ACTION, val(sds[k].action))))')],
      'sds:List[Str]': [
        ('short-form-reads-source-and-target-on-the-right-sides-of-the-operator',
         'forall(lambda k: implies(0 <= k < len(sds), result[k].action == DEFAULT_ACTION and '
         'ite(">>" in sds[k], result[k].source == sds[k].split(">>", 2)[0].strip() and result[k].target == sds[k].split(">>", 2)[1].strip(), '
         'ite(">" in sds[k], result[k].source == sds[k].split(">", 2)[0].strip() and result[k].target == sds[k].split(">", 2)[1].strip(), '
         'ite("<<" in sds[k], result[k].target == sds[k].split("<<", 2)[0].strip() and result[k].source == sds[k].split("<<", 2)[1].strip(), '
         'ite("<" in sds[k], result[k].target == sds[k].split("<", 2)[0].strip() and result[k].source == sds[k].split("<", 2)[1].strip(), '
         'result[k].source == sds[k].strip() and result[k].target == default_target(sds[k]).strip()))))))')],
    },
    loops = {'1': ['len(ret) == i_sd']},
    variant_loops = {
      'sds:List[Rec[SDIn]]': {'1': [
         'forall(lambda k: implies(0 <= k < i_sd, sds[k].source is not None and ret[k].source == val(sds[k].source) and '
         'ret[k].target == ite(sds[k].target is None, default_target(sds[k].source), val(sds[k].target)) and '
         'ret[k].action == ite(sds[k].action is None, DEFAULT_ACTION, val(sds[k].action))))']},
      'sds:List[Str]': {'1': [
         'forall(lambda k: implies(0 <= k < i_sd, ret[k].action == DEFAULT_ACTION and '
         'ite(">>" in sds[k], ret[k].source == sds[k].split(">>", 2)[0].strip() and ret[k].target == sds[k].split(">>", 2)[1].strip(), '
         'ite(">" in sds[k], ret[k].source == sds[k].split(">", 2)[0].strip() and ret[k].target == sds[k].split(">", 2)[1].strip(), '
         'ite("<<" in sds[k], ret[k].target == sds[k].split("<<", 2)[0].strip() and ret[k].source == sds[k].split("<<", 2)[1].strip(), '
         'ite("<" in sds[k], ret[k].target == sds[k].split("<", 2)[0].strip() and ret[k].source == sds[k].split("<", 2)[1].strip(), '
         'ret[k].source == sds[k].strip() and ret[k].target == default_target(sds[k]).strip()))))))']},
    },
    opts    = dict(merge='scalars'),
    serves  = ['C11'])


# ------------------------------------------------------------------------------
# complete_url: a path or URL with one of the sandbox schemas is placed below the
# location the context gives for that schema
def _getcwd(ex, node, st):
    return fresh(T.Str, 'cwd')
_getcwd.mutates = ()

REG.define('eff_schema(p)',
    'ite(bool(ru.Url(p).schema), val(ru.Url(p).schema), ite(str(p).startswith("/"), "file", "pwd"))')

REG.spec('staging_directives.py:complete_url',
    params   = dict(path=T.Str, context=T.Map(T.Str, T.Str), log=T.NoneT),
    defaults = dict(log=None),
    returns  = UrlR,
    locals   = dict(purl=UrlR, ret=UrlR, expand=T.Bool, str_path=T.Str),
    calls    = {'ru.Url': _url_of, 'os.getcwd': _getcwd},
    modifies = [],
    raises   = {'ValueError': 'indom(context, eff_schema(path)) and bool(ru.Url(path).host)'},
    ensures  = [
      ('a-schema-the-context-does-not-know-is-left-alone',
       'implies(not indom(context, eff_schema(path)), result.path == ru.Url(path).path and result.host == ru.Url(path).host and '
       'result.schema == eff_schema(path))'),
      ('file-urls-are-absolute-and-left-alone',
       'implies(indom(context, eff_schema(path)) and eff_schema(path) == "file", result.path == ru.Url(path).path and result.schema == "file")'),
      ('sandbox-schemas-are-placed-below-the-location-the-context-names',
       'implies(indom(context, eff_schema(path)) and eff_schema(path) != "file", '
       'result.path == ru.Url(at(context, eff_schema(path))).path + "/%s" % ru.Url(path).path and '
       'result.schema == ru.Url(at(context, eff_schema(path))).schema and result.host == ru.Url(at(context, eff_schema(path))).host)'),
    ],
    serves   = ['C11'])


# ------------------------------------------------------------------------------
# agent input stager: every directive with an action it is responsible for is
# carried out - one staging operation each, on the completed URLs
SDA   = T.Rec('SDA', uid=OStr, source=T.Str, target=OStr, action=T.Str, flags=T.Opt(T.Int), priority=OAny)
REG.optional_keys['SDA'] = {'flags'}
OpEvt = T.Rec('StageOp', kind=T.Str, source=T.Opt(UrlR), target=T.Opt(UrlR), path=OStr)
Ctx   = T.Map(T.Str, T.Str)


def _stage_op(ex, node, st):
    """self._stager.handle_staging_directive({...}): ghost log of operations"""
    d = ex.ev(node.args[0], st)
    items = d.items
    log = ex.get_var(st, 'ops')
    lty = log.ty
    n = lty.len(log.term)
    O = T.Opt(UrlR)
    ev = OpEvt.mk(C.coerce(items['action'], T.Str).term, C.coerce(items['source'], O).term,
                  C.coerce(items['target'], O).term, OStr.none())
    st.env['ops'] = Val(lty, lty.mk(z3.Store(lty.arr(log.term), n, ev), n + 1))
    return C.NONE
_stage_op.mutates = ('ops',)

def _tar_open(ex, node, st):
    p = C.coerce(ex.ev(node.args[0], st), T.Str)
    log = ex.get_var(st, 'ops')
    lty = log.ty
    n = lty.len(log.term)
    O = T.Opt(UrlR)
    ev = OpEvt.mk(C.lift('untar').term, O.none(), O.none(), OStr.some(p.term))
    st.env['ops'] = Val(lty, lty.mk(z3.Store(lty.arr(log.term), n, ev), n + 1))
    return fresh(T.Any, 'tar')
_tar_open.mutates = ('ops',)

def _path_pred(name):
    def h(ex, node, st):
        a = C.coerce(ex.ev(node.args[0], st), T.Str)
        return Val(T.Bool, z3.Function('os!%s' % name, C.StrSort, z3.BoolSort())(a.term))
    h.mutates = ()
    return h

def _path_join(ex, node, st):
    a = [C.coerce(ex.ev(x, st), T.Str) for x in node.args]
    return Val(T.Str, z3.Function('os!join', C.StrSort, C.StrSort, C.StrSort)(a[0].term, a[1].term))
_path_join.mutates = ()

def _complete_url(ex, node, st):
    """complete_url(x, context, self._log) by its contract; the logger argument
    (only used for debug output) is left out"""
    import ast
    from pyvc.calls import call_contract
    call = ast.Call(func=node.func, args=list(node.args[:2]), keywords=[])
    ast.copy_location(call, node)
    return call_contract(ex, st, ex.reg.get('staging_directives.py:complete_url'), call)
_complete_url.mutates = ()


def _note_op(ex, node, st):
    """ghost code after a staging operation: which operation serves directive i_sd"""
    m   = ex.get_var(st, 'oppos')
    log = ex.get_var(st, 'ops')
    i   = ex.get_var(st, 'i_sd')
    st.env['oppos'] = Val(m.ty, m.ty.mk(z3.Store(m.ty.val(m.term), i.term, log.ty.len(log.term) - 1), m.ty.dom(m.term)))
_note_op.mutates = ('oppos',)

REG.define('local_in_action(a)', 'a == rpc.COPY or a == rpc.LINK or a == rpc.MOVE or a == rpc.TARBALL or a == rpc.DOWNLOAD')
REG.define('served(sd, op, sbox, uid)',
    'ite(sd.action == rpc.TARBALL, op.kind == "untar" and op.path == "%s/%s.tar" % (sbox.path, uid), '
    'op.kind == sd.action and op.source is not None and op.target is not None)')

REG.spec('agent/staging_input/default.py:Default._handle_task_staging#dispatch',
    fragment = 'for sd in actionables:',
    params   = dict(actionables=T.List(SDA), src_context=Ctx, tgt_context=Ctx, task_sandbox=UrlR, uid=T.Str),
    ghost    = dict(ops=T.List(OpEvt), oppos=T.Map(T.Int, T.Int)),
    locals   = dict(action=T.Str, did=OStr, flags=T.Int, tarball=T.Str, tar=T.Any),
    calls    = {'complete_url': _complete_url, 'tarfile.open': _tar_open,
                'os.path.exists': _path_pred('exists'), 'os.path.isdir': _path_pred('isdir'),
                'os.path.basename': _basename, 'os.path.join': _path_join, 'ru.Url': _url_of},
    effects  = {'self._stager.handle_staging_directive': _stage_op, 'tar.extractall': ignore_call, 'tar.close': ignore_call},
    stmt_ghost = {"self._stager.handle_staging_directive({'source': src,": _note_op, 'tar = tarfile.open(tarball)': _note_op},
    modifies = ['ops', 'oppos'],
    raises   = {'ValueError': 'True', 'AssertionError': 'True'},
    raises_weak = ['ValueError', 'AssertionError'],
    frame_on_raise = False,
    ensures  = [
      ('every-directive-with-a-local-action-is-carried-out',
       'forall(lambda k: implies(0 <= k < len(actionables) and local_in_action(actionables[k].action), '
       'len(old(ops)) <= at(oppos, k) < len(ops) and served(actionables[k], ops[at(oppos, k)], task_sandbox, uid)))'),
      ('one-operation-each',
       'forall(lambda j, k: implies(0 <= j < k < len(actionables) and local_in_action(actionables[j].action) and '
       'local_in_action(actionables[k].action), at(oppos, j) < at(oppos, k)))'),
      ('earlier-operations-stay', 'forall(lambda m: implies(0 <= m < len(old(ops)), ops[m] == old(ops)[m])) and len(ops) >= len(old(ops))'),
    ],
    loops = {'1': ['len(ops) >= len(old(ops))', 'forall(lambda m: implies(0 <= m < len(old(ops)), ops[m] == old(ops)[m]))',
                   'forall(lambda k: implies(0 <= k < i_sd and local_in_action(actionables[k].action), '
                   'len(old(ops)) <= at(oppos, k) < len(ops) and served(actionables[k], ops[at(oppos, k)], task_sandbox, uid)))',
                   'forall(lambda j, k: implies(0 <= j < k < i_sd and local_in_action(actionables[j].action) and '
                   'local_in_action(actionables[k].action), at(oppos, j) < at(oppos, k)))']},
    opts     = dict(merge='scalars'),
    serves   = ['C11'])


# ------------------------------------------------------------------------------
# client output stager, the triage loop of Default.work: which tasks get their
# TRANSFER directives carried out
ODesc = T.Rec('ODesc', output_staging=T.Opt(T.List(SDA)), stage_on_error=T.Opt(T.Bool))
REG.optional_keys['ODesc'] = {'output_staging', 'stage_on_error'}
OTask = T.Rec('OTask', uid=T.Str, target_state=OStr, description=ODesc, state=OStr)
REG.optional_keys['OTask'] = {'target_state', 'state'}
Staged = T.List(T.Tuple(OTask, T.List(SDA)))

def _note_triage(which):
    def h(ex, node, st):
        m = ex.get_var(st, which)
        lst = ex.ev(node.value.func.value, st)
        i = ex.get_var(st, 'i_task')
        st.env[which] = Val(m.ty, m.ty.mk(z3.Store(m.ty.val(m.term), i.term, lst.ty.len(lst.term) - 1), m.ty.dom(m.term)))
    h.mutates = (which,)
    return h

REG.define('has_transfer(t)',
    't.description.output_staging is not None and '
    'exists(lambda j: 0 <= j < len(val(t.description.output_staging)) and val(t.description.output_staging)[j].action == rpc.TRANSFER)')
REG.define('wants_output(t)', 'not bool(t.target_state) or t.target_state == DONE or bool(t.description.stage_on_error)')

REG.spec('tmgr/staging_output/default.py:Default.work#triage',
    fragment = 'for task in tasks:',
    params   = dict(tasks=T.List(OTask), no_staging_tasks=T.List(OTask), staging_tasks=Staged),
    ghost    = dict(npos=T.Map(T.Int, T.Int), spos=T.Map(T.Int, T.Int)),
    locals   = dict(target_state=OStr, actionables=T.List(SDA)),
    stmt_ghost = {'no_staging_tasks.append(task)': _note_triage('npos'), 'staging_tasks.append([task, actionables])': _note_triage('spos')},
    requires = ['len(no_staging_tasks) == 0', 'len(staging_tasks) == 0'],
    modifies = ['no_staging_tasks', 'staging_tasks', 'npos', 'spos'],
    raises   = {},
    ensures  = [
      ('every-task-is-either-staged-or-passed-on', 'len(no_staging_tasks) + len(staging_tasks) == len(tasks)'),
      ('a-failed-task-is-staged-only-if-staging-on-error-was-requested',
       'forall(lambda m: implies(0 <= m < len(staging_tasks), wants_output(staging_tasks[m][0]) and has_transfer(staging_tasks[m][0])))'),
      ('a-task-that-wants-output-and-has-transfer-directives-is-staged-with-exactly-those',
       'forall(lambda k: implies(0 <= k < len(tasks) and wants_output(tasks[k]) and has_transfer(tasks[k]), '
       '0 <= at(spos, k) < len(staging_tasks) and staging_tasks[at(spos, k)][0] == tasks[k] and '
       'forall(lambda j: implies(0 <= j < len(staging_tasks[at(spos, k)][1]), staging_tasks[at(spos, k)][1][j].action == rpc.TRANSFER))))'),
    ],
    loops = {'1': ['len(no_staging_tasks) + len(staging_tasks) == i_task', 'tasks == old(tasks)',
                   'forall(lambda m: implies(0 <= m < len(staging_tasks), wants_output(staging_tasks[m][0]) and has_transfer(staging_tasks[m][0])))',
                   'forall(lambda k: implies(0 <= k < i_task and wants_output(tasks[k]) and has_transfer(tasks[k]), '
                   '0 <= at(spos, k) < len(staging_tasks) and staging_tasks[at(spos, k)][0] == tasks[k] and '
                   'forall(lambda j: implies(0 <= j < len(staging_tasks[at(spos, k)][1]), staging_tasks[at(spos, k)][1][j].action == rpc.TRANSFER))))'],
             '1.1': ['forall(lambda j: implies(0 <= j < len(actionables), actionables[j].action == rpc.TRANSFER))',
                     'len(actionables) > 0 or not exists(lambda j: 0 <= j < i_sd and val(task.description.output_staging)[j].action == rpc.TRANSFER)',
                     'implies(len(actionables) > 0, task.description.output_staging is not None and '
                     'exists(lambda j: 0 <= j < i_sd and val(task.description.output_staging)[j].action == rpc.TRANSFER))',
                     'no_staging_tasks == at_head("1", no_staging_tasks)', 'staging_tasks == at_head("1", staging_tasks)']},
    opts     = dict(merge='scalars'),
    serves   = ['C11'])


# ------------------------------------------------------------------------------
# client output stager: what state a task is handed on with (C05: the final state
# the application sees is the outcome the agent determined, whatever was staged)
OAdv = T.Rec('OAdv', uid=T.Str, state=OStr)

def _o_advance(ex, node, st):
    """self.advance(things, state=None, publish=.., push=..) (A12): sets the state if
    one is given, and reports each thing once with the state it then has"""
    import ast as _ast
    things = ex.ev(node.args[0], st)
    snode = node.args[1] if len(node.args) > 1 else next((k.value for k in node.keywords if k.arg == 'state'), None)
    state = C.coerce(ex.ev(snode, st), OStr) if snode is not None else None
    log = ex.get_var(st, 'adv_log')
    lty = log.ty
    l0 = lty.len(log.term)
    if isinstance(things.ty, C.TRec):
        if state is not None:
            p = ex.ev_path(node.args[0], st)
            ex.write_path(st, p[0], p[1] + (('f', 'state'),), state)
            things = ex.read_path(st, *p)
        e = OAdv.mk(things.ty.get(things.term, 'uid'), things.ty.get(things.term, 'state'))
        st.env['adv_log'] = Val(lty, lty.mk(z3.Store(lty.arr(log.term), l0, e), l0 + 1))
        return C.NONE
    if state is not None:
        raise C.OutsideSubset('bulk advance with a state')
    n = things.ty.len(things.term)
    i = z3.Int(C.fresh_name('i'))
    out = ex.fresh_wf(st, lty, 'adv_log')
    st.assume(lty.len(out.term) == l0 + n)
    st.assume(z3.ForAll([i], z3.Implies(z3.And(0 <= i, i < l0),
              z3.Select(lty.arr(out.term), i) == z3.Select(lty.arr(log.term), i))))
    el = z3.Select(things.ty.arr(things.term), i - l0)
    st.assume(z3.ForAll([i], z3.Implies(z3.And(l0 <= i, i < l0 + n),
              z3.Select(lty.arr(out.term), i) == OAdv.mk(things.ty.elem.get(el, 'uid'), things.ty.elem.get(el, 'state'))),
              patterns=[z3.Select(lty.arr(out.term), i)]))
    st.env['adv_log'] = out
    return C.NONE
_o_advance.mutates = ('adv_log',)

_OUT = 'tmgr/staging_output/default.py:Default.'

REG.spec(_OUT + '_handle_task#final',
    fragment = 'after the staging loop',
    fragment_after = 'for sd in actionables:',
    params   = dict(task=OTask),
    ghost    = dict(adv_log=T.List(OAdv)),
    effects  = {'self.advance': _o_advance},
    modifies = ['task', 'adv_log'],
    raises   = {'KeyError': 'False'},
    ensures  = [
      ('a-staged-task-is-handed-on-once-with-the-outcome-the-agent-determined',
       'len(adv_log) == len(old(adv_log)) + 1 and adv_log[len(old(adv_log))].uid == old(task).uid and '
       'adv_log[len(old(adv_log))].state == old(task).target_state and task.state == old(task).target_state'),
      ('the-outcome-itself-is-not-rewritten', 'task.target_state == old(task).target_state and task.uid == old(task).uid'),
    ],
    serves   = ['C05', 'C11'])

REG.spec(_OUT + 'work#pass-on',
    fragment = 'if no_staging_tasks:',
    params   = dict(no_staging_tasks=T.List(OTask)),
    ghost    = dict(adv_log=T.List(OAdv)),
    effects  = {'self.advance': _o_advance},
    modifies = ['no_staging_tasks', 'adv_log'],
    raises   = {},
    ensures  = [
      ('every-task-without-staging-is-handed-on-once-with-the-outcome-the-agent-determined',
       'len(adv_log) == len(old(adv_log)) + len(no_staging_tasks) and len(no_staging_tasks) == len(old(no_staging_tasks)) and '
       'forall(lambda k: implies(0 <= k < len(no_staging_tasks), adv_log[len(old(adv_log)) + k].uid == old(no_staging_tasks)[k].uid and '
       'adv_log[len(old(adv_log)) + k].state == old(no_staging_tasks)[k].target_state))'),
    ],
    loops = {'1': ['len(no_staging_tasks) == len(old(no_staging_tasks))', 'adv_log == old(adv_log)',
                   'forall(lambda k: implies(0 <= k < len(no_staging_tasks), no_staging_tasks[k].uid == old(no_staging_tasks)[k].uid and '
                   'no_staging_tasks[k].target_state == old(no_staging_tasks)[k].target_state))',
                   'forall(lambda k: implies(0 <= k < i_task, no_staging_tasks[k].state == old(no_staging_tasks)[k].target_state))']},
    serves   = ['C05', 'C11'])


def _o_handle_task(ex, node, st):
    """self._handle_task(task, actionables): the staging operations may raise (then
    nothing was reported and the task is unchanged: the reporting statements are
    the last of the function); otherwise the function ends with its reporting
    statements, by their contract (_handle_task#final above)"""
    import ast
    from pyvc.calls import call_contract
    e = st.fork(); e.guards = []
    e.env = dict(e.env)
    e.env['stage_failed'] = Val(T.Bool, z3.BoolVal(True))
    ex.exits.append(('Exception', e, ex.cur_line))
    call = ast.Call(func=node.func, args=list(node.args[:1]), keywords=[])
    ast.copy_location(call, node)
    return call_contract(ex, st, ex.reg.get(_OUT + '_handle_task#final'), call)
_o_handle_task.mutates = ('task', 'adv_log', 'stage_failed')

REG.spec(_OUT + 'work#staged',
    fragment = 'try:',
    params   = dict(task=OTask, actionables=T.List(SDA)),
    ghost    = dict(adv_log=T.List(OAdv), stage_failed=T.Bool),
    calls    = {'self._handle_task': _o_handle_task},
    effects  = {'self.advance': _o_advance},
    requires = ['not stage_failed'],
    modifies = ['task', 'adv_log', 'stage_failed'],
    raises   = {},
    no_raise_is_property = True,
    ensures  = [
      ('a-staged-task-ends-with-the-outcome-the-agent-determined-or-failed-if-staging-broke',
       'task.state == ite(stage_failed, FAILED, old(task).target_state)'),
      ('it-is-reported-and-every-report-says-the-state-it-ends-with',
       'len(adv_log) > len(old(adv_log)) and forall(lambda k: implies(len(old(adv_log)) <= k < len(adv_log), '
       'adv_log[k].uid == old(task).uid and adv_log[k].state == task.state))'),
      ('earlier-reports-kept', 'forall(lambda k: implies(0 <= k < len(old(adv_log)), adv_log[k] == old(adv_log)[k]))'),
    ],
    serves   = ['C05', 'C11'])


# ------------------------------------------------------------------------------
# agent output stager, the triage loop of Default.work: every task of a bulk is
# failed, passed on, or staged with exactly its OWN copy / link / move directives
AODesc = T.Rec('AODesc', output_staging=T.Opt(T.List(SDA)), stage_on_error=T.Opt(T.Bool))
REG.optional_keys['AODesc'] = {'output_staging', 'stage_on_error'}
AOTask = T.RecD('AOTask', {'uid': T.Str, 'state': OStr, 'target_state': OStr, 'description': AODesc,
                           '$all': T.Opt(T.Bool), 'control': OStr, 'exception': OAny, 'exception_detail': OAny})
REG.optional_keys['AOTask'] = {'state', '$all', 'control', 'exception', 'exception_detail'}
AOStaged = T.List(T.Tuple(AOTask, T.List(SDA)))

def _ao_stdio(ex, node, st):
    """self._handle_task_stdio(task): reads the task's stdout / stderr files; may raise"""
    e = st.fork(); e.guards = []
    ex.exits.append(('Exception', e, ex.cur_line))
    return C.NONE
_ao_stdio.mutates = ()

def _ao_trace(ex, node, st):
    return Val(T.List(T.Str), z3.Const(C.fresh_name('trace'), T.List(T.Str).sort()))
_ao_trace.mutates = ()

REG.define('ao_local(a)', 'a == rpc.LINK or a == rpc.COPY or a == rpc.MOVE')
REG.define('ao_own(t, ds)',
    'forall(lambda j: implies(0 <= j < len(ds), ao_local(ds[j].action) and t.description.output_staging is not None and '
    'exists(lambda i: 0 <= i < len(val(t.description.output_staging)) and val(t.description.output_staging)[i] == ds[j]))) and '
    'implies(t.description.output_staging is not None, forall(lambda i: implies(0 <= i < len(val(t.description.output_staging)) and '
    'ao_local(val(t.description.output_staging)[i].action), exists(lambda j: 0 <= j < len(ds) and ds[j] == val(t.description.output_staging)[i]))))')

REG.spec('agent/staging_output/default.py:Default.work#triage',
    fragment = 'for task in ru.as_list(tasks):',
    # `actionables` is a free variable of the statement: a version that fills it across
    # iterations (or before the loop) fails the postcondition instead of the shape check
    params   = dict(tasks=T.List(AOTask), no_staging_tasks=T.List(AOTask), staging_tasks=AOStaged, actionables=T.List(SDA)),
    ghost    = dict(adv_log=T.List(OAdv)),
    locals   = dict(uid=T.Str, actionables=T.List(SDA)),
    calls    = {'ru.as_list': lambda ex, node, st: ex.ev(node.args[0], st), 'self._handle_task_stdio': _ao_stdio,
                'ru.get_exception_trace': _ao_trace, 'pprint.pformat': lambda ex, node, st: Val(T.Str, z3.Const(C.fresh_name('pp'), C.StrSort))},
    effects  = {'self.advance': _o_advance},
    requires = ['len(no_staging_tasks) == 0', 'len(staging_tasks) == 0'],
    modifies = ['no_staging_tasks', 'staging_tasks', 'adv_log', 'actionables'],
    raises   = {},
    no_raise_is_property = True,
    ensures  = [
      ('every-task-of-the-bulk-is-failed-passed-on-or-staged-exactly-one',
       'len(no_staging_tasks) + len(staging_tasks) + (len(adv_log) - len(old(adv_log))) == len(tasks)'),
      ('a-task-is-staged-with-exactly-its-own-copy-link-move-directives',
       'forall(lambda m: implies(0 <= m < len(staging_tasks), len(staging_tasks[m][1]) > 0 and ao_own(staging_tasks[m][0], staging_tasks[m][1])))'),
      ('a-task-that-failed-without-stage-on-error-is-not-staged',
       'forall(lambda m: implies(0 <= m < len(staging_tasks), staging_tasks[m][0].target_state == DONE or '
       'bool(staging_tasks[m][0].description.stage_on_error)))'),
      ('a-task-whose-preparation-raised-is-reported-failed',
       'forall(lambda k: implies(len(old(adv_log)) <= k < len(adv_log), adv_log[k].state == FAILED))'),
    ],
    loops = {'1': ['len(no_staging_tasks) + len(staging_tasks) + (len(adv_log) - len(old(adv_log))) == i_task',
                   'len(adv_log) >= len(old(adv_log))',
                   'forall(lambda m: implies(0 <= m < len(staging_tasks), len(staging_tasks[m][1]) > 0 and ao_own(staging_tasks[m][0], staging_tasks[m][1])))',
                   'forall(lambda m: implies(0 <= m < len(staging_tasks), staging_tasks[m][0].target_state == DONE or '
                   'bool(staging_tasks[m][0].description.stage_on_error)))',
                   'forall(lambda k: implies(len(old(adv_log)) <= k < len(adv_log), adv_log[k].state == FAILED))'],
             '1.1': ['no_staging_tasks == at_head("1", no_staging_tasks)', 'staging_tasks == at_head("1", staging_tasks)',
                     'adv_log == at_head("1", adv_log)', 'task.description == at_head("1", task).description',
                     'task.target_state == at_head("1", task).target_state',
                     'forall(lambda j: implies(0 <= j < len(actionables), ao_local(actionables[j].action) and '
                     'exists(lambda i: 0 <= i < i_sd and val(task.description.output_staging)[i] == actionables[j])))',
                     'forall(lambda i: implies(0 <= i < i_sd and ao_local(val(task.description.output_staging)[i].action), '
                     'exists(lambda j: 0 <= j < len(actionables) and actionables[j] == val(task.description.output_staging)[i])))']},
    opts     = dict(merge='scalars'),
    serves   = ['C11', 'C05'])

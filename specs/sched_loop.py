"""C04 / C08: the agent scheduler's loop (agent/scheduler/base.py): what happens
to every task handed to it.

Ghost state `fate: uid -> 0 none | 1 started | 2 failed | 3 canceled`: every
`self.advance(.., AGENT_EXECUTING_PENDING | FAILED | CANCELED, ..)` is a *report*
and carries the obligation that the task had no fate yet (reported at most
once), and for `started` that it carries a placement and is pushed on.
"""
import z3
from pyvc import core as C
from pyvc.spec import REG, T
from pyvc.core import Val, fresh, coerce, TList, TOpt, PyTuple
from .types import OStr, OAny
from .effects import ignore_call, nondet_bool
from .sched_agent import ATask, ATaskL, NodeL, RM, _sched_self, _sched_task_requires

Fate   = T.Map(T.Str, T.Int)
Pool   = T.Map(T.Str, ATask)
WPool  = T.DefMap(T.Int, Pool)
StrL   = T.List(T.Str)
NONE_, STARTED, FAILED_, CANCELED_ = 0, 1, 2, 3
REG.consts.update(F_NONE=0, F_STARTED=1, F_FAILED=2, F_CANCELED=3)

_FATE_OF = {'AGENT_EXECUTING_PENDING': STARTED, 'FAILED': FAILED_, 'CANCELED': CANCELED_}


def _kw(node, name):
    for k in node.keywords:
        if k.arg == name:
            return k.value
    return None


def _s_advance(ex, node, st):
    """self.advance(things, state, publish=, push=) in the scheduler: a report if
    state is AGENT_EXECUTING_PENDING, FAILED or CANCELED"""
    things = ex.ev(node.args[0], st)
    state  = ex.ev(node.args[1], st)
    if not state.has_py():
        raise C.OutsideSubset('advance with a symbolic state')
    code = _FATE_OF.get(state.py)
    if code is None:
        return C.NONE
    fate = ex.get_var(st, 'fate')
    fty  = fate.ty
    fval = fty.val(fate.term)
    push = _kw(node, 'push')
    pushed = ex.ev(push, st) if push is not None else C.lift(False)
    if isinstance(things, PyTuple):
        things = coerce(things, ATaskL)
    if isinstance(things.ty, TList):
        ety = things.ty.elem
        n = things.ty.len(things.term)
        i, j = z3.Int(C.fresh_name('i')), z3.Int(C.fresh_name('j'))
        el = lambda x: z3.Select(things.ty.arr(things.term), x)
        uid = lambda x: ety.get(el(x), 'uid')
        ex.oblige(st, 'reported-at-most-once:bulk@L%s' % ex.cur_line,
                  z3.And(z3.ForAll([i], z3.Implies(z3.And(0 <= i, i < n), z3.Select(fval, uid(i)) == 0)),
                         z3.ForAll([i, j], z3.Implies(z3.And(0 <= i, i < j, j < n), uid(i) != uid(j)))),
                  'post', note='no task of the bulk was reported (started / failed / canceled) before, and none is in it twice')
        if code == STARTED:
            sl = ety.fields['slots']
            ex.oblige(st, 'started-with-a-placement:bulk@L%s' % ex.cur_line,
                      z3.And(C.truthy(pushed), z3.ForAll([i], z3.Implies(z3.And(0 <= i, i < n), sl.is_some(ety.get(el(i), 'slots'))))),
                      'post', note='a task passed on for execution carries its placement and is pushed to the executor')
        new = ex.fresh_wf(st, fty, 'fate')
        u = z3.Const(C.fresh_name('u'), C.StrSort)
        nv = fty.val(new.term)
        st.assume(z3.ForAll([u], z3.Select(nv, u) == z3.If(
                  z3.Exists([i], z3.And(0 <= i, i < n, uid(i) == u)), z3.IntVal(code), z3.Select(fval, u))))
        # ground version for the elements (helps instantiation)
        st.assume(z3.ForAll([i], z3.Implies(z3.And(0 <= i, i < n), z3.Select(nv, uid(i)) == code),
                  patterns=[uid(i)]))
        st.env['fate'] = new
        return C.NONE
    ty = things.ty
    uid = ty.get(things.term, 'uid')
    ex.oblige(st, 'reported-at-most-once@L%s' % ex.cur_line, z3.Select(fval, uid) == 0, 'post',
              note='the task was not reported (started / failed / canceled) before')
    if code == STARTED:
        sl = ty.fields['slots']
        ex.oblige(st, 'started-with-a-placement@L%s' % ex.cur_line,
                  z3.And(C.truthy(pushed), sl.is_some(ty.get(things.term, 'slots'))), 'post',
                  note='a task passed on for execution carries its placement and is pushed to the executor')
    st.env['fate'] = Val(fty, fty.mk(z3.Store(fval, uid, z3.IntVal(code)), fty.dom(fate.term)))
    return C.NONE
_s_advance.mutates = ('fate',)

_ghost = dict(fate=Fate)

# the wait pool: {priority: {uid: task}}; a uid waits in at most one pool, under
# its own uid, and a waiting task has not been reported
# the ghost map is total (its domain component is not used)
REG.define('same_fate(a, b)', 'forall(lambda u: at(a, u) == at(b, u), Str)')
REG.define('inpool(wp, p, u)', 'indom(wp, p) and indom(at(wp, p), u)')
REG.define('wp_inv(wp, fate)',
    'forall(lambda p, u: implies(inpool(wp, p, u), at(at(wp, p), u).uid == u and at(fate, u) == F_NONE), Int, Str) and '
    'forall(lambda p, q, u: implies(inpool(wp, p, u) and inpool(wp, q, u), p == q), Int, Int, Str)')

# ------------------------------------------------------------------------------
# C08 / C04: a cancel request reaching the scheduler loop
REG.spec('agent/scheduler/base.py:AgentSchedulingComponent._schedule_incoming#cancel',
    fragment = 'if flag == self._CANCEL:',
    params   = dict(flag=T.Int, data=StrL),
    self     = dict(_waitpool=WPool, _CANCEL=T.Int),
    ghost    = _ghost,
    locals   = dict(to_cancel=ATaskL, task=T.Opt(ATask)),
    effects  = {'self.advance': _s_advance},
    requires = ['flag == self._CANCEL', 'wp_inv(self._waitpool, fate)'],
    modifies = ['self._waitpool', 'fate'],
    raises   = {},
    ensures  = [
      ('pool-invariant-kept', 'wp_inv(self._waitpool, fate)'),
      ('bystanders-keep-waiting',
       'forall(lambda p, u: implies(not in_list(data, u), inpool(self._waitpool, p, u) == inpool(old(self._waitpool), p, u) and '
       'implies(inpool(self._waitpool, p, u), at(at(self._waitpool, p), u) == at(at(old(self._waitpool), p), u))), Int, Str)'),
      ('named-waiting-tasks-leave-the-pool-and-are-canceled',
       'forall(lambda p, u: implies(in_list(data, u) and inpool(old(self._waitpool), p, u), '
       'not inpool(self._waitpool, p, u) and at(fate, u) == F_CANCELED), Int, Str)'),
      ('nobody-else-is-reported',
       'forall(lambda u: implies(at(fate, u) != at(old(fate), u), in_list(data, u) and '
       'exists(lambda p: inpool(old(self._waitpool), p, u), Int)), Str)'),
      ('nothing-enters-the-pool',
       'forall(lambda p, u: implies(inpool(self._waitpool, p, u), inpool(old(self._waitpool), p, u) and '
       'at(at(self._waitpool, p), u) == at(at(old(self._waitpool), p), u)), Int, Str)'),
    ],
    loops = {
      '1': ['same_fate(fate, old(fate))',
            'forall(lambda p, u: implies(inpool(self._waitpool, p, u), inpool(old(self._waitpool), p, u) and '
            'at(at(self._waitpool, p), u) == at(at(old(self._waitpool), p), u)), Int, Str)',
            # removed <=> collected in to_cancel
            'forall(lambda p, u: implies(inpool(old(self._waitpool), p, u) and not inpool(self._waitpool, p, u), '
            'exists(lambda j: 0 <= j < i_uid and data[j] == u) and '
            'exists(lambda k: 0 <= k < len(to_cancel) and to_cancel[k].uid == u)), Int, Str)',
            'forall(lambda k: implies(0 <= k < len(to_cancel), exists(lambda p: inpool(old(self._waitpool), p, to_cancel[k].uid) and '
            'not inpool(self._waitpool, p, to_cancel[k].uid), Int)))',
            'forall(lambda k, k2: implies(0 <= k < k2 < len(to_cancel), to_cancel[k].uid != to_cancel[k2].uid))',
            'forall(lambda j, p: implies(0 <= j < i_uid, not inpool(self._waitpool, p, data[j])), Int, Int)'],
      '1.1': ['self._waitpool == at_head("1", self._waitpool)', 'to_cancel == at_head("1", to_cancel)', 'same_fate(fate, old(fate))',
              'forall(lambda j: implies(0 <= j < i_priority, not inpool(self._waitpool, keys_priority[j], uid)))'],
    },
    opts   = dict(merge='scalars'),
    serves = ['C04', 'C08'])


# ------------------------------------------------------------------------------
# small pieces
def _repr(ex, node, st):
    ex.ev(node.args[0], st)
    return fresh(T.Str, 'repr')
_repr.mutates = ()

REG.spec('agent/scheduler/base.py:AgentSchedulingComponent._fail_task',
    params   = dict(task=ATask, e=T.Any, detail=T.Any),
    ghost    = _ghost,
    effects  = {'self.advance': _s_advance, 'repr': _repr},
    requires = ['at(fate, task.uid) == F_NONE'],
    modifies = ['task', 'fate'],
    raises   = {},
    ensures  = [
      ('reported-failed', 'at(fate, task.uid) == F_FAILED'),
      ('nobody-else', 'forall(lambda u: implies(u != task.uid, at(fate, u) == at(old(fate), u)), Str)'),
      ('error-recorded-on-the-task', 'task.exception is not None and task.exception_detail is not None'),
      ('request-kept', 'task.uid == old(task.uid) and task.description == old(task.description) and task.slots == old(task.slots)'),
    ],
    serves = ['C04', 'C05'])

REG.spec('agent/scheduler/base.py:AgentSchedulingComponent._set_tuple_size',
    params   = dict(task=ATask),
    modifies = ['task'],
    raises   = {},
    ensures  = ['task.tuple_size is not None',
                'val(task.tuple_size)[0] == task.description.ranks',
                'val(task.tuple_size)[1] == task.description.cores_per_rank',
                'val(task.tuple_size)[2] == task.description.gpus_per_rank',
                'task.uid == old(task.uid) and task.description == old(task.description) and task.slots == old(task.slots) '
                'and task.raptor_seen == old(task.raptor_seen) and task.state == old(task.state)'],
    serves = ['C04'])


QItem = T.Rec('QItem', tasks=ATaskL, flag=T.Int)

def _q_put(ex, node, st):
    """self._queue_sched.put((payload, flag)): ghost list `queued`"""
    item = ex.ev(node.args[0], st)
    if not isinstance(item, PyTuple) or len(item.items) != 2:
        raise C.OutsideSubset('queue item is not a pair')
    load, flag = item.items
    q = ex.get_var(st, 'queued')
    lty = q.ty
    n = lty.len(q.term)
    it = QItem.mk(coerce(load, ATaskL).term, coerce(flag, T.Int).term)
    st.env['queued'] = Val(lty, lty.mk(z3.Store(lty.arr(q.term), n, it), n + 1))
    return C.NONE
_q_put.mutates = ('queued',)

REG.spec('agent/scheduler/base.py:AgentSchedulingComponent.work',
    params   = dict(tasks=ATaskL),
    self     = dict(_SCHEDULE=T.Int),
    ghost    = dict(fate=Fate, queued=T.List(QItem)),
    effects  = {'self.advance': _s_advance, 'self._queue_sched.put': _q_put},
    modifies = ['queued'],
    raises   = {},
    ensures  = [
      ('every-task-handed-in-is-queued-for-the-loop-exactly-once',
       'len(queued) == len(old(queued)) + 1 and queued[len(old(queued))].tasks == tasks and '
       'queued[len(old(queued))].flag == self._SCHEDULE'),
      ('earlier-items-stay', 'forall(lambda k: implies(0 <= k < len(old(queued)), queued[k] == old(queued)[k]))'),
      ('nothing-is-reported-here', 'same_fate(fate, old(fate))'),
    ],
    serves = ['C04'])


# ------------------------------------------------------------------------------
# _schedule_incoming, part 1: sorting a bulk of arrivals into "fail", "schedule
# here" and "forward to raptor"
Sched  = T.DefMap(T.Int, ATaskL)
Raptor = T.DefMap(T.Str, ATaskL)

def _count_out(ex, node, st):
    n = ex.get_var(st, 'n_out')
    st.env['n_out'] = Val(T.Int, n.term + 1)
_count_out.mutates = ('n_out',)

def _count_append(ex, node, st):
    """ghost code after `<list>.append(task)`: count it, and remember the position
    the task went to (pos: uid -> index), so that "is in the list" needs no
    existential"""
    _count_out(ex, node, st)
    call = node.value
    lst  = ex.ev(call.func.value, st)
    task = ex.ev(call.args[0], st)
    pos  = ex.get_var(st, 'pos')
    pty  = pos.ty
    uid  = task.ty.get(task.term, 'uid')
    st.env['pos'] = Val(pty, pty.mk(z3.Store(pty.val(pos.term), uid, lst.ty.len(lst.term) - 1), pty.dom(pos.term)))
_count_append.mutates = ('n_out', 'pos')

REG.define('is_at(l, k, u)', '0 <= k < len(l) and l[k].uid == u')
REG.define('has_uid(l, u)', 'exists(lambda k: 0 <= k < len(l) and l[k].uid == u)')
REG.define('to_raptor_p(t)',
    'bool(t.description.raptor_id) and t.description.mode != "raptor.worker" and not bool(t.raptor_seen)')
REG.define('prio_of(t)', 'ite(t.description.priority is None, 0, val(t.description.priority))')
REG.define('grown(new, old)',
    'len(new) >= len(old) and forall(lambda k: implies(0 <= k < len(old), new[k] == old[k]))')

REG.spec('agent/scheduler/base.py:AgentSchedulingComponent._schedule_incoming#intake',
    fragment = 'for task in data:',
    params   = dict(data=ATaskL, to_schedule=Sched, to_raptor=Raptor),
    ghost    = dict(fate=Fate, n_out=T.Int, pos=T.Map(T.Str, T.Int)),
    locals   = dict(td=T.Any, raptor_id=OStr, priority=T.Int, mode=OStr),
    calls    = {'self._fail_task': 'agent/scheduler/base.py:AgentSchedulingComponent._fail_task',
                'self._set_tuple_size': 'agent/scheduler/base.py:AgentSchedulingComponent._set_tuple_size'},
    stmt_ghost = {"self._fail_task(task, ValueError('invalid ranks'), '')": _count_out,
                  'to_schedule[priority].append(task)': _count_append,
                  'to_raptor[raptor_id].append(task)': _count_append},
    requires = ['forall(lambda j, k: implies(0 <= j < k < len(data), data[j].uid != data[k].uid))',
                'forall(lambda j: implies(0 <= j < len(data), at(fate, data[j].uid) == F_NONE))'],
    modifies = ['data', 'to_schedule', 'to_raptor', 'fate', 'n_out', 'pos'],
    raises   = {},
    no_raise_is_property = True,
    ensures  = [
      ('each-arrival-goes-exactly-one-way', 'n_out == old(n_out) + len(data)'),
      ('invalid-ranks-fail-and-are-not-scheduled',
       'forall(lambda j: implies(0 <= j < len(data) and old(data)[j].description.ranks <= 0, '
       'at(fate, old(data)[j].uid) == F_FAILED))'),
      ('valid-arrivals-are-queued-under-their-priority-or-for-their-raptor',
       'forall(lambda j: implies(0 <= j < len(data) and old(data)[j].description.ranks > 0, '
       'at(fate, old(data)[j].uid) == F_NONE and '
       'ite(to_raptor_p(old(data)[j]), has_uid(at(to_raptor, val(old(data)[j].description.raptor_id)), old(data)[j].uid), '
       'has_uid(at(to_schedule, prio_of(old(data)[j])), old(data)[j].uid))))'),
      ('nobody-else-is-reported',
       'forall(lambda u: implies(at(fate, u) != at(old(fate), u), exists(lambda j: 0 <= j < len(data) and old(data)[j].uid == u)), Str)'),
      ('queues-only-grow',
       'forall(lambda p: grown(at(to_schedule, p), at(old(to_schedule), p)), Int) and '
       'forall(lambda r: grown(at(to_raptor, r), at(old(to_raptor), r)), Str)'),
      ('what-is-queued-for-placement-is-an-arrival-with-valid-ranks-and-its-size-tuple',
       'forall(lambda p, k: implies(len(at(old(to_schedule), p)) <= k < len(at(to_schedule, p)), '
       'at(to_schedule, p)[k].tuple_size is not None and at(to_schedule, p)[k].description.ranks > 0 and '
       'prio_of(at(to_schedule, p)[k]) == p and '
       'exists(lambda j: 0 <= j < len(data) and old(data)[j].uid == at(to_schedule, p)[k].uid and '
       'old(data)[j].description == at(to_schedule, p)[k].description)), Int, Int)'),
    ],
    loops = {
      '1': ['n_out == old(n_out) + i_task', 'len(data) == len(old(data))',
            'forall(lambda j: implies(i_task <= j < len(data), data[j] == old(data)[j]))',
            'forall(lambda j: implies(0 <= j < i_task and old(data)[j].description.ranks <= 0, at(fate, old(data)[j].uid) == F_FAILED))',
            'forall(lambda j: implies(i_task <= j < len(data), at(fate, old(data)[j].uid) == F_NONE))',
            'forall(lambda j: implies(0 <= j < i_task and old(data)[j].description.ranks > 0, at(fate, old(data)[j].uid) == F_NONE))',
            'forall(lambda j: implies(0 <= j < i_task and old(data)[j].description.ranks > 0 and to_raptor_p(old(data)[j]), '
            'is_at(at(to_raptor, val(old(data)[j].description.raptor_id)), at(pos, old(data)[j].uid), old(data)[j].uid)))',
            'forall(lambda j: implies(0 <= j < i_task and old(data)[j].description.ranks > 0 and not to_raptor_p(old(data)[j]), '
            'is_at(at(to_schedule, prio_of(old(data)[j])), at(pos, old(data)[j].uid), old(data)[j].uid)))',
            'forall(lambda u: implies(at(fate, u) != at(old(fate), u), exists(lambda j: 0 <= j < i_task and old(data)[j].uid == u)), Str)',
            'forall(lambda p: grown(at(to_schedule, p), at(old(to_schedule), p)), Int)',
            'forall(lambda r: grown(at(to_raptor, r), at(old(to_raptor), r)), Str)',
            'forall(lambda p, k: implies(len(at(old(to_schedule), p)) <= k < len(at(to_schedule, p)), '
            'at(to_schedule, p)[k].tuple_size is not None and at(to_schedule, p)[k].description.ranks > 0 and '
            'prio_of(at(to_schedule, p)[k]) == p and '
            'exists(lambda j: 0 <= j < i_task and old(data)[j].uid == at(to_schedule, p)[k].uid and '
            'old(data)[j].description == at(to_schedule, p)[k].description)), Int, Int)'],
    },
    opts   = dict(merge='scalars'),
    serves = ['C04'])


# ------------------------------------------------------------------------------
# BaseComponent.is_canceled as the scheduler uses it (the late cancel check when a
# task enters the wait pool): the same function text as in specs/executor.py,
# with the scheduler's ghost state
REG.spec('utils/component.py:BaseComponent.is_canceled#scheduler',
    fragment = 'with self._cancel_lock:',
    fragment_marker = 'self._cancel_list.remove(tid)',
    returns_in_fragment = True,
    params   = dict(task=ATask),
    self     = dict(_cancel_list=StrL),
    returns  = T.Bool,
    ghost    = _ghost,
    effects  = {'self.advance': _s_advance},
    requires = ['at(fate, task.uid) == F_NONE'],
    modifies = ['self._cancel_list', 'fate'],
    raises   = {},
    ensures  = [
      ('canceled-iff-named', 'result == in_list(old(self._cancel_list), task.uid)'),
      ('unnamed-task-untouched', 'implies(not result, self._cancel_list == old(self._cancel_list) and same_fate(fate, old(fate)))'),
      ('named-task-reported-canceled', 'implies(result and task.state is not None, at(fate, task.uid) == F_CANCELED)'),
      ('nobody-else-is-reported', 'forall(lambda u: implies(u != task.uid, at(fate, u) == at(old(fate), u)), Str)'),
      ('other-requests-kept',
       'forall(lambda k: implies(0 <= k < len(old(self._cancel_list)) and old(self._cancel_list)[k] != task.uid, '
       'in_list(self._cancel_list, old(self._cancel_list)[k])))'),
      ('no-request-invented',
       'forall(lambda k: implies(0 <= k < len(self._cancel_list), in_list(old(self._cancel_list), self._cancel_list[k])))'),
    ],
    serves   = ['C08'])

REG.define('nowhere(wp, u)', 'forall(lambda p: not inpool(wp, p, u), Int)')

# _schedule_incoming, part 3: tasks that could not be placed enter the wait pool,
# unless a cancel request for them is on record
REG.spec('agent/scheduler/base.py:AgentSchedulingComponent._schedule_incoming#to-pool',
    fragment = 'for task in to_wait:',
    params   = dict(to_wait=ATaskL, priority=T.Int),
    self     = dict(_waitpool=WPool, _cancel_list=StrL),
    ghost    = _ghost,
    locals   = dict(uid=T.Str),
    calls    = {'self.is_canceled': 'utils/component.py:BaseComponent.is_canceled#scheduler'},
    requires = ['wp_inv(self._waitpool, fate)',
                'forall(lambda j, k: implies(0 <= j < k < len(to_wait), to_wait[j].uid != to_wait[k].uid))',
                'forall(lambda m: implies(0 <= m < len(to_wait), at(fate, to_wait[m].uid) == F_NONE and '
                'to_wait[m].state is not None and nowhere(self._waitpool, to_wait[m].uid)))'],
    modifies = ['self._waitpool', 'self._cancel_list', 'fate'],
    raises   = {},
    no_raise_is_property = True,
    ensures  = [
      ('pool-invariant-kept', 'wp_inv(self._waitpool, fate)'),
      ('each-task-waits-under-its-priority-or-is-canceled',
       'forall(lambda m: implies(0 <= m < len(to_wait), '
       'ite(in_list(old(self._cancel_list), to_wait[m].uid), '
       'at(fate, to_wait[m].uid) == F_CANCELED and nowhere(self._waitpool, to_wait[m].uid), '
       'at(fate, to_wait[m].uid) == F_NONE and inpool(self._waitpool, priority, to_wait[m].uid) and '
       'at(at(self._waitpool, priority), to_wait[m].uid) == to_wait[m])))'),
      ('tasks-already-waiting-stay',
       'forall(lambda p, u: implies(inpool(old(self._waitpool), p, u), inpool(self._waitpool, p, u) and '
       'at(at(self._waitpool, p), u) == at(at(old(self._waitpool), p), u)), Int, Str)'),
      ('only-these-tasks-enter',
       'forall(lambda p, u: implies(inpool(self._waitpool, p, u) and not inpool(old(self._waitpool), p, u), '
       'p == priority and has_uid(to_wait, u)), Int, Str)'),
      ('nobody-else-is-reported',
       'forall(lambda u: implies(at(fate, u) != at(old(fate), u), has_uid(to_wait, u)), Str)'),
      ('other-cancel-requests-kept',
       'forall(lambda k: implies(0 <= k < len(old(self._cancel_list)) and not has_uid(to_wait, old(self._cancel_list)[k]), '
       'in_list(self._cancel_list, old(self._cancel_list)[k]))) and '
       'forall(lambda k: implies(0 <= k < len(self._cancel_list), in_list(old(self._cancel_list), self._cancel_list[k])))'),
    ],
    loops = {
      '1': ['wp_inv(self._waitpool, fate)',
            'forall(lambda m: implies(0 <= m < i_task, '
            'ite(in_list(old(self._cancel_list), to_wait[m].uid), '
            'at(fate, to_wait[m].uid) == F_CANCELED and nowhere(self._waitpool, to_wait[m].uid), '
            'at(fate, to_wait[m].uid) == F_NONE and inpool(self._waitpool, priority, to_wait[m].uid) and '
            'at(at(self._waitpool, priority), to_wait[m].uid) == to_wait[m])))',
            'forall(lambda m: implies(i_task <= m < len(to_wait), at(fate, to_wait[m].uid) == F_NONE and '
            'nowhere(self._waitpool, to_wait[m].uid) and '
            'implies(in_list(old(self._cancel_list), to_wait[m].uid), in_list(self._cancel_list, to_wait[m].uid))))',
            'forall(lambda k: implies(0 <= k < len(self._cancel_list), in_list(old(self._cancel_list), self._cancel_list[k])))',
            'forall(lambda p, u: implies(inpool(old(self._waitpool), p, u), inpool(self._waitpool, p, u) and '
            'at(at(self._waitpool, p), u) == at(at(old(self._waitpool), p), u)), Int, Str)',
            'forall(lambda p, u: implies(inpool(self._waitpool, p, u) and not inpool(old(self._waitpool), p, u), '
            'p == priority and exists(lambda m: 0 <= m < i_task and to_wait[m].uid == u)), Int, Str)',
            'forall(lambda u: implies(at(fate, u) != at(old(fate), u), exists(lambda m: 0 <= m < i_task and to_wait[m].uid == u)), Str)',
            'forall(lambda k: implies(0 <= k < len(old(self._cancel_list)) and '
            'not exists(lambda m: 0 <= m < i_task and to_wait[m].uid == old(self._cancel_list)[k]), '
            'in_list(self._cancel_list, old(self._cancel_list)[k])))'],
    },
    opts   = dict(merge='scalars'),
    serves = ['C04', 'C08'])


# ------------------------------------------------------------------------------
# _schedule_incoming, part 2: the tasks of one priority, largest first: each one
# is started, failed or set aside to wait - exactly one of the three
def _s_advance_cnt(ex, node, st):
    """as _s_advance; additionally counts the tasks started (ghost n_started)"""
    state = ex.ev(node.args[1], st)
    things = ex.ev(node.args[0], st)
    _s_advance(ex, node, st)
    if state.has_py() and state.py == 'AGENT_EXECUTING_PENDING':
        n = ex.get_var(st, 'n_started')
        if isinstance(things, PyTuple):
            things = coerce(things, ATaskL)
        k = things.ty.len(things.term) if isinstance(things.ty, TList) else 1
        st.env['n_started'] = Val(T.Int, n.term + k)
    return C.NONE
_s_advance_cnt.mutates = ('fate', 'n_started')

def _exc_trace(ex, node, st):
    return ex.fresh_wf(st, StrL, 'trace')
_exc_trace.mutates = ()

def _note_wait(ex, node, st):
    """ghost code after `to_wait.append(task)`: where the task sits in to_wait
    (wpos) and which element of the iterated sequence it is (wsrc)"""
    tw   = ex.get_var(st, 'to_wait')
    task = ex.ev(node.value.args[0], st)
    uid  = task.ty.get(task.term, 'uid')
    for g, v in (('wpos', tw.ty.len(tw.term) - 1), ('wsrc', ex.get_var(st, 'i_task').term)):
        m = ex.get_var(st, g)
        st.env[g] = Val(m.ty, m.ty.mk(z3.Store(m.ty.val(m.term), uid, v), m.ty.dom(m.term)))
_note_wait.mutates = ('wpos', 'wsrc')

REG.define('task_ok(t)',
    't.description.ranks >= 1 and t.description.cores_per_rank >= 0 and t.description.gpus_per_rank >= 0 and '
    't.description.lfs_per_rank >= 0 and t.description.mem_per_rank >= 0 and '
    'implies(t.description.ranks_per_node is not None, val(t.description.ranks_per_node) >= 0)')
REG.define('not_preplaced(t)', 't.description.slots is None or len(val(t.description.slots)) == 0')
REG.define('rm_ok(rm)', 'rm.info.cores_per_node >= 1 and rm.info.gpus_per_node >= 0 and rm.info.lfs_per_node >= 0 and rm.info.mem_per_node >= 0')
REG.define('needs_env(t, envs)', 'bool(t.description.named_env) and not in_list(envs, val(t.description.named_env))')

_place_self = dict(_sched_self)
_place_self.update(_named_envs=StrL)
_IdxMap = T.Map(T.Str, T.Int)
_place_mods = ['self.nodes', 'self._active_cnt', 'self._colo_history', 'self._tagged_nodes', 'self._node_offset']
_place_inv = ['sched_inv(self.nodes, self._rm.info.gpus_per_node)', 'self._active_cnt >= 0', 'rm_ok(self._rm)',
              'implies(len(self.nodes) > 0, 0 <= self._node_offset < len(self.nodes))']

REG.spec('agent/scheduler/base.py:AgentSchedulingComponent._schedule_incoming#place-prio',
    fragment = "for task in sorted(tasks, key=lambda x: x['tuple_size'][0],",
    params   = dict(tasks=ATaskL, to_wait=ATaskL),
    self     = _place_self,
    ghost    = dict(fate=Fate, n_started=T.Int, wpos=_IdxMap, wsrc=_IdxMap),
    locals   = dict(td=T.Any, named_env=OStr),
    calls    = {'self._try_allocation': 'agent/scheduler/base.py:AgentSchedulingComponent._try_allocation',
                'self._fail_task': 'agent/scheduler/base.py:AgentSchedulingComponent._fail_task'},
    effects  = {'self.advance': _s_advance_cnt, 'ru.get_exception_trace': _exc_trace},
    stmt_ghost = {'to_wait.append(task)': _note_wait},
    requires = _place_inv + ['len(to_wait) == 0',
                'forall(lambda j, k: implies(0 <= j < k < len(tasks), tasks[j].uid != tasks[k].uid))',
                'forall(lambda k: implies(0 <= k < len(tasks), at(fate, tasks[k].uid) == F_NONE and task_ok(tasks[k]) and '
                'tasks[k].tuple_size is not None and not_preplaced(tasks[k]) and tasks[k].state is not None))'],
    modifies = _place_mods + ['to_wait', 'fate', 'n_started', 'wpos', 'wsrc'],
    raises   = {},
    no_raise_is_property = True,
    ensures  = [
      ('occupancy-invariant-kept', ' and '.join(_place_inv)),
      ('every-started-task-is-counted-as-active',
       'self._active_cnt - old(self._active_cnt) == n_started - old(n_started) and n_started >= old(n_started)'),
      ('each-task-is-started-or-failed-or-set-aside-to-wait',
       'forall(lambda k: implies(0 <= k < len(tasks), '
       'ite(has_uid(to_wait, tasks[k].uid), at(fate, tasks[k].uid) == F_NONE, '
       'at(fate, tasks[k].uid) == F_STARTED or at(fate, tasks[k].uid) == F_FAILED)))'),
      ('a-task-whose-named-environment-is-missing-waits',
       'forall(lambda k: implies(0 <= k < len(tasks) and needs_env(tasks[k], self._named_envs), has_uid(to_wait, tasks[k].uid)))'),
      ('what-waits-is-one-of-these-tasks-unreported-and-unchanged',
       'forall(lambda m: implies(0 <= m < len(to_wait), at(fate, to_wait[m].uid) == F_NONE and to_wait[m].state is not None and '
       'exists(lambda k: 0 <= k < len(tasks) and tasks[k].uid == to_wait[m].uid and tasks[k].description == to_wait[m].description)))'),
      ('nothing-waits-twice', 'forall(lambda a, b: implies(0 <= a < b < len(to_wait), to_wait[a].uid != to_wait[b].uid))'),
      ('nobody-else-is-reported',
       'forall(lambda u: implies(at(fate, u) != at(old(fate), u), has_uid(tasks, u)), Str)'),
    ],
    loops = {
      '1': _place_inv + ['tasks == old(tasks)',
            'self._active_cnt - old(self._active_cnt) == n_started - old(n_started) and n_started >= old(n_started)',
            # processed tasks are settled
            'forall(lambda k: implies(0 <= k < i_task, at(fate, seq_task[k].uid) == F_STARTED or at(fate, seq_task[k].uid) == F_FAILED or '
            '(at(fate, seq_task[k].uid) == F_NONE and is_at(to_wait, at(wpos, seq_task[k].uid), seq_task[k].uid))))',
            'forall(lambda k: implies(0 <= k < i_task and needs_env(seq_task[k], self._named_envs), '
            'is_at(to_wait, at(wpos, seq_task[k].uid), seq_task[k].uid)))',
            # the rest is untouched
            'forall(lambda k: implies(i_task <= k < len(seq_task), at(fate, seq_task[k].uid) == F_NONE))',
            # what waits: unreported, from the processed part, at its recorded position
            'forall(lambda m: implies(0 <= m < len(to_wait), at(fate, to_wait[m].uid) == F_NONE and to_wait[m].state is not None and '
            'at(wpos, to_wait[m].uid) == m and 0 <= at(wsrc, to_wait[m].uid) < i_task and '
            'seq_task[at(wsrc, to_wait[m].uid)].uid == to_wait[m].uid and '
            'seq_task[at(wsrc, to_wait[m].uid)].description == to_wait[m].description))',
            'forall(lambda u: implies(at(fate, u) != at(old(fate), u), exists(lambda k: 0 <= k < i_task and seq_task[k].uid == u)), Str)',
      ],
    },
    opts   = dict(merge='scalars'),
    serves = ['C04'])


# ------------------------------------------------------------------------------
# _schedule_incoming, the placement loop over priorities (highest first); the two
# inner loops are used through their own contracts (#place-prio, #to-pool)
REG.define('queued_ok(ts, wp, fate)',
    'forall(lambda p, k: implies(indom(ts, p) and 0 <= k < len(at(ts, p)), '
    'at(fate, at(ts, p)[k].uid) == F_NONE and task_ok(at(ts, p)[k]) and at(ts, p)[k].tuple_size is not None and '
    'not_preplaced(at(ts, p)[k]) and at(ts, p)[k].state is not None and nowhere(wp, at(ts, p)[k].uid)), Int, Int) and '
    'forall(lambda p, q, j, k: implies(indom(ts, p) and indom(ts, q) and 0 <= j < len(at(ts, p)) and 0 <= k < len(at(ts, q)) and '
    '(p != q or j != k), at(ts, p)[j].uid != at(ts, q)[k].uid), Int, Int, Int, Int)')
REG.define('settled(t, p, wp, fate)',
    'ite(inpool(wp, p, t.uid), at(fate, t.uid) == F_NONE and at(at(wp, p), t.uid).description == t.description, '
    '(at(fate, t.uid) == F_STARTED or at(fate, t.uid) == F_FAILED or at(fate, t.uid) == F_CANCELED) and nowhere(wp, t.uid))')
REG.define('queued_uid(ts, u)', 'exists(lambda p, k: indom(ts, p) and 0 <= k < len(at(ts, p)) and at(ts, p)[k].uid == u, Int, Int)')

_pl_self = dict(_place_self)
_pl_self.update(_waitpool=WPool, _cancel_list=StrL)
_FRAG = 'agent/scheduler/base.py:AgentSchedulingComponent._schedule_incoming'

REG.spec(_FRAG + '#place',
    fragment = 'for priority in sorted(to_schedule.keys(), reverse=True):',
    params   = dict(to_schedule=Sched),
    self     = _pl_self,
    ghost    = dict(fate=Fate, n_started=T.Int, wpos=_IdxMap, wsrc=_IdxMap),
    locals   = dict(tasks=ATaskL, to_wait=ATaskL),
    stmt_contracts = {"for task in sorted(tasks, key=lambda x: x['tuple_size'][0],": _FRAG + '#place-prio',
                      'for task in to_wait:': _FRAG + '#to-pool'},
    requires = _place_inv + ['wp_inv(self._waitpool, fate)', 'queued_ok(to_schedule, self._waitpool, fate)'],
    modifies = _place_mods + ['self._waitpool', 'self._cancel_list', 'to_schedule', 'fate', 'n_started', 'wpos', 'wsrc'],
    raises   = {},
    no_raise_is_property = True,
    ensures  = [
      ('occupancy-invariant-kept', ' and '.join(_place_inv)),
      ('pool-invariant-kept', 'wp_inv(self._waitpool, fate)'),
      ('every-started-task-is-counted-as-active',
       'self._active_cnt - old(self._active_cnt) == n_started - old(n_started) and n_started >= old(n_started)'),
      ('each-task-is-started-failed-canceled-or-waits-under-its-priority',
       'forall(lambda p, k: implies(indom(old(to_schedule), p) and 0 <= k < len(at(old(to_schedule), p)), '
       'settled(at(old(to_schedule), p)[k], p, self._waitpool, fate)), Int, Int)'),
      ('tasks-already-waiting-stay',
       'forall(lambda p, u: implies(inpool(old(self._waitpool), p, u), inpool(self._waitpool, p, u) and '
       'at(at(self._waitpool, p), u) == at(at(old(self._waitpool), p), u)), Int, Str)'),
      ('only-these-tasks-enter-the-pool',
       'forall(lambda p, u: implies(inpool(self._waitpool, p, u) and not inpool(old(self._waitpool), p, u), '
       'queued_uid(old(to_schedule), u)), Int, Str)'),
      ('nobody-else-is-reported',
       'forall(lambda u: implies(at(fate, u) != at(old(fate), u), queued_uid(old(to_schedule), u)), Str)'),
    ],
    loops = {
      '1': _place_inv + ['wp_inv(self._waitpool, fate)', 'to_schedule == old(to_schedule)',
            'self._active_cnt - old(self._active_cnt) == n_started - old(n_started) and n_started >= old(n_started)',
            'forall(lambda j, k: implies(0 <= j < i_priority and 0 <= k < len(at(to_schedule, seq_priority[j])), '
            'settled(at(to_schedule, seq_priority[j])[k], seq_priority[j], self._waitpool, fate)), Int, Int)',
            'forall(lambda j, k: implies(i_priority <= j < len(seq_priority) and 0 <= k < len(at(to_schedule, seq_priority[j])), '
            'at(fate, at(to_schedule, seq_priority[j])[k].uid) == F_NONE and '
            'nowhere(self._waitpool, at(to_schedule, seq_priority[j])[k].uid)), Int, Int)',
            'forall(lambda p, u: implies(inpool(old(self._waitpool), p, u), inpool(self._waitpool, p, u) and '
            'at(at(self._waitpool, p), u) == at(at(old(self._waitpool), p), u)), Int, Str)',
            'forall(lambda p, u: implies(inpool(self._waitpool, p, u) and not inpool(old(self._waitpool), p, u), '
            'exists(lambda j, k: 0 <= j < i_priority and 0 <= k < len(at(to_schedule, seq_priority[j])) and '
            'at(to_schedule, seq_priority[j])[k].uid == u, Int, Int)), Int, Str)',
            'forall(lambda u: implies(at(fate, u) != at(old(fate), u), '
            'exists(lambda j, k: 0 <= j < i_priority and 0 <= k < len(at(to_schedule, seq_priority[j])) and '
            'at(to_schedule, seq_priority[j])[k].uid == u, Int, Int)), Str)'],
    },
    opts   = dict(merge='scalars'),
    serves = ['C04'])


# ------------------------------------------------------------------------------
# _schedule_waitpool: waiting tasks are re-tried, highest priority first
#
# ru.lazy_bisect(data, check=self._try_allocation, ..) belongs to radical.utils
# (a dependency): ASSUMED CONTRACT (A13) - it calls check at most once per element
# of data and nothing else that touches the scheduler, and returns three lists
# that partition data: those check accepted, those it refused or that were
# skipped, and those on which it raised (with the message).  The effect below
# composes the *verified* contract of _try_allocation over such a sequence of
# calls (induction over the calls: every call keeps the occupancy invariant,
# every accepted call counts one active task and attaches a placement, refused
# and skipped tasks are unchanged, a raising call takes nothing).
Failed = T.List(T.Tuple(ATask, T.Str))

def _lazy_bisect(ex, node, st):
    data = ex.ev(node.args[0], st)
    kw = {k.arg: k.value for k in node.keywords}
    chk = kw.get('check')
    if not (isinstance(chk, __import__('ast').Attribute) and chk.attr == '_try_allocation'):
        raise C.OutsideSubset('lazy_bisect with a check other than self._try_allocation')
    lty = data.ty
    n = lty.len(data.term)
    ety = lty.elem
    sub = st.fork(); sub.env = dict(st.env); sub.env['data_'] = data
    # preconditions of _try_allocation for every element (call-pre obligations)
    for name, text in (('occupancy-invariant', ' and '.join(_place_inv)),
                       ('requests-are-valid', 'forall(lambda k: implies(0 <= k < len(data_), task_ok(data_[k])))')):
        ex.oblige(st, 'call:lazy_bisect(_try_allocation)/%s@L%s' % (name, ex.cur_line), ex.spec_bool(text, sub), 'call-pre', note=text)
    good = ex.fresh_wf(st, lty, 'bulk_good')
    bad  = ex.fresh_wf(st, lty, 'bulk_bad')
    fail = ex.fresh_wf(st, Failed, 'bulk_fail')
    cls  = z3.Function(C.fresh_name('bcls'), z3.IntSort(), z3.IntSort())   # index in data -> 0 good 1 bad 2 fail
    pos  = z3.Function(C.fresh_name('bpos'), z3.IntSort(), z3.IntSort())   # index in data -> index in its list
    sg   = z3.Function(C.fresh_name('bsg'), z3.IntSort(), z3.IntSort())    # index in good -> index in data
    sb   = z3.Function(C.fresh_name('bsb'), z3.IntSort(), z3.IntSort())
    sf   = z3.Function(C.fresh_name('bsf'), z3.IntSort(), z3.IntSort())
    i = z3.Int(C.fresh_name('bi'))
    D  = lambda x: z3.Select(lty.arr(data.term), x)
    G  = lambda x: z3.Select(lty.arr(good.term), x)
    B  = lambda x: z3.Select(lty.arr(bad.term), x)
    FT = Failed.elem
    F  = lambda x: FT.get(z3.Select(Failed.arr(fail.term), x), 0)
    ng, nb, nf = lty.len(good.term), lty.len(bad.term), Failed.len(fail.term)
    g = lambda t, f: ety.get(t, f)
    slots_ty = ety.fields['slots']
    same_req = lambda a, b: z3.And(g(a, 'uid') == g(b, 'uid'), g(a, 'description') == g(b, 'description'),
                                   g(a, 'state') == g(b, 'state'), g(a, 'tuple_size') == g(b, 'tuple_size'))
    st.assume(ng + nb + nf == n)
    st.assume(z3.ForAll([i], z3.Implies(z3.And(0 <= i, i < n), z3.And(
        0 <= cls(i), cls(i) <= 2, 0 <= pos(i),
        z3.Implies(cls(i) == 0, z3.And(pos(i) < ng, sg(pos(i)) == i)),
        z3.Implies(cls(i) == 1, z3.And(pos(i) < nb, sb(pos(i)) == i)),
        z3.Implies(cls(i) == 2, z3.And(pos(i) < nf, sf(pos(i)) == i)))), patterns=[D(i)]))
    st.assume(z3.ForAll([i], z3.Implies(z3.And(0 <= i, i < ng), z3.And(
        0 <= sg(i), sg(i) < n, cls(sg(i)) == 0, pos(sg(i)) == i, same_req(G(i), D(sg(i))),
        slots_ty.is_some(g(G(i), 'slots')))), patterns=[G(i)]))
    st.assume(z3.ForAll([i], z3.Implies(z3.And(0 <= i, i < nb), z3.And(
        0 <= sb(i), sb(i) < n, cls(sb(i)) == 1, pos(sb(i)) == i, B(i) == D(sb(i)))), patterns=[B(i)]))
    st.assume(z3.ForAll([i], z3.Implies(z3.And(0 <= i, i < nf), z3.And(
        0 <= sf(i), sf(i) < n, cls(sf(i)) == 2, pos(sf(i)) == i, same_req(F(i), D(sf(i))),
        g(F(i), 'slots') == g(D(sf(i)), 'slots'))), patterns=[F(i)]))
    # forward reading of the same partition (a consequence of the facts above:
    # sg(pos(i)) == i): where element i of data went
    st.assume(z3.ForAll([i], z3.Implies(z3.And(0 <= i, i < n), z3.And(
        z3.Implies(cls(i) == 0, same_req(G(pos(i)), D(i))),
        z3.Implies(cls(i) == 1, B(pos(i)) == D(i)),
        z3.Implies(cls(i) == 2, same_req(F(pos(i)), D(i))))), patterns=[D(i)]))
    # consequences of the partition for distinct uids (derivable from the facts
    # above: the source maps are injective): stated to spare the solver the chain
    j = z3.Int(C.fresh_name('bj'))
    uid = lambda t: g(t, 'uid')
    din = z3.ForAll([i, j], z3.Implies(z3.And(0 <= i, i < j, j < n), uid(D(i)) != uid(D(j))))
    ex.oblige(st, 'call:lazy_bisect(_try_allocation)/distinct-uids@L%s' % ex.cur_line, din, 'call-pre',
              note='the tasks handed to lazy_bisect have distinct uids')
    st.assume(din)
    for (X, nx), (Y, ny), same in (((G, ng), (G, ng), True), ((B, nb), (B, nb), True), ((F, nf), (F, nf), True),
                                   ((G, ng), (B, nb), False), ((G, ng), (F, nf), False), ((B, nb), (F, nf), False)):
        rng = z3.And(0 <= i, i < j, j < ny) if same else z3.And(0 <= i, i < nx, 0 <= j, j < ny)
        st.assume(z3.ForAll([i, j], z3.Implies(rng, uid(X(i)) != uid(Y(j))), patterns=[z3.MultiPattern(X(i), Y(j))]))
    # the scheduler state after the calls
    for root in ('self.nodes', 'self._colo_history', 'self._tagged_nodes', 'self._node_offset'):
        old = ex.get_var(st, root)
        st.env[root] = ex.fresh_wf(st, old.ty, root.replace('.', '_'))
    cnt = ex.get_var(st, 'self._active_cnt')
    st.env['self._active_cnt'] = Val(T.Int, cnt.term + ng)
    st.assume(ex.spec_bool(' and '.join(_place_inv), st))
    log = ex.get_var(st, 'tried')
    ll = log.ty.len(log.term)
    prio = ex.get_var(st, 'priority')
    st.env['tried'] = Val(log.ty, log.ty.mk(z3.Store(log.ty.arr(log.term), ll, prio.term), ll + 1))
    return PyTuple([good, bad, fail])
_lazy_bisect.mutates = ('self.nodes', 'self._colo_history', 'self._tagged_nodes', 'self._node_offset', 'self._active_cnt', 'tried')


def _note_test(ex, node, st):
    """ghost code after `to_test.append(task)` / `to_wait.append(task)`: position maps"""
    call = node.value
    lst  = ex.ev(call.func.value, st)
    task = ex.ev(call.args[0], st)
    g    = 'tpos' if call.func.value.id == 'to_test' else 'wpos'
    m    = ex.get_var(st, g)
    uid  = task.ty.get(task.term, 'uid')
    st.env[g] = Val(m.ty, m.ty.mk(z3.Store(m.ty.val(m.term), uid, lst.ty.len(lst.term) - 1), m.ty.dom(m.term)))
    e = ex.get_var(st, 'elig')
    st.env['elig'] = Val(e.ty, z3.Store(e.term, uid, z3.BoolVal(g == 'tpos')))
_note_test.mutates = ('tpos', 'wpos', 'elig')

def _str_replace(ex, node, st):
    for a in node.args: ex.ev(a, st)
    return fresh(T.Str, 'replaced')
_str_replace.mutates = ()

REG.define('still_waits(t, p, wp, fate)',
    'inpool(wp, p, t.uid) and at(fate, t.uid) == F_NONE and at(at(wp, p), t.uid).description == t.description and '
    'at(at(wp, p), t.uid).state == t.state')
REG.define('left_pool(t, wp, fate)',
    '(at(fate, t.uid) == F_STARTED or at(fate, t.uid) == F_FAILED) and nowhere(wp, t.uid)')
REG.define('P0()', 'at(at_head("1", self._waitpool), priority)')
REG.define('pool_ok(wp)',
    'forall(lambda p, u: implies(inpool(wp, p, u), task_ok(at(at(wp, p), u)) and at(at(wp, p), u).tuple_size is not None and '
    'at(at(wp, p), u).state is not None), Int, Str)')

_wp_self = dict(_place_self)
_wp_self.update(_waitpool=WPool)

REG.spec('agent/scheduler/base.py:AgentSchedulingComponent._schedule_waitpool',
    params   = dict(),
    self     = _wp_self,
    returns  = T.Tuple(T.Bool, T.Bool),
    ghost    = dict(fate=Fate, n_started=T.Int, tpos=_IdxMap, wpos=_IdxMap, tried=T.List(T.Int), elig=T.Set(T.Str)),
    locals   = dict(to_wait=ATaskL, to_test=ATaskL, pool=Pool, named_env=OStr, active=T.Bool, resources=T.Bool,
                    scheduled=ATaskL, unscheduled=ATaskL, failed=Failed, td=T.Any, error=T.Str),
    calls    = {'ru.lazy_bisect': _lazy_bisect,
                'self._fail_task': 'agent/scheduler/base.py:AgentSchedulingComponent._fail_task'},
    effects  = {'self.advance': _s_advance_cnt, 'error.replace': _str_replace},
    stmt_ghost = {'to_test.append(task)': _note_test, 'to_wait.append(task)': _note_test},
    # intermediate facts about the pool of the current priority (P0: that pool as
    # it was at the head of this iteration); each is proved where it stands
    cuts = {
      'to_test.sort(': [
        ('sorted-candidates-are-pool-members',
         'forall(lambda m: implies(0 <= m < len(to_test), indom(P0(), to_test[m].uid) and at(P0(), to_test[m].uid) == to_test[m] and '
         'not needs_env(to_test[m], self._named_envs) and to_test[m].uid in elig))'),
        ('every-eligible-pool-member-is-a-candidate',
         'forall(lambda u: implies(indom(P0(), u) and not needs_env(at(P0(), u), self._named_envs), has_uid(to_test, u)), Str)'),
        ('candidates-are-distinct', 'forall(lambda a, b: implies(0 <= a < b < len(to_test), to_test[a].uid != to_test[b].uid))'),
        ('set-aside-are-pool-members',
         'forall(lambda m: implies(0 <= m < len(to_wait), indom(P0(), to_wait[m].uid) and at(P0(), to_wait[m].uid) == to_wait[m] and '
         'needs_env(to_wait[m], self._named_envs) and to_wait[m].uid not in elig))'),
        ('every-ineligible-pool-member-is-set-aside',
         'forall(lambda u: implies(indom(P0(), u) and needs_env(at(P0(), u), self._named_envs), has_uid(to_wait, u)), Str)'),
      ],
      'scheduled, unscheduled, failed = ru.lazy_bisect(': [
        ('this-pool-counts-as-tried',
         'len(tried) == len(at_head("1", tried)) + 1 and tried[len(tried) - 1] == priority and '
         'forall(lambda a: implies(0 <= a < len(at_head("1", tried)), tried[a] == at_head("1", tried)[a]))'),
        ('every-candidate-is-in-one-of-the-three-lists',
         'forall(lambda u: implies(indom(P0(), u) and not needs_env(at(P0(), u), self._named_envs), '
         'has_uid(scheduled, u) or has_uid(unscheduled, u) or exists(lambda m: 0 <= m < len(failed) and failed[m][0].uid == u)), Str)'),
        ('refused-candidates-are-unchanged-pool-members',
         'forall(lambda m: implies(0 <= m < len(unscheduled), indom(P0(), unscheduled[m].uid) and at(P0(), unscheduled[m].uid) == unscheduled[m] '
         'and not needs_env(unscheduled[m], self._named_envs)))'),
        ('started-and-failed-are-eligible-pool-members',
         'forall(lambda k: implies(0 <= k < len(scheduled), indom(P0(), scheduled[k].uid) and '
         'at(P0(), scheduled[k].uid).description == scheduled[k].description and scheduled[k].uid in elig)) and '
         'forall(lambda k: implies(0 <= k < len(failed), indom(P0(), failed[k][0].uid) and '
         'at(P0(), failed[k][0].uid).description == failed[k][0].description and failed[k][0].uid in elig))'),
        ('started-and-failed-are-not-set-aside',
         'forall(lambda k, m: implies(0 <= k < len(scheduled) and 0 <= m < len(to_wait), scheduled[k].uid != to_wait[m].uid)) and '
         'forall(lambda k, m: implies(0 <= k < len(failed) and 0 <= m < len(to_wait), failed[k][0].uid != to_wait[m].uid))'),
        ('started-and-failed-candidates-are-pool-members',
         'forall(lambda m: implies(0 <= m < len(scheduled), indom(P0(), scheduled[m].uid) and scheduled[m].slots is not None)) and '
         'forall(lambda m: implies(0 <= m < len(failed), indom(P0(), failed[m][0].uid)))'),
      ],
      "self._waitpool[priority] = {task['uid']: task": [
        ('new-pool-holds-only-old-members-unchanged',
         'forall(lambda u: implies(indom(at(self._waitpool, priority), u), indom(P0(), u) and at(at(self._waitpool, priority), u) == at(P0(), u)), Str)'),
        ('set-aside-and-refused-stay',
         'forall(lambda m: implies(0 <= m < len(to_wait), indom(at(self._waitpool, priority), to_wait[m].uid))) and '
         'forall(lambda m: implies(0 <= m < len(unscheduled), indom(at(self._waitpool, priority), unscheduled[m].uid)))'),
        ('started-and-failed-leave',
         'forall(lambda m: implies(0 <= m < len(scheduled), not indom(at(self._waitpool, priority), scheduled[m].uid))) and '
         'forall(lambda m: implies(0 <= m < len(failed), not indom(at(self._waitpool, priority), failed[m][0].uid)))'),
        ('other-pools-untouched',
         'forall(lambda p: implies(p != priority, at(self._waitpool, p) == at(at_head("1", self._waitpool), p)), Int) and '
         'forall(lambda p: indom(self._waitpool, p) == indom(at_head("1", self._waitpool), p), Int)'),
      ],
      'resources = resources and not': [
        ('set-aside-still-wait',
         'forall(lambda m: implies(0 <= m < len(to_wait), at(fate, to_wait[m].uid) == F_NONE and '
         'indom(at(self._waitpool, priority), to_wait[m].uid) and at(at(self._waitpool, priority), to_wait[m].uid) == to_wait[m]))'),
        ('refused-still-wait',
         'forall(lambda m: implies(0 <= m < len(unscheduled), at(fate, unscheduled[m].uid) == F_NONE and '
         'indom(at(self._waitpool, priority), unscheduled[m].uid) and at(at(self._waitpool, priority), unscheduled[m].uid) == unscheduled[m]))'),
        ('started-are-reported-and-gone',
         'forall(lambda m: implies(0 <= m < len(scheduled), at(fate, scheduled[m].uid) == F_STARTED and nowhere(self._waitpool, scheduled[m].uid)))'),
        ('failed-are-reported-and-gone',
         'forall(lambda m: implies(0 <= m < len(failed), at(fate, failed[m][0].uid) == F_FAILED and nowhere(self._waitpool, failed[m][0].uid)))'),
        ('ineligible-members-of-this-pool-still-wait',
         'forall(lambda u: implies(indom(P0(), u) and needs_env(at(P0(), u), self._named_envs), '
         'still_waits(at(P0(), u), priority, self._waitpool, fate)), Str)'),
        ('eligible-members-of-this-pool-wait-or-left',
         'forall(lambda u: implies(indom(P0(), u) and not needs_env(at(P0(), u), self._named_envs), '
         'still_waits(at(P0(), u), priority, self._waitpool, fate) or left_pool(at(P0(), u), self._waitpool, fate)), Str)'),
        ('this-pool-is-settled-with-respect-to-the-entry-state',
         'forall(lambda u: implies(inpool(old(self._waitpool), priority, u), '
         'still_waits(at(at(old(self._waitpool), priority), u), priority, self._waitpool, fate) or '
         'left_pool(at(at(old(self._waitpool), priority), u), self._waitpool, fate)), Str)'),
        ('earlier-pools-stay-settled',
         'forall(lambda j, u: implies(0 <= j < i_priority and inpool(old(self._waitpool), seq_priority[j], u), '
         'still_waits(at(at(old(self._waitpool), seq_priority[j]), u), seq_priority[j], self._waitpool, fate) or '
         'left_pool(at(at(old(self._waitpool), seq_priority[j]), u), self._waitpool, fate)), Int, Str)'),
      ],
    },
    requires = _place_inv + ['wp_inv(self._waitpool, fate)', 'pool_ok(self._waitpool)', 'len(tried) == 0'],
    modifies = _place_mods + ['self._waitpool', 'fate', 'n_started', 'tpos', 'wpos', 'tried', 'elig'],
    raises   = {},
    no_raise_is_property = True,
    ensures  = [
      ('occupancy-invariant-kept', ' and '.join(_place_inv)),
      ('pool-invariant-kept', 'wp_inv(self._waitpool, fate) and pool_ok(self._waitpool)'),
      ('every-started-task-is-counted-as-active',
       'self._active_cnt - old(self._active_cnt) == n_started - old(n_started) and n_started >= old(n_started)'),
      ('each-waiting-task-keeps-waiting-or-is-started-or-failed',
       'forall(lambda p, u: implies(inpool(old(self._waitpool), p, u), '
       'still_waits(at(at(old(self._waitpool), p), u), p, self._waitpool, fate) or '
       'left_pool(at(at(old(self._waitpool), p), u), self._waitpool, fate)), Int, Str)'),
      ('nothing-enters-the-pool',
       'forall(lambda p, u: implies(inpool(self._waitpool, p, u), inpool(old(self._waitpool), p, u)), Int, Str)'),
      ('nobody-else-is-reported',
       'forall(lambda u: implies(at(fate, u) != at(old(fate), u), exists(lambda p: inpool(old(self._waitpool), p, u), Int)), Str)'),
      ('higher-priority-pools-are-tried-first', 'forall(lambda a, b: implies(0 <= a < b < len(tried), tried[a] > tried[b]))'),
      # no pool is skipped: a pass over the wait pool gives every waiting task whose
      # environment is ready a placement attempt, whatever happened in other pools
      # (the code tries every such pool - that is the loop invariant; the property only
      # needs the weaker statement, which also holds for a pass that stops once a
      # higher priority pool could not be placed completely)
      ('a-ready-waiting-task-is-tried-unless-a-higher-priority-task-was-tried-and-still-waits',
       'forall(lambda p, u: implies(inpool(old(self._waitpool), p, u) and not needs_env(at(at(old(self._waitpool), p), u), self._named_envs), '
       'exists(lambda a: 0 <= a < len(tried) and tried[a] == p) or '
       'exists(lambda q, v: q > p and inpool(self._waitpool, q, v) and not needs_env(at(at(self._waitpool, q), v), self._named_envs) and '
       'exists(lambda a: 0 <= a < len(tried) and tried[a] == q), Int, Str)), Int, Str)'),
      ('activity-flag-tells-whether-something-started', 'result[1] == (n_started > old(n_started))'),
    ],
    loops = {
      '1': _place_inv + ['wp_inv(self._waitpool, fate)', 'pool_ok(self._waitpool)',
            'self._active_cnt - old(self._active_cnt) == n_started - old(n_started) and n_started >= old(n_started)',
            'active == (n_started > old(n_started))',
            'forall(lambda p: indom(self._waitpool, p) == indom(old(self._waitpool), p), Int)',
            'forall(lambda j, u: implies(i_priority <= j < len(seq_priority), '
            'indom(at(self._waitpool, seq_priority[j]), u) == indom(at(old(self._waitpool), seq_priority[j]), u) and '
            'implies(indom(at(self._waitpool, seq_priority[j]), u), at(at(self._waitpool, seq_priority[j]), u) == at(at(old(self._waitpool), seq_priority[j]), u))), Int, Str)',
            'forall(lambda j, u: implies(0 <= j < i_priority and inpool(old(self._waitpool), seq_priority[j], u), '
            'still_waits(at(at(old(self._waitpool), seq_priority[j]), u), seq_priority[j], self._waitpool, fate) or '
            'left_pool(at(at(old(self._waitpool), seq_priority[j]), u), self._waitpool, fate)), Int, Str)',
            'forall(lambda p, u: implies(inpool(self._waitpool, p, u), inpool(old(self._waitpool), p, u)), Int, Str)',
            'forall(lambda u: implies(at(fate, u) != at(old(fate), u), '
            'exists(lambda j: 0 <= j < i_priority and inpool(old(self._waitpool), seq_priority[j], u))), Str)',
            'forall(lambda a, b: implies(0 <= a < b < len(tried), tried[a] > tried[b]))',
            'forall(lambda a, j: implies(0 <= a < len(tried) and i_priority <= j < len(seq_priority), tried[a] > seq_priority[j]))',
            'forall(lambda j, u: implies(0 <= j < i_priority and inpool(old(self._waitpool), seq_priority[j], u) and '
            'not needs_env(at(at(old(self._waitpool), seq_priority[j]), u), self._named_envs), '
            'exists(lambda a: 0 <= a < len(tried) and tried[a] == seq_priority[j])), Int, Str)'],
      '1.1': ['self._waitpool == at_head("1", self._waitpool)', 'same_fate(fate, at_head("1", fate))',
              'pool == at(self._waitpool, priority)', 'len(to_test) + len(to_wait) == i_task',
              'forall(lambda j: implies(0 <= j < i_task, ite(needs_env(at(pool, keys_task[j]), self._named_envs), '
              'is_at(to_wait, at(wpos, keys_task[j]), keys_task[j]) and to_wait[at(wpos, keys_task[j])] == at(pool, keys_task[j]), '
              'is_at(to_test, at(tpos, keys_task[j]), keys_task[j]) and to_test[at(tpos, keys_task[j])] == at(pool, keys_task[j]))))',
              'forall(lambda m: implies(0 <= m < len(to_test), indom(pool, to_test[m].uid) and at(pool, to_test[m].uid) == to_test[m] and '
              'at(tpos, to_test[m].uid) == m and not needs_env(to_test[m], self._named_envs) and to_test[m].uid in elig and '
              'exists(lambda j: 0 <= j < i_task and keys_task[j] == to_test[m].uid)))',
              'forall(lambda m: implies(0 <= m < len(to_wait), indom(pool, to_wait[m].uid) and at(pool, to_wait[m].uid) == to_wait[m] and '
              'at(wpos, to_wait[m].uid) == m and needs_env(to_wait[m], self._named_envs) and to_wait[m].uid not in elig and '
              'exists(lambda j: 0 <= j < i_task and keys_task[j] == to_wait[m].uid)))'],
      '1.2': ['failed == at_entry("1.2", failed)', 'self._waitpool == at_entry("1.2", self._waitpool)', 'self.nodes == at_entry("1.2", self.nodes)',
              'self._active_cnt == at_entry("1.2", self._active_cnt)', 'self._node_offset == at_entry("1.2", self._node_offset)',
              'n_started == at_entry("1.2", n_started)', 'tried == at_entry("1.2", tried)', 'active == at_entry("1.2", active)',
              'resources == at_entry("1.2", resources)',
              'scheduled == at_entry("1.2", scheduled)', 'unscheduled == at_entry("1.2", unscheduled)', 'to_wait == at_entry("1.2", to_wait)',
              'forall(lambda m: implies(0 <= m < i_error, at(fate, failed[m][0].uid) == F_FAILED))',
              'forall(lambda m: implies(i_error <= m < len(failed), at(fate, failed[m][0].uid) == F_NONE))',
              'forall(lambda a, b: implies(0 <= a < b < len(failed), failed[a][0].uid != failed[b][0].uid))',
              'forall(lambda k: implies(0 <= k < len(scheduled), at(fate, scheduled[k].uid) == F_NONE))',
              'forall(lambda k, m: implies(0 <= k < len(scheduled) and 0 <= m < len(failed), scheduled[k].uid != failed[m][0].uid))',
              'forall(lambda u: implies(at(fate, u) != at(at_entry("1.2", fate), u), '
              'exists(lambda m: 0 <= m < i_error and failed[m][0].uid == u)), Str)'],
      '1.3': ['self._waitpool == at_entry("1.3", self._waitpool)', 'self.nodes == at_entry("1.3", self.nodes)',
              'self._active_cnt == at_entry("1.3", self._active_cnt)', 'self._node_offset == at_entry("1.3", self._node_offset)',
              'n_started == at_entry("1.3", n_started)', 'tried == at_entry("1.3", tried)', 'active == at_entry("1.3", active)',
              'resources == at_entry("1.3", resources)', 'same_fate(fate, at_entry("1.3", fate))',
              'unscheduled == at_entry("1.3", unscheduled)',
              'forall(lambda k: implies(0 <= k < len(scheduled), at(fate, scheduled[k].uid) == F_NONE))',
              'len(scheduled) == len(at_entry("1.3", scheduled))',
              'forall(lambda k: implies(0 <= k < len(scheduled), scheduled[k].uid == at_entry("1.3", scheduled)[k].uid and '
              'scheduled[k].slots == at_entry("1.3", scheduled)[k].slots and scheduled[k].description == at_entry("1.3", scheduled)[k].description '
              'and scheduled[k].state == at_entry("1.3", scheduled)[k].state))'],
    },
    opts   = dict(merge='scalars', parallel=10),
    serves = ['C04'])


# ------------------------------------------------------------------------------
# the main loop of _schedule_tasks: the `resources` flag.  Ghost `owed`: a release
# was seen (by _unschedule_completed, whose verified contract says it reports new
# resources iff it released something) and the wait pool has not been scanned
# since.  The loop must not start an iteration with a scan owed and the flag off.
def _l_waitpool(ex, node, st):
    st.env['owed'] = C.lift(False)
    st.env['scans'] = Val(T.Int, ex.get_var(st, 'scans').term + 1)
    return PyTuple([fresh(T.Bool, 'r_wait'), fresh(T.Bool, 'a_wait')])
_l_waitpool.mutates = ('owed', 'scans')

def _l_incoming(ex, node, st):
    nothing = z3.Bool(C.fresh_name('no_incoming'))
    r = fresh(T.Opt(T.Bool), 'r_inc'); a = fresh(T.Bool, 'a_inc')
    # contract of _schedule_incoming: (None, False) when nothing arrived, else (bool, True)
    st.assume(z3.If(nothing, z3.And(r.ty.is_none(r.term), z3.Not(a.term)), z3.And(r.ty.is_some(r.term), a.term)))
    return PyTuple([r, a])
_l_incoming.mutates = ()

def _l_unschedule(ex, node, st):
    r = fresh(T.Bool, 'r_rel'); a = fresh(T.Bool, 'a_rel')
    st.assume(z3.Implies(r.term, a.term))
    owed = ex.get_var(st, 'owed')
    st.env['owed'] = Val(T.Bool, z3.Or(owed.term, r.term))
    return PyTuple([r, a])
_l_unschedule.mutates = ('owed',)

REG.spec('agent/scheduler/base.py:AgentSchedulingComponent._schedule_tasks#loop',
    fragment = 'while not self._term.is_set():',
    params   = dict(resources=T.Bool),
    self     = dict(_waitpool=WPool),
    ghost    = dict(owed=T.Bool, scans=T.Int),
    locals   = dict(active=T.Int, r_wait=T.Bool, r_inc=T.Opt(T.Bool), r=T.Bool, a=T.Bool),
    calls    = {'self._term.is_set': nondet_bool, 'self._schedule_waitpool': _l_waitpool,
                'self._schedule_incoming': _l_incoming, 'self._unschedule_completed': _l_unschedule},
    effects  = {'time.sleep': ignore_call},
    requires = ['implies(owed, resources)'],
    modifies = ['resources', 'owed', 'scans'],
    raises   = {},
    ensures  = [('no-scan-is-owed-with-the-flag-off', 'implies(owed, resources)')],
    loops = {'1': [('a-release-is-followed-by-a-wait-pool-scan-in-the-next-iteration', 'implies(owed, resources)', 'dsinv'),
                   'scans >= old(scans)']},
    serves = ['C04'])


# ------------------------------------------------------------------------------
# C08: cancel of tasks parked in a raptor backlog (scheduler control_cb): the named
# tasks leave their backlog and are reported CANCELED, the others stay
RBTask  = T.Rec('RBTask', uid=T.Str, state=T.Opt(T.Str))
RBTaskL = T.List(RBTask)
RBMap   = T.Map(T.Str, RBTaskL)
REG.define('rb_in(xs, x)', 'exists(lambda j_: 0 <= j_ < len(xs) and xs[j_] == x)')
REG.define('rb_distinct(xs)', 'forall(lambda a_, b_: implies(0 <= a_ < b_ < len(xs), xs[a_].uid != xs[b_].uid))')

REG.spec('agent/scheduler/base.py:AgentSchedulingComponent.control_cb#raptor-cancel',
    fragment = 'for queue in self._raptor_tasks:',
    params   = dict(uids=T.List(T.Str), to_cancel=RBTaskL),
    self     = dict(_raptor_tasks=RBMap),
    locals   = dict(matches=RBTaskL),
    requires = ['forall(lambda q: implies(indom(self._raptor_tasks, q), rb_distinct(at(self._raptor_tasks, q))), Str)'],
    modifies = ['self._raptor_tasks', 'to_cancel'],
    raises   = {},
    ensures  = [
      ('only-named-tasks-are-canceled', 'forall(lambda k: implies(len(old(to_cancel)) <= k < len(to_cancel), to_cancel[k].uid in uids))'),
      ('no-backlog-appears-or-disappears', 'forall(lambda q: indom(self._raptor_tasks, q) == indom(old(self._raptor_tasks), q), Str)'),
      ('what-stays-in-a-backlog-was-there-and-is-not-named',
       'forall(lambda q: implies(indom(self._raptor_tasks, q), forall(lambda j: implies(0 <= j < len(at(self._raptor_tasks, q)), '
       'at(self._raptor_tasks, q)[j].uid not in uids and rb_in(at(old(self._raptor_tasks), q), at(self._raptor_tasks, q)[j])))), Str)'),
      ('bystanders-stay-in-their-backlog',
       'forall(lambda q: implies(indom(self._raptor_tasks, q), forall(lambda i: implies(0 <= i < len(at(old(self._raptor_tasks), q)) and '
       'at(old(self._raptor_tasks), q)[i].uid not in uids, rb_in(at(self._raptor_tasks, q), at(old(self._raptor_tasks), q)[i])))), Str)'),
      ('every-named-task-of-a-backlog-is-canceled',
       'forall(lambda q: implies(indom(old(self._raptor_tasks), q), forall(lambda i: implies(0 <= i < len(at(old(self._raptor_tasks), q)) and '
       'at(old(self._raptor_tasks), q)[i].uid in uids, rb_in(to_cancel, at(old(self._raptor_tasks), q)[i])))), Str)'),
    ],
    loops = {
      '1': ['forall(lambda q: indom(self._raptor_tasks, q) == indom(old(self._raptor_tasks), q), Str)',
            'len(to_cancel) >= len(old(to_cancel))',
            'forall(lambda k: implies(len(old(to_cancel)) <= k < len(to_cancel), to_cancel[k].uid in uids))',
            'forall(lambda m: implies(i_queue <= m < len(keys_queue), at(self._raptor_tasks, keys_queue[m]) == at(old(self._raptor_tasks), keys_queue[m])))',
            'forall(lambda m: implies(0 <= m < i_queue, forall(lambda j: implies(0 <= j < len(at(self._raptor_tasks, keys_queue[m])), '
            'at(self._raptor_tasks, keys_queue[m])[j].uid not in uids and rb_in(at(old(self._raptor_tasks), keys_queue[m]), at(self._raptor_tasks, keys_queue[m])[j])))))',
            'forall(lambda m: implies(0 <= m < i_queue, forall(lambda i: implies(0 <= i < len(at(old(self._raptor_tasks), keys_queue[m])) and '
            'at(old(self._raptor_tasks), keys_queue[m])[i].uid not in uids, rb_in(at(self._raptor_tasks, keys_queue[m]), at(old(self._raptor_tasks), keys_queue[m])[i])))))',
            'forall(lambda m: implies(0 <= m < i_queue, forall(lambda i: implies(0 <= i < len(at(old(self._raptor_tasks), keys_queue[m])) and '
            'at(old(self._raptor_tasks), keys_queue[m])[i].uid in uids, rb_in(to_cancel, at(old(self._raptor_tasks), keys_queue[m])[i])))))'],
      '1.1': ['forall(lambda q: indom(self._raptor_tasks, q) == indom(old(self._raptor_tasks), q), Str)',
              'forall(lambda q: implies(q != queue, at(self._raptor_tasks, q) == at(at_head("1", self._raptor_tasks), q)), Str)',
              'len(to_cancel) == len(at_head("1", to_cancel)) + i_task',
              'forall(lambda k: implies(0 <= k < len(at_head("1", to_cancel)), to_cancel[k] == at_head("1", to_cancel)[k]))',
              'forall(lambda k: implies(0 <= k < i_task, to_cancel[len(at_head("1", to_cancel)) + k] == matches[k]))',
              'rb_distinct(at(self._raptor_tasks, queue))',
              'forall(lambda k: implies(0 <= k < len(matches), matches[k].uid in uids))',
              'forall(lambda k: implies(len(old(to_cancel)) <= k < len(to_cancel), to_cancel[k].uid in uids))',
              'len(at_head("1", to_cancel)) >= len(old(to_cancel))',
              # B against B0 = the backlog at the head of this outer iteration
              'forall(lambda j: implies(0 <= j < len(at(self._raptor_tasks, queue)), rb_in(at(old(self._raptor_tasks), queue), at(self._raptor_tasks, queue)[j])))',
              'forall(lambda j: implies(0 <= j < len(at(self._raptor_tasks, queue)) and at(self._raptor_tasks, queue)[j].uid in uids, '
              'exists(lambda k: i_task <= k < len(matches) and matches[k] == at(self._raptor_tasks, queue)[j])))',
              'forall(lambda i: implies(0 <= i < len(at(old(self._raptor_tasks), queue)) and at(old(self._raptor_tasks), queue)[i].uid not in uids, '
              'rb_in(at(self._raptor_tasks, queue), at(old(self._raptor_tasks), queue)[i])))',
              'forall(lambda k: implies(i_task <= k < len(matches), rb_in(at(self._raptor_tasks, queue), matches[k])))'],
    },
    opts   = dict(parallel=8),
    serves = ['C08'])


# ------------------------------------------------------------------------------
# C20 / C04: what happens to the tasks the intake set aside for a raptor master
# (to_raptor[name]): handed to the named master's queue, spread over the registered
# queues ('*'), or parked until a master registers - each task exactly one of these
RPut   = T.Rec('RPut', queue=T.Str, uid=T.Str)
RQMap  = T.Map(T.Str, T.Any)
RBack  = T.Map(T.Str, ATaskL)

def _rq_put_list(qexpr):
    def h(ex, node, st):
        q  = C.coerce(ex.ev(qexpr(node), st), T.Str)
        ts = ex.ev(node.args[0], st)
        log = ex.get_var(st, 'rput')
        lty = log.ty
        l0 = lty.len(log.term)
        if isinstance(ts.ty, C.TRec):
            e = RPut.mk(q.term, ts.ty.get(ts.term, 'uid'))
            st.env['rput'] = Val(lty, lty.mk(z3.Store(lty.arr(log.term), l0, e), l0 + 1))
            return C.NONE
        n = ts.ty.len(ts.term)
        i = z3.Int(C.fresh_name('i'))
        out = ex.fresh_wf(st, lty, 'rput')
        st.assume(lty.len(out.term) == l0 + n)
        st.assume(z3.ForAll([i], z3.Implies(z3.And(0 <= i, i < l0), z3.Select(lty.arr(out.term), i) == z3.Select(lty.arr(log.term), i))))
        st.assume(z3.ForAll([i], z3.Implies(z3.And(l0 <= i, i < l0 + n),
                  z3.Select(lty.arr(out.term), i) == RPut.mk(q.term, ts.ty.elem.get(z3.Select(ts.ty.arr(ts.term), i - l0), 'uid'))),
                  patterns=[z3.Select(lty.arr(out.term), i)]))
        st.env['rput'] = out
        return C.NONE
    h.mutates = ('rput',)
    return h

_q_of = lambda node: node.func.value.slice          # self._raptor_queues[<q>].put(..)

REG.spec(_FRAG + '#to-raptor',
    fragment = 'if name in self._raptor_queues:',
    params   = dict(name=T.Str, to_raptor=Raptor),
    self     = dict(_raptor_queues=RQMap, _raptor_tasks=RBack),
    ghost    = dict(rput=T.List(RPut)),
    locals   = dict(names=T.List(T.Str), n_names=T.Int, task=ATask, qname=T.Str),
    calls    = {'self._raptor_queues[name].put': _rq_put_list(_q_of), 'self._raptor_queues[qname].put': _rq_put_list(_q_of)},
    requires = ['indom(to_raptor, name)'],
    modifies = ['self._raptor_tasks', 'rput'],
    raises   = {},
    ensures  = [
      ('tasks-for-a-registered-master-go-to-its-queue-once-in-order',
       'implies(indom(self._raptor_queues, name), self._raptor_tasks == old(self._raptor_tasks) and '
       'len(rput) == len(old(rput)) + len(at(to_raptor, name)) and forall(lambda i: implies(0 <= i < len(at(to_raptor, name)), '
       'rput[len(old(rput)) + i].queue == name and rput[len(old(rput)) + i].uid == at(to_raptor, name)[i].uid)))'),
      ('tasks-for-any-master-go-to-one-registered-queue-each',
       'implies(not indom(self._raptor_queues, name) and bool(self._raptor_queues) and name == "*", '
       'self._raptor_tasks == old(self._raptor_tasks) and len(rput) == len(old(rput)) + len(at(to_raptor, name)) and '
       'forall(lambda i: implies(0 <= i < len(at(to_raptor, name)), indom(self._raptor_queues, rput[len(old(rput)) + i].queue) and '
       'rput[len(old(rput)) + i].uid == at(to_raptor, name)[i].uid)))'),
      ('tasks-for-a-master-not-yet-registered-are-parked-behind-those-already-parked',
       'implies(not indom(self._raptor_queues, name) and not (bool(self._raptor_queues) and name == "*"), '
       'rput == old(rput) and indom(self._raptor_tasks, name) and '
       'at(self._raptor_tasks, name) == ite(indom(old(self._raptor_tasks), name), at(old(self._raptor_tasks), name) + at(to_raptor, name), at(to_raptor, name)) and '
       'forall(lambda q: implies(q != name, indom(self._raptor_tasks, q) == indom(old(self._raptor_tasks), q) and '
       'at(self._raptor_tasks, q) == at(old(self._raptor_tasks), q)), Str))'),
      ('earlier-hand-overs-kept', 'forall(lambda k: implies(0 <= k < len(old(rput)), rput[k] == old(rput)[k]))'),
    ],
    loops = {'1': ['self._raptor_tasks == old(self._raptor_tasks)', 'len(rput) == len(old(rput)) + i_idx',
                   'n_names == len(names)', 'n_names > 0',
                   'forall(lambda m: implies(0 <= m < len(names), indom(self._raptor_queues, names[m])))',
                   'forall(lambda k: implies(0 <= k < len(old(rput)), rput[k] == old(rput)[k]))',
                   'forall(lambda i: implies(0 <= i < i_idx, indom(self._raptor_queues, rput[len(old(rput)) + i].queue) and '
                   'rput[len(old(rput)) + i].uid == at(to_raptor, name)[i].uid))']},
    serves = ['C20', 'C04'])

_CCB = 'agent/scheduler/base.py:AgentSchedulingComponent.control_cb'
_put_name = {'self._raptor_queues[name].put': _rq_put_list(_q_of)}

def _relayed(key):
    return ('implies(indom(old(self._raptor_tasks), %(k)s), not indom(self._raptor_tasks, %(k)s) and '
            'len(rput) == len(old(rput)) + len(at(old(self._raptor_tasks), %(k)s)) and '
            'forall(lambda i: implies(0 <= i < len(at(old(self._raptor_tasks), %(k)s)), rput[len(old(rput)) + i].queue == name and '
            'rput[len(old(rput)) + i].uid == at(old(self._raptor_tasks), %(k)s)[i].uid))) and '
            'implies(not indom(old(self._raptor_tasks), %(k)s), rput == old(rput) and self._raptor_tasks == old(self._raptor_tasks)) and '
            'forall(lambda q: implies(q != %(k)s, indom(self._raptor_tasks, q) == indom(old(self._raptor_tasks), q) and '
            'at(self._raptor_tasks, q) == at(old(self._raptor_tasks), q)), Str) and '
            'forall(lambda k: implies(0 <= k < len(old(rput)), rput[k] == old(rput)[k]))') % dict(k=key)

REG.spec(_CCB + '#relay-named',
    fragment = 'if name in self._raptor_tasks:', fragment_index = 0, fragment_count = 2,
    params   = dict(name=T.Str),
    self     = dict(_raptor_queues=RQMap, _raptor_tasks=RBack),
    ghost    = dict(rput=T.List(RPut)),
    locals   = dict(tasks=ATaskL),
    calls    = _put_name,
    modifies = ['self._raptor_tasks', 'rput'],
    raises   = {},
    ensures  = [('tasks-parked-for-the-registering-master-are-handed-to-its-queue-once-and-leave-the-backlog', _relayed('name'))],
    serves   = ['C20', 'C04'])

REG.spec(_CCB + '#relay-any',
    fragment = "if '*' in self._raptor_tasks:",
    params   = dict(name=T.Str),
    self     = dict(_raptor_queues=RQMap, _raptor_tasks=RBack),
    ghost    = dict(rput=T.List(RPut)),
    locals   = dict(tasks=ATaskL),
    calls    = _put_name,
    modifies = ['self._raptor_tasks', 'rput'],
    raises   = {},
    ensures  = [('tasks-parked-for-any-master-are-handed-to-the-registering-master-once-and-leave-the-backlog', _relayed('"*"'))],
    serves   = ['C20', 'C04'])

RFail = T.Rec('RFail', uid=T.Str)
def _note_fail(ex, node, st):
    t = ex.ev(node.args[0], st)
    log = ex.get_var(st, 'rfail')
    ty = log.ty
    n = ty.len(log.term)
    st.env['rfail'] = Val(ty, ty.mk(z3.Store(ty.arr(log.term), n, t.ty.get(t.term, 'uid')), n + 1))
    return C.NONE
_note_fail.mutates = ('rfail',)

REG.spec(_CCB + '#master-gone',
    fragment = 'if name in self._raptor_tasks:', fragment_index = 1, fragment_count = 2,
    params   = dict(name=T.Str),
    self     = dict(_raptor_tasks=RBack),
    ghost    = dict(rfail=T.List(T.Str)),
    locals   = dict(tasks=ATaskL),
    calls    = {'self._fail_task': _note_fail},
    modifies = ['self._raptor_tasks', 'rfail'],
    raises   = {},
    ensures  = [('tasks-parked-for-a-master-that-disappears-are-failed-once-each-and-leave-the-backlog',
                 'implies(indom(old(self._raptor_tasks), name), not indom(self._raptor_tasks, name) and '
                 'len(rfail) == len(old(rfail)) + len(at(old(self._raptor_tasks), name)) and '
                 'forall(lambda i: implies(0 <= i < len(at(old(self._raptor_tasks), name)), rfail[len(old(rfail)) + i] == at(old(self._raptor_tasks), name)[i].uid))) and '
                 'implies(not indom(old(self._raptor_tasks), name), rfail == old(rfail) and self._raptor_tasks == old(self._raptor_tasks)) and '
                 'forall(lambda q: implies(q != name, indom(self._raptor_tasks, q) == indom(old(self._raptor_tasks), q) and '
                 'at(self._raptor_tasks, q) == at(old(self._raptor_tasks), q)), Str)')],
    loops    = {'1': ['not indom(self._raptor_tasks, name)', 'len(rfail) == len(old(rfail)) + i_task',
                      'tasks == at(old(self._raptor_tasks), name)',
                      'forall(lambda k: implies(0 <= k < len(old(rfail)), rfail[k] == old(rfail)[k]))',
                      'forall(lambda i: implies(0 <= i < i_task, rfail[len(old(rfail)) + i] == tasks[i].uid))',
                      'forall(lambda q: implies(q != name, indom(self._raptor_tasks, q) == indom(old(self._raptor_tasks), q) and '
                      'at(self._raptor_tasks, q) == at(old(self._raptor_tasks), q)), Str)']},
    serves   = ['C20', 'C04', 'C05'])

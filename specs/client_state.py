"""C06 / C13: Task._update, TaskManager._update_tasks, TaskManager._pilot_state_cb"""
from pyvc.spec import REG, T
from .types import OStr, OAny, TaskObj, TaskDict
from .effects import ignore_call, log_call

REG.spec('states.py:_task_state_value',
    params=dict(s=OStr), returns=T.Int,
    raises={'KeyError': 'not is_tstate(s)'},
    ensures=['result == tv(s)'], serves=['C06'])

# the state the update really asks for: a CANCELED task only accepts DONE
REG.define('eff_target(cur, tgt)',
           'ite(cur == CANCELED and tgt != DONE, cur, tgt)')

_fields_unchanged = ' and '.join('self.%s == old(self.%s)' % (f, f)
                                 for f in TaskObj.fields)

REG.spec('task.py:Task._update',
    self_type = TaskObj,
    params    = dict(task_dict=TaskDict, reconnect=T.Bool),
    defaults  = dict(reconnect=False),
    requires  = ['is_tstate(self._state)', 'is_tstate(task_dict.state)'],
    raises    = {'AssertionError': 'task_dict.uid != self._uid',
                 'RuntimeError':
                     'task_dict.uid == self._uid and self._state not in [FAILED, DONE] '
                     'and not reconnect '
                     'and eff_target(self._state, task_dict.state) not in [FAILED, CANCELED] '
                     'and tv(eff_target(self._state, task_dict.state)) - tv(self._state) != 1'},
    effects   = {'self._set_info': ignore_call},
    modifies  = ['self'],
    ensures   = [
      ('done-failed-are-sticky',
       'implies(old(self._state) in [DONE, FAILED], self == old(self))'),
      ('canceled-only-yields-to-done',
       'implies(old(self._state) == CANCELED, self._state == CANCELED or '
       '(self._state == DONE and task_dict.state == DONE))'),
      ('state-is-requested',
       'implies(old(self._state) not in [DONE, FAILED] and '
       'eff_target(old(self._state), task_dict.state) is not None, '
       'self._state == eff_target(old(self._state), task_dict.state))'),
      ('single-step-or-abort',
       'implies(self._state != old(self._state) and not reconnect, '
       'self._state in [FAILED, CANCELED] or tv(self._state) == tv(old(self._state)) + 1)'),
      ('uid-kept', 'self._uid == old(self._uid)'),
      ('state-known', 'is_tstate(self._state)'),
      ('pilot-kept-or-set', 'self._pilot == old(self._pilot) or self._pilot == task_dict.pilot'),
      ('pilot-kept-unless-given', 'implies(task_dict.pilot is None, self._pilot == old(self._pilot))'),
      ('detail-kept-or-set', 'implies(old(self._state) not in [DONE, FAILED] and task_dict.exception_detail is not None, self._exception_detail == task_dict.exception_detail)'),
    ],
    exc_ensures = {'RuntimeError': [('unchanged-on-error', 'self == old(self)')],
                   'AssertionError': [('unchanged-on-error', 'self == old(self)')]},
    serves    = ['C06', 'C13'])


# ------------------------------------------------------------------------------
# TaskManager._update_tasks
#
CbEvt = T.Rec('CbEvt', uid=T.Str, state=OStr)
TaskMap = T.Map(T.Str, TaskObj)

# data structure invariant of TaskManager._tasks / _task_info
REG.define('tmgr_inv(tasks, info)',
    'forall(lambda u: implies(indom(tasks, u), at(tasks, u)._uid == u and '
    'is_tstate(at(tasks, u)._state) and indom(info, u)), Str)')

_cb_effect = log_call('cb_log', CbEvt, dict(uid='task._uid', state='state'),
                      params=['task', 'state'])

REG.spec('task_manager.py:TaskManager._update_tasks',
    params   = dict(task_dicts=T.List(TaskDict)),
    self     = dict(_tasks=TaskMap, _task_info=T.Map(T.Str, T.Any)),
    ghost    = dict(cb_log=T.List(CbEvt)),
    globals  = dict(_USE_BULK_CB=T.Bool),
    locals   = dict(to_notify=T.List(T.Tuple(TaskObj, OStr)),
                    passed=T.List(OStr)),
    effects  = {'self._task_cb': _cb_effect, 'ru.dict_merge': ignore_call,
                'self._bulk_cbs': ignore_call},
    requires = ['tmgr_inv(self._tasks, self._task_info)',
                'forall(lambda i: implies(0 <= i < len(task_dicts), is_tstate(task_dicts[i].state)))',
                'not _USE_BULK_CB'],
    modifies = ['self._tasks', 'task_dicts', 'cb_log'],
    # C06: no notification batch, however contradictory, raises
    raises   = {},
    no_raise_is_property = True,
    ensures  = [
      ('ds-invariant', 'tmgr_inv(self._tasks, self._task_info)'),
      ('same-tasks', 'forall(lambda u: indom(self._tasks, u) == indom(old(self._tasks), u), Str)'),
      ('unnamed-untouched',
       'forall(lambda u: implies(indom(self._tasks, u) and '
       'forall(lambda i: implies(0 <= i < len(task_dicts), old(task_dicts)[i].uid != u)), '
       'at(self._tasks, u) == at(old(self._tasks), u)), Str)'),
      ('final-is-sticky',
       'forall(lambda u: implies(indom(self._tasks, u) and at(old(self._tasks), u)._state in FINAL, '
       'at(self._tasks, u)._state == at(old(self._tasks), u)._state), Str)'),
      ('never-backward',
       'forall(lambda u: implies(indom(self._tasks, u), '
       'tv(at(self._tasks, u)._state) >= tv(at(old(self._tasks), u)._state)), Str)'),
      ('callbacks-announce-passed-states',
       'forall(lambda k: implies(len(old(cb_log)) <= k < len(cb_log), '
       'indom(self._tasks, cb_log[k].uid) and '
       'tv(cb_log[k].state) > tv(at(old(self._tasks), cb_log[k].uid)._state) and '
       'tv(cb_log[k].state) <= tv(at(self._tasks, cb_log[k].uid)._state)))'),
      ('callbacks-in-order',
       'forall(lambda k, l: implies(len(old(cb_log)) <= k < l < len(cb_log) and '
       'cb_log[k].uid == cb_log[l].uid, tv(cb_log[k].state) < tv(cb_log[l].state)))'),
      ('old-callbacks-kept',
       'forall(lambda k: implies(0 <= k < len(old(cb_log)), cb_log[k] == old(cb_log)[k]))'),
    ],
    loops = {
      '1': ['tmgr_inv(self._tasks, self._task_info)',
            'len(task_dicts) == len(old(task_dicts))',
            'forall(lambda i: implies(0 <= i < len(task_dicts), task_dicts[i].uid == old(task_dicts)[i].uid))',
            'forall(lambda i: implies(i_task_dict <= i < len(task_dicts), task_dicts[i] == old(task_dicts)[i]))',
            'forall(lambda u: indom(self._tasks, u) == indom(old(self._tasks), u), Str)',
            'forall(lambda u: implies(indom(self._tasks, u) and '
            'forall(lambda i: implies(0 <= i < i_task_dict, old(task_dicts)[i].uid != u)), '
            'at(self._tasks, u) == at(old(self._tasks), u)), Str)',
            'forall(lambda u: implies(indom(self._tasks, u) and at(old(self._tasks), u)._state in FINAL, '
            'at(self._tasks, u)._state == at(old(self._tasks), u)._state), Str)',
            'forall(lambda u: implies(indom(self._tasks, u), '
            'tv(at(self._tasks, u)._state) >= tv(at(old(self._tasks), u)._state)), Str)',
            'cb_log == old(cb_log)',
            # to_notify: what will be announced
            'forall(lambda k: implies(0 <= k < len(to_notify), '
            'indom(self._tasks, to_notify[k][0]._uid) and '
            'tv(to_notify[k][1]) > tv(at(old(self._tasks), to_notify[k][0]._uid)._state) and '
            'tv(to_notify[k][1]) <= tv(at(self._tasks, to_notify[k][0]._uid)._state)))',
            'forall(lambda k, l: implies(0 <= k < l < len(to_notify) and '
            'to_notify[k][0]._uid == to_notify[l][0]._uid, tv(to_notify[k][1]) < tv(to_notify[l][1])))',
            ],
      '1.1': [
            'indom(self._tasks, uid)', 'task_dict.uid == uid', 'is_some(task)', 'val(task)._uid == uid',
            'tmgr_inv(self._tasks, self._task_info)',
            'forall(lambda u: indom(self._tasks, u) == indom(old(self._tasks), u), Str)',
            'forall(lambda u: implies(u != uid, at(self._tasks, u) == at(at_head("1", self._tasks), u)), Str)',
            'len(task_dicts) == len(old(task_dicts))',
            'forall(lambda i: implies(0 <= i < len(task_dicts) and i != i_task_dict, task_dicts[i] == at_head("1", task_dicts)[i]))',
            'current == at_head("1", self._tasks)[uid]._state',
            'implies(len(passed) > 0, current not in FINAL)',
            # states applied so far: consecutive steps, or one jump to FAILED/CANCELED
            'implies(i_s == 0, at(self._tasks, uid)._state == current)',
            'implies(i_s > 0, at(self._tasks, uid)._state == passed[i_s - 1])',
            'implies(target in [CANCELED, FAILED] and len(passed) > 0, len(passed) == 1 and passed[0] == target)',
            'implies(target not in [CANCELED, FAILED], forall(lambda j: implies(0 <= j < len(passed), '
            'tv(passed[j]) == tv(current) + 1 + j and passed[j] not in [CANCELED, FAILED])))',
            'forall(lambda j: implies(0 <= j < len(passed), is_tstate(passed[j]) and passed[j] is not None))',
            'cb_log == old(cb_log)',
            'tv(at(self._tasks, uid)._state) >= tv(current)',
            'tv(current) >= tv(at(old(self._tasks), uid)._state)',
            'forall(lambda j: implies(0 <= j < len(passed), tv(passed[j]) > tv(current)))',
            'forall(lambda j, j2: implies(0 <= j < j2 < len(passed), tv(passed[j]) < tv(passed[j2])))',
            'forall(lambda u: implies(indom(self._tasks, u) and at(old(self._tasks), u)._state in FINAL, '
            'at(self._tasks, u)._state == at(old(self._tasks), u)._state), Str)',
            'forall(lambda u: implies(indom(self._tasks, u), '
            'tv(at(self._tasks, u)._state) >= tv(at(old(self._tasks), u)._state)), Str)',
            'forall(lambda k: implies(0 <= k < len(to_notify), '
            'indom(self._tasks, to_notify[k][0]._uid) and '
            'tv(to_notify[k][1]) > tv(at(old(self._tasks), to_notify[k][0]._uid)._state) and '
            'tv(to_notify[k][1]) <= tv(at(self._tasks, to_notify[k][0]._uid)._state)))',
            'forall(lambda k, l: implies(0 <= k < l < len(to_notify) and '
            'to_notify[k][0]._uid == to_notify[l][0]._uid, tv(to_notify[k][1]) < tv(to_notify[l][1])))',
            'forall(lambda k: implies(0 <= k < len(at_head("1", to_notify)) and to_notify[k][0]._uid == uid, '
            'tv(to_notify[k][1]) <= tv(current)))',
            'len(to_notify) == len(at_head("1", to_notify)) + i_s',
            'forall(lambda k: implies(0 <= k < len(at_head("1", to_notify)), to_notify[k] == at_head("1", to_notify)[k]))',
            'forall(lambda k: implies(0 <= k < i_s, to_notify[len(at_head("1", to_notify)) + k][0]._uid == uid and '
            'to_notify[len(at_head("1", to_notify)) + k][1] == passed[k]))',
            ],
      '2': ['len(cb_log) == len(old(cb_log)) + i_state',
            'forall(lambda k: implies(0 <= k < len(old(cb_log)), cb_log[k] == old(cb_log)[k]))',
            'forall(lambda k: implies(len(old(cb_log)) <= k < len(cb_log), cb_log[k].uid == to_notify[k - len(old(cb_log))][0]._uid and '
            'cb_log[k].state == to_notify[k - len(old(cb_log))][1]))'],
    },
    opts = dict(no_merge=True),
    serves = ['C06'])


# ------------------------------------------------------------------------------
# C13: TaskManager._pilot_state_cb
#
from .types import PilotObj
from .effects import nondet_bool

# a task is doomed by the notification if it is bound to one of the notified
# pilots that is final, and is not final itself
REG.define('dies_with(t, pilots)',
    'exists(lambda i: 0 <= i < len(pilots) and pilots[i]._state in FINAL and '
    't._pilot == pilots[i]._uid)')

_c13_post = [
  ('own-tasks-fail',
   'forall(lambda u: implies(indom(self._tasks, u) and '
   'at(old(self._tasks), u)._state not in FINAL and '
   'dies_with(at(old(self._tasks), u), PS), '
   'at(self._tasks, u)._state == FAILED and '
   'at(self._tasks, u)._exception_detail == "pilot %s is final" % val(at(old(self._tasks), u)._pilot)), Str)'),
  ('final-tasks-keep-state',
   'forall(lambda u: implies(indom(self._tasks, u) and at(old(self._tasks), u)._state in FINAL, '
   'at(self._tasks, u)._state == at(old(self._tasks), u)._state), Str)'),
  ('tasks-of-other-pilots-untouched',
   'forall(lambda u: implies(indom(self._tasks, u) and not dies_with(at(old(self._tasks), u), PS), '
   'at(self._tasks, u) == at(old(self._tasks), u)), Str)'),
  ('same-tasks', 'forall(lambda u: indom(self._tasks, u) == indom(old(self._tasks), u), Str)'),
]

from .effects import read_field

# what one pilot's end does to one task (o: the task before, t: after)
REG.define('c13_step(o, t, pid)',
    'ite(o._pilot == pid, '
    't._uid == o._uid and t._pilot == o._pilot and '
    'ite(o._state not in FINAL, t._state == FAILED and '
    't._exception_detail == "pilot %s is final" % pid, t._state == o._state), '
    't == o)')

REG.spec('task_manager.py:TaskManager._pilot_state_cb',
    params   = dict(pilots=T.Union(PilotObj, T.List(PilotObj)), state=OStr),
    defaults = dict(state=None),
    self     = dict(_tasks=TaskMap, _task_info=T.Map(T.Str, T.Any),
                    _closed=T.Bool, _terminating=T.Bool),
    returns  = T.Bool,
    locals   = dict(tasks=T.List(TaskObj)),
    calls    = {'self._terminate.is_set': read_field('self._terminating')},
    effects  = {'self.advance': ignore_call},
    requires = ['tmgr_inv(self._tasks, self._task_info)',
                'not self._closed', 'not self._terminating',
                # notified pilots are distinct objects with distinct ids
                'forall(lambda i, j: implies(0 <= i < j < len(aslist(pilots)), '
                'aslist(pilots)[i]._uid != aslist(pilots)[j]._uid))'],
    modifies = ['self._tasks'],
    raises   = {},
    ensures  = [(n, t.replace('PS', 'aslist(pilots)')) for n, t in _c13_post] +
               [('ds-invariant', 'tmgr_inv(self._tasks, self._task_info)')],
    loops    = {
      '1':   ['forall(lambda u: indom(self._tasks, u) == indom(old(self._tasks), u), Str)',
              'tmgr_inv(self._tasks, self._task_info)',
              # tasks of pilots already handled are failed, the rest untouched
              'forall(lambda u: implies(indom(self._tasks, u), '
              'at(self._tasks, u)._pilot == at(old(self._tasks), u)._pilot and '
              'ite(exists(lambda i: 0 <= i < i_pilot and pilots[i]._state in FINAL and at(old(self._tasks), u)._pilot == pilots[i]._uid), '
              'ite(at(old(self._tasks), u)._state not in FINAL, at(self._tasks, u)._state == FAILED and '
              'at(self._tasks, u)._exception_detail == "pilot %s is final" % val(at(old(self._tasks), u)._pilot), '
              'at(self._tasks, u)._state == at(old(self._tasks), u)._state), '
              'at(self._tasks, u) == at(old(self._tasks), u))), Str)'],
      '1.1': ['forall(lambda u: indom(self._tasks, u) == indom(old(self._tasks), u), Str)',
              'tmgr_inv(self._tasks, self._task_info)',
              'pid == pilot._uid', 'state == pilot._state',
              'forall(lambda j: implies(0 <= j < i_task, c13_step(at(at_head("1", self._tasks), keys_task[j]), at(self._tasks, keys_task[j]), pid)))',
              'forall(lambda j: implies(i_task <= j < len(keys_task), at(self._tasks, keys_task[j]) == at(at_head("1", self._tasks), keys_task[j])))'],
    },
    serves   = ['C05', 'C13'])


# ------------------------------------------------------------------------------
# C06: TaskManager._task_cb: every registered callback is invoked once with the
# state that is being announced (the replayed state, not whatever the task has
# reached meanwhile); an exception in a callback does not escape
import z3 as _z3
from pyvc import core as _C
from pyvc.core import Val as _Val, fresh as _fresh, coerce as _coerce

CbDict = T.Rec('TaskCbDict', cb=T.Any, cb_data=OAny)
CbMap  = T.Map(T.Str, T.Map(T.Str, T.Map(T.Str, CbDict)))
CbEvt  = T.Rec('TaskCbEvt', uid=T.Str, state=OStr, with_data=T.Bool)


def _user_cb(ex, node, st):
    """cb(task, state[, cb_data]): an application callback - returns or raises
    anything; what it was called with is logged (ghost cb_log)"""
    task  = ex.ev(node.args[0], st)
    state = ex.ev(node.args[1], st)
    log = ex.get_var(st, 'cb_log')
    lty = log.ty
    n = lty.len(log.term)
    uid = task.ty.get(task.term, '_uid')
    ev = CbEvt.mk(uid, _coerce(state, OStr).term, _z3.BoolVal(len(node.args) > 2))
    new = _Val(lty, lty.mk(_z3.Store(lty.arr(log.term), n, ev), n + 1))
    e = st.fork(); e.guards = []
    e.env = dict(st.env); e.env['cb_log'] = new
    ex.exits.append(('Exception', e, ex.cur_line))
    st.env['cb_log'] = new
    return _C.NONE
_user_cb.mutates = ('cb_log',)

REG.define('n_cbs(cbs, metric, key)',
    'ite(indom(cbs, metric) and indom(at(cbs, metric), key), len(at(at(cbs, metric), key)), 0)')

REG.spec('task_manager.py:TaskManager._task_cb',
    params   = dict(task=TaskObj, state=OStr),
    self     = dict(_callbacks=CbMap),
    ghost    = dict(cb_log=T.List(CbEvt)),
    locals   = dict(cb_dicts=T.List(CbDict), uid=T.Str, metric=T.Str),
    calls    = {'cb': _user_cb},
    requires = ['indom(self._callbacks, rpc.TASK_STATE)'],
    modifies = ['cb_log'],
    raises   = {},
    no_raise_is_property = True,
    ensures  = [
      ('every-registered-callback-is-called-once',
       'len(cb_log) == len(old(cb_log)) + n_cbs(self._callbacks, rpc.TASK_STATE, "*") + n_cbs(self._callbacks, rpc.TASK_STATE, task._uid)'),
      ('callbacks-are-told-the-state-being-announced',
       'forall(lambda k: implies(len(old(cb_log)) <= k < len(cb_log), cb_log[k].uid == task._uid and cb_log[k].state == state))'),
      ('history-kept', 'forall(lambda k: implies(0 <= k < len(old(cb_log)), cb_log[k] == old(cb_log)[k]))'),
    ],
    loops = {'1': ['len(cb_log) == len(old(cb_log)) + i_cb_dict',
                   'forall(lambda k: implies(len(old(cb_log)) <= k < len(cb_log), cb_log[k].uid == task._uid and cb_log[k].state == state))',
                   'forall(lambda k: implies(0 <= k < len(old(cb_log)), cb_log[k] == old(cb_log)[k]))']},
    opts     = dict(merge='scalars'),
    serves   = ['C06'])


# ------------------------------------------------------------------------------
# C13: TaskManager.add_pilots: the manager learns of the end of *every* pilot it is
# given, i.e. its state callback is registered with each of them
PilotDoc = T.Rec('PilotDoc', uid=T.Str)
RegEvt   = T.Rec('CbRegEvt', uid=T.Str, cb=T.Str)


def _as_dict(ex, node, st):
    p = ex.ev(node.func.value, st)
    return _Val(PilotDoc, PilotDoc.mk(p.ty.get(p.term, '_uid')))
_as_dict.mutates = ()

def _register_cb(ex, node, st):
    p = ex.ev(node.func.value, st)
    cb = node.args[0]
    import ast
    name = ast.unparse(cb)
    log = ex.get_var(st, 'registered')
    lty = log.ty
    n = lty.len(log.term)
    ev = RegEvt.mk(p.ty.get(p.term, '_uid'), _C.str_lit(name))
    st.env['registered'] = _Val(lty, lty.mk(_z3.Store(lty.arr(log.term), n, ev), n + 1))
    return _C.NONE
_register_cb.mutates = ('registered',)

REG.spec('task_manager.py:TaskManager.add_pilots',
    params   = dict(pilots=T.List(PilotObj)),
    self     = dict(_pilots=T.Map(T.Str, PilotObj), uid=T.Str),
    ghost    = dict(registered=T.List(RegEvt)),
    locals   = dict(pilot_docs=T.List(PilotDoc), pilot_dict=PilotDoc, pid=T.Str),
    calls    = {'pilot.as_dict': _as_dict, 'pilot.register_callback': _register_cb},
    effects  = {'pilot.attach_tmgr': ignore_call, 'self.publish': ignore_call},
    modifies = ['self._pilots', 'registered'],
    raises   = {'ValueError': 'True'},
    raises_weak = ['ValueError'],
    frame_on_raise = False,
    ensures  = [
      ('the-manager-subscribes-to-the-state-of-every-pilot-it-is-given',
       'len(registered) == len(old(registered)) + len(pilots) and forall(lambda k: implies(0 <= k < len(pilots), '
       'registered[len(old(registered)) + k].uid == pilots[k]._uid and registered[len(old(registered)) + k].cb == "self._pilot_state_cb"))'),
      ('every-pilot-is-kept', 'forall(lambda k: implies(0 <= k < len(pilots), indom(self._pilots, pilots[k]._uid)))'),
    ],
    loops = {'1': ['len(registered) == len(old(registered)) + i_pilot', 'len(pilot_docs) == i_pilot',
                   'forall(lambda k: implies(0 <= k < i_pilot, registered[len(old(registered)) + k].uid == pilots[k]._uid and '
                   'registered[len(old(registered)) + k].cb == "self._pilot_state_cb" and indom(self._pilots, pilots[k]._uid)))',
                   'forall(lambda u: implies(indom(old(self._pilots), u), indom(self._pilots, u)), Str)']},
    opts     = dict(merge='scalars'),
    serves   = ['C13'])


# ------------------------------------------------------------------------------
# C08: TaskManager.cancel_tasks: the request that goes out names exactly the tasks
# the caller named (all tasks of this manager when none is named) and is marked
# for forwarding to the agents
CancelMsg = T.Rec('TmgrCancelMsg', cmd=T.Str, uids=T.List(T.Str), tmgr=T.Str, fwd=T.Bool)


def _cancel_publish(ex, node, st):
    from pyvc.core import PyDict
    msg = ex.ev(node.args[1], st)
    arg = msg.items['arg']
    rec = CancelMsg.mk(_coerce(msg.items['cmd'], T.Str).term, _coerce(arg.items['uids'], T.List(T.Str)).term,
                       _coerce(arg.items['tmgr'], T.Str).term, _C.truthy(msg.items.get('fwd', _C.lift(False))))
    log = ex.get_var(st, 'pub_log')
    lty = log.ty
    n = lty.len(log.term)
    st.env['pub_log'] = _Val(lty, lty.mk(_z3.Store(lty.arr(log.term), n, rec), n + 1))
    return _C.NONE
_cancel_publish.mutates = ('pub_log',)

REG.spec('task_manager.py:TaskManager.cancel_tasks',
    params   = dict(uids=T.Union(T.NoneT, T.Str, T.List(T.Str))),
    defaults = dict(uids=None),
    self     = dict(_tasks=TaskMap, uid=T.Str),
    ghost    = dict(pub_log=T.List(CancelMsg)),
    effects  = {'self.publish': _cancel_publish},
    modifies = ['pub_log'],
    raises   = {},
    ensures  = [('one-request-goes-out-marked-for-the-agents',
                 'len(pub_log) == len(old(pub_log)) + 1 and pub_log[len(old(pub_log))].cmd == "cancel_tasks" and '
                 'pub_log[len(old(pub_log))].fwd and pub_log[len(old(pub_log))].tmgr == self.uid')],
    variant_ensures = {
      'uids:Str': [('a-single-uid-names-that-task-only',
                    'implies(old(uids) != "", len(pub_log[len(old(pub_log))].uids) == 1 and pub_log[len(old(pub_log))].uids[0] == old(uids))')],
      'uids:List[Str]': [('exactly-the-named-tasks',
                          'implies(len(old(uids)) > 0, pub_log[len(old(pub_log))].uids == old(uids))')],
      'uids:None': [('no-name-means-every-task-of-this-manager',
                     'len(pub_log[len(old(pub_log))].uids) == len(self._tasks) and '
                     'forall(lambda k: implies(0 <= k < len(pub_log[len(old(pub_log))].uids), indom(self._tasks, pub_log[len(old(pub_log))].uids[k])))')],
    },
    serves   = ['C08'])


# ------------------------------------------------------------------------------
# C06: TaskManager._state_sub_cb - what of a state message reaches _update_tasks:
# every task notification of the message, each once, in the order delivered (a
# batch may carry several notifications for one task; dropping or reordering them
# makes Task.state disagree with what was delivered)
import z3 as _z3
from pyvc import core as _C
from pyvc.core import Val as _Val, coerce as _coerce

SThing = T.Rec('SThing', type=OStr, uid=T.Str, state=OStr)
REG.optional_keys['SThing'] = {'type', 'state'}
SThingL = T.List(SThing)
SMsg = T.Rec('SMsg', cmd=OStr, arg=SThingL)
REG.optional_keys['SMsg'] = {'cmd'}

def _ss_update(ex, node, st):
    ts = _coerce(ex.ev(node.args[0], st), SThingL)
    log = ex.get_var(st, 'handed')
    lty = log.ty
    l0, n = lty.len(log.term), SThingL.len(ts.term)
    i = _z3.Int(_C.fresh_name('i'))
    out = ex.fresh_wf(st, lty, 'handed')
    st.assume(lty.len(out.term) == l0 + n)
    st.assume(_z3.ForAll([i], _z3.Implies(_z3.And(0 <= i, i < l0), _z3.Select(lty.arr(out.term), i) == _z3.Select(lty.arr(log.term), i))))
    st.assume(_z3.ForAll([i], _z3.Implies(_z3.And(l0 <= i, i < l0 + n),
              _z3.Select(lty.arr(out.term), i) == _z3.Select(SThingL.arr(ts.term), i - l0)),
              patterns=[_z3.Select(lty.arr(out.term), i)]))
    st.env['handed'] = out
    return _C.NONE
_ss_update.mutates = ('handed',)

def _ss_term(ex, node, st):
    return ex.get_var(st, 'self._terminating')
_ss_term.mutates = ()

REG.spec('task_manager.py:TaskManager._state_sub_cb',
    params   = dict(topic=T.Str, msg=SMsg),
    self     = dict(_terminating=T.Bool),
    returns  = T.Bool,
    ghost    = dict(handed=SThingL),
    locals   = dict(things=SThingL, tasks=SThingL),
    calls    = {'ru.as_list': lambda ex, node, st: ex.ev(node.args[0], st), 'self._terminate.is_set': _ss_term,
                'self._update_tasks': _ss_update},
    modifies = ['handed'],
    raises   = {},
    ensures  = [
      ('every-task-notification-of-the-message-is-applied-once-in-the-order-delivered',
       'implies(not self._terminating and msg.cmd == "update", '
       'len(handed) == len(old(handed)) + len([t for t in msg.arg if t.type == "task"]) and '
       'forall(lambda i: implies(0 <= i < len([t for t in msg.arg if t.type == "task"]), '
       'handed[len(old(handed)) + i] == [t for t in msg.arg if t.type == "task"][i])))'),
      ('other-messages-change-nothing', 'implies(self._terminating or msg.cmd != "update", handed == old(handed))'),
      ('earlier-notifications-kept', 'forall(lambda k: implies(0 <= k < len(old(handed)), handed[k] == old(handed)[k]))'),
    ],
    serves   = ['C06'])

"""C17 (a): every shipped platform configuration resolves to code that exists.
A finite obligation family: (config entry x schema) x (factory key sets read
from the factories' AST on every run).  Decided by exhaustive enumeration."""
import ast
import glob
import json
import os
import re

from pyvc.spec import REG
from pyvc.core import SpecError
from pyvc.frontend import FunctionSource, ModuleEnv, pkg_path, Unknown


def load_json(path):
    s = '\n'.join(re.sub(r'^\s*#.*$', '', l) for l in open(path).read().split('\n'))
    return json.loads(s)


def factory_keys(rel, qualname):
    """{key string: (class name, module file)} of the `impl = {...}` dict of a
    factory, keys resolved through the module's constants, classes through the
    function-local imports"""
    f = FunctionSource(rel, qualname)
    me = ModuleEnv.get(rel)
    imports = dict()
    for n in ast.walk(f.node):
        if isinstance(n, ast.ImportFrom) and n.level >= 1:
            base = os.path.dirname(rel)
            for _ in range(n.level - 1):
                base = os.path.dirname(base)
            mod = os.path.join(base, *(n.module.split('.'))) + '.py'
            for a in n.names:
                imports[a.asname or a.name] = (a.name, mod)
    impl = None
    for n in ast.walk(f.node):
        if isinstance(n, ast.Assign) and isinstance(n.targets[0], ast.Name) and \
           n.targets[0].id == 'impl' and isinstance(n.value, ast.Dict):
            impl = n.value
    if impl is None:
        raise SpecError('%s:%s has no impl dict' % (rel, qualname))
    out = dict()
    for k, v in zip(impl.keys, impl.values):
        key = me.lookup(k.id) if isinstance(k, ast.Name) else \
              (k.value if isinstance(k, ast.Constant) else None)
        if isinstance(key, Unknown) or key is None:
            raise SpecError('factory key %s is not a constant' % ast.dump(k))
        cls = v.id if isinstance(v, ast.Name) else None
        out[key] = imports.get(cls, (cls, None))
    return out


def class_exists(cls, mod):
    if mod is None:
        return False
    path = pkg_path(mod)
    if not os.path.isfile(path):
        return False
    tree = ast.parse(open(path).read())
    return any(isinstance(n, ast.ClassDef) and n.name == cls for n in tree.body)


def class_defaults(rel, cls, attr='_defaults'):
    """the literal `_defaults` dict of a TypedDict class, keys resolved through
    the class-level constants (NAME = 'name')"""
    import pyvc.frontend as F
    src, tree = F.parse_file(rel)
    for n in tree.body:
        if isinstance(n, ast.ClassDef) and n.name == cls:
            consts, dflt = dict(), None
            for st in n.body:
                if isinstance(st, ast.Assign) and isinstance(st.targets[0], ast.Name):
                    if isinstance(st.value, ast.Constant):
                        consts[st.targets[0].id] = st.value.value
                    if st.targets[0].id == attr and isinstance(st.value, ast.Dict):
                        dflt = st.value
            if dflt is None:
                raise SpecError('%s.%s not found' % (cls, attr))
            out = dict()
            for k, v in zip(dflt.keys, dflt.values):
                key = None
                if isinstance(k, ast.Name):
                    key = consts.get(k.id)
                    if key is None:
                        g = ModuleEnv.get(rel).lookup(k.id)
                        key = None if isinstance(g, Unknown) else g
                elif isinstance(k, ast.Constant):
                    key = k.value
                if isinstance(v, ast.Constant):
                    out[key] = v.value
            return out
    raise SpecError('class %s not found in %s' % (cls, rel))


def _resolution():
    rms   = factory_keys('agent/resource_manager/base.py', 'ResourceManager.get_manager')
    lms   = factory_keys('agent/launch_method/base.py', 'LaunchMethod.create')
    scheds = factory_keys('agent/scheduler/base.py', 'AgentSchedulingComponent.create')
    execs = factory_keys('agent/executing/base.py', 'AgentExecutingComponent.create')
    out = []
    for name, table in (('resource manager', rms), ('launch method', lms),
                        ('scheduler', scheds), ('executor', execs)):
        for key, (cls, mod) in sorted(table.items()):
            out.append(dict(name='factory:%s:%s-class-exists' % (name.replace(' ', '-'), key),
                            ok=class_exists(cls, mod),
                            note='%s %s -> class %s in %s' % (name, key, cls, mod),
                            witness=dict(kind=name, key=key, cls=cls, module=mod)))
    cfgdir = pkg_path('configs')
    files = sorted(glob.glob(os.path.join(cfgdir, 'resource_*.json')))
    if not files:
        raise SpecError('no shipped resource configurations found')
    n_entries = 0
    defaults = class_defaults('resource_config.py', 'ResourceConfig')
    for path in files:
        site = os.path.basename(path)[len('resource_'):-len('.json')]
        for label, raw in sorted(load_json(path).items()):
            cfg = dict(defaults); cfg.update(raw)        # ResourceConfig(from_dict)
            n_entries += 1
            ident = '%s.%s' % (site, label)
            def item(what, ok, note):
                out.append(dict(name='%s:%s' % (ident, what), ok=bool(ok), note=note,
                                witness=dict(platform=ident, what=what, detail=note)))
            rm = cfg.get('resource_manager')
            item('resource-manager-known', rm in rms, 'resource_manager=%r' % rm)
            lm = cfg.get('launch_methods') or {}
            order = lm.get('order') or []
            item('launch-methods-ordered', bool(order), 'order=%r' % order)
            for m in order:
                item('launch-method-%s-configured' % m, m in lm, 'order names %s' % m)
            for m in lm:
                if m == 'order': continue
                item('launch-method-%s-known' % m, m in lms, 'launch method %r' % m)
            sched = cfg.get('agent_scheduler')
            if 'JSRUN' in lm and sched == 'CONTINUOUS':
                sched = 'CONTINUOUS_JSRUN'
            item('scheduler-known', sched in scheds, 'agent_scheduler=%r' % sched)
            item('executor-known', cfg.get('agent_spawner') in execs,
                 'agent_spawner=%r' % cfg.get('agent_spawner'))
            ac = cfg.get('agent_config')
            item('agent-config-exists',
                 ac is not None and os.path.isfile(os.path.join(cfgdir, 'agent_%s.json' % ac)),
                 'agent_config=%r' % ac)
            schemas = cfg.get('schemas') or {}
            item('default-schema-defined', cfg.get('default_schema') in schemas,
                 'default_schema=%r of %s' % (cfg.get('default_schema'), sorted(schemas)))
            for sname, s in sorted(schemas.items()):
                item('schema-%s-has-endpoints' % sname,
                     isinstance(s, dict) and s.get('job_manager_endpoint') and s.get('filesystem_endpoint'),
                     'schema %s: %s' % (sname, sorted(s) if isinstance(s, dict) else s))
            for k in ('cores_per_node', 'gpus_per_node'):
                v = cfg.get(k)
                item('%s-is-a-count' % k, v is None or (isinstance(v, int) and v >= 0), '%s=%r' % (k, v))
    out.append(dict(name='all-shipped-entries-enumerated', ok=n_entries >= 1,
                    note='%d platform entries in %d files' % (n_entries, len(files))))
    return out


REG.finite_check('C17.platform-resolution', _resolution, ['C17'],
                 'configs/resource_*.json x factories')


# ------------------------------------------------------------------------------
from pyvc.spec import T
# C17 (b): the sizing arithmetic of PMGRLaunchingComponent._prepare_pilot - the
# number of nodes requested from the batch system covers the cores and GPUs the
# pilot description asks for, and not a node more
REG.spec('pmgr/launching/base.py:PMGRLaunchingComponent._prepare_pilot#nodes',
    fragment = 'if requested_nodes:',
    fragment_marker = "raise RuntimeError('use \"cores\" in PilotDescription')",
    params   = dict(requested_nodes=T.Real, requested_cores=T.Int, requested_gpus=T.Int,
                    avail_cores_per_node=T.Opt(T.Int), avail_gpus_per_node=T.Opt(T.Int)),
    requires = ['requested_nodes >= 0', 'requested_cores >= 0', 'requested_gpus >= 0',
                'implies(avail_cores_per_node is not None, val(avail_cores_per_node) >= 0)',
                'implies(avail_gpus_per_node is not None, val(avail_gpus_per_node) >= 0)'],
    modifies = ['requested_nodes'],
    raises   = {'RuntimeError': 'old(requested_nodes) != 0 and not bool(avail_cores_per_node)'},
    ensures  = [
      ('an-explicit-node-count-is-kept', 'implies(old(requested_nodes) != 0, requested_nodes == old(requested_nodes))'),
      ('derived-node-count-covers-the-requested-cores',
       'implies(old(requested_nodes) == 0 and bool(avail_cores_per_node), requested_nodes * val(avail_cores_per_node) >= requested_cores)'),
      ('derived-node-count-covers-the-requested-gpus',
       'implies(old(requested_nodes) == 0 and bool(avail_gpus_per_node), requested_nodes * val(avail_gpus_per_node) >= requested_gpus)'),
      ('derived-node-count-is-the-smallest-that-does',
       'implies(old(requested_nodes) == 0 and bool(avail_cores_per_node) and bool(avail_gpus_per_node) and requested_nodes >= 1, '
       '(requested_nodes - 1) * val(avail_cores_per_node) < requested_cores or (requested_nodes - 1) * val(avail_gpus_per_node) < requested_gpus)'),
    ],
    serves   = ['C17'])

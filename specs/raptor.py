"""C20: raptor worker resource accounting (raptor/worker_default.py)"""
from pyvc.spec import REG, T
from .types import OStr, OAny

IntL  = T.List(T.Int)
WSlot = T.Rec('WSlot', cores=IntL, gpus=IntL)
RTask = T.Rec('RTask', uid=T.Str, cores=T.Opt(T.Int), gpus=T.Opt(T.Int),
              slots=T.Opt(T.List(WSlot)), worker=OStr, pid=T.Opt(T.Int),
              exception=OAny, exception_detail=OAny, stdout=OAny, stderr=OAny,
              exit_code=OAny, return_value=OAny)
REG.types['RTask'] = RTask
REG.optional_keys['RTask'] = set(RTask.fields) - {'uid'}
WRes = T.Rec('WRes', cores=IntL, gpus=IntL)

# occupancy vector: cells are 0 (free) or 1 (held by a running request)
REG.define('occ_ok(r, n)', 'len(r) == n and forall(lambda i: implies(0 <= i < len(r), r[i] == 0 or r[i] == 1))')
# the cells named by idx (strictly increasing, so distinct) held v0 in r0 and
# hold v1 in r1
REG.define('named_cells(r0, r1, idx, v0, v1)',
    'len(r1) == len(r0) and '
    'forall(lambda k: implies(0 <= k < len(idx), 0 <= idx[k] < len(r0) and r0[idx[k]] == v0 and r1[idx[k]] == v1)) and '
    'forall(lambda k, l: implies(0 <= k < l < len(idx), idx[k] < idx[l]))')
# every cell that differs is named by idx; the witness is explicit: idx lists
# the v0-cells in increasing order, so cell i sits at position count(r0, v0, i)
REG.define('only_named_w(r0, r1, idx, v0)',
    'forall(lambda i: implies(0 <= i < len(r0) and r1[i] != r0[i], '
    '0 <= count(r0, v0, i) < len(idx) and idx[count(r0, v0, i)] == i))')
REG.define('only_named(r0, r1, idx)',
    'forall(lambda i: implies(0 <= i < len(r0) and r1[i] != r0[i], '
    'exists(lambda k: 0 <= k < len(idx) and idx[k] == i)))')
REG.define('want_cores(task)', 'ite(task.cores is None, 1, val(task.cores))')
REG.define('want_gpus(task)',  'ite(task.gpus is None, 0, val(task.gpus))')

_self = dict(_resources=WRes, _n_cores=T.Int, _n_gpus=T.Int)
_inv  = ['occ_ok(self._resources.cores, self._n_cores)',
         'occ_ok(self._resources.gpus, self._n_gpus)',
         'self._n_cores >= 0', 'self._n_gpus >= 0']

REG.spec('raptor/worker_default.py:DefaultWorker._alloc',
    params   = dict(task=RTask),
    self     = _self,
    returns  = T.Bool,
    locals   = dict(alloc_cores=IntL, alloc_gpus=IntL),
    # a GPU demand is a non-negative number (a negative one would pass the
    # asserts and take every free GPU; recorded as shape assumption A2)
    requires = _inv + ['want_gpus(task) >= 0'],
    modifies = ['self._resources', 'task'],
    raises   = {'AssertionError': 'want_cores(task) < 1 or want_cores(task) > self._n_cores or want_gpus(task) > self._n_gpus'},
    exc_ensures = {'AssertionError': [('nothing-taken', 'self._resources == old(self._resources) and task == old(task)')]},
    ensures  = _inv + [
      ('refused-takes-nothing', 'implies(not result, self._resources == old(self._resources) and task == old(task))'),
      ('refused-only-if-short', 'implies(not result, want_cores(task) > count(old(self._resources.cores), 0) or want_gpus(task) > count(old(self._resources.gpus), 0))'),
      ('granted-exactly-requested-cores',
       'implies(result, is_some(task.slots) and len(val(task.slots)) == 1 and len(val(task.slots)[0].cores) == want_cores(old(task)))'),
      ('granted-exactly-requested-gpus',
       'implies(result, len(val(task.slots)[0].gpus) == ite(want_gpus(old(task)) > 0, want_gpus(old(task)), 0))'),
      ('granted-cores-were-free-now-held',
       'implies(result, named_cells(old(self._resources.cores), self._resources.cores, val(task.slots)[0].cores, 0, 1))'),
      ('granted-gpus-were-free-now-held',
       'implies(result, named_cells(old(self._resources.gpus), self._resources.gpus, val(task.slots)[0].gpus, 0, 1))'),
      ('no-other-core-touched',
       'implies(result, only_named_w(old(self._resources.cores), self._resources.cores, val(task.slots)[0].cores, 0))'),
      ('no-other-gpu-touched',
       'implies(result, only_named_w(old(self._resources.gpus), self._resources.gpus, val(task.slots)[0].gpus, 0))'),
      ('request-kept', 'task.uid == old(task.uid) and task.cores == old(task.cores) and task.gpus == old(task.gpus)'),
    ],
    loops = {
      '1': ['0 <= len(alloc_cores) < cores', 'cores >= 1', 'cores <= count(old(self._resources.cores), 0)', 'len(self._resources.cores) == len(old(self._resources.cores))', 'len(alloc_cores) == count(old(self._resources.cores), 0, i_n)', 'forall(lambda i: implies(0 <= i < i_n, self._resources.cores[i] == ite(old(self._resources.cores)[i] == 0, 1, old(self._resources.cores)[i])))', 'forall(lambda i: implies(i_n <= i < len(self._resources.cores), self._resources.cores[i] == old(self._resources.cores)[i]))', 'forall(lambda i: implies(0 <= i < i_n and old(self._resources.cores)[i] == 0, 0 <= count(old(self._resources.cores), 0, i) < len(alloc_cores) and alloc_cores[count(old(self._resources.cores), 0, i)] == i))', 'forall(lambda k: implies(0 <= k < len(alloc_cores), 0 <= alloc_cores[k] < i_n and old(self._resources.cores)[alloc_cores[k]] == 0))', 'forall(lambda k, l: implies(0 <= k < l < len(alloc_cores), alloc_cores[k] < alloc_cores[l]))', 'task == old(task)', 'len(self._resources.cores) == self._n_cores', 'self._resources.gpus == old(self._resources.gpus)', 'len(alloc_gpus) == 0'],
      '2': ['0 <= len(alloc_gpus) < gpus', 'gpus >= 1', 'gpus <= count(old(self._resources.gpus), 0)', 'len(self._resources.gpus) == len(old(self._resources.gpus))', 'len(alloc_gpus) == count(old(self._resources.gpus), 0, i_n)', 'forall(lambda i: implies(0 <= i < i_n, self._resources.gpus[i] == ite(old(self._resources.gpus)[i] == 0, 1, old(self._resources.gpus)[i])))', 'forall(lambda i: implies(i_n <= i < len(self._resources.gpus), self._resources.gpus[i] == old(self._resources.gpus)[i]))', 'forall(lambda i: implies(0 <= i < i_n and old(self._resources.gpus)[i] == 0, 0 <= count(old(self._resources.gpus), 0, i) < len(alloc_gpus) and alloc_gpus[count(old(self._resources.gpus), 0, i)] == i))', 'forall(lambda k: implies(0 <= k < len(alloc_gpus), 0 <= alloc_gpus[k] < i_n and old(self._resources.gpus)[alloc_gpus[k]] == 0))', 'forall(lambda k, l: implies(0 <= k < l < len(alloc_gpus), alloc_gpus[k] < alloc_gpus[l]))', 'task == old(task)', 'len(self._resources.gpus) == self._n_gpus', 'len(alloc_cores) == cores', 'cores == want_cores(old(task))', 'named_cells(old(self._resources.cores), self._resources.cores, alloc_cores, 0, 1)', 'only_named_w(old(self._resources.cores), self._resources.cores, alloc_cores, 0)', 'occ_ok(self._resources.cores, self._n_cores)'],
    },
    serves = ['C20'])

from .effects import ignore_call, log_call

_held = ['is_some(task.slots)', 'len(val(task.slots)) >= 1',
         # the cells the request holds are marked held (they were granted by _alloc)
         'named_cells(self._resources.cores, self._resources.cores, val(task.slots)[0].cores, 1, 1)',
         'named_cells(self._resources.gpus, self._resources.gpus, val(task.slots)[0].gpus, 1, 1)']

REG.spec('raptor/worker_default.py:DefaultWorker._dealloc',
    params   = dict(task=RTask),
    self     = _self,
    returns  = T.Bool,
    effects  = {'self._res_evt.set': ignore_call},
    requires = _inv + _held,
    modifies = ['self._resources'],
    raises   = {},
    ensures  = _inv + [
      ('cores-given-back', 'named_cells(old(self._resources.cores), self._resources.cores, val(task.slots)[0].cores, 1, 0)'),
      ('gpus-given-back',  'named_cells(old(self._resources.gpus), self._resources.gpus, val(task.slots)[0].gpus, 1, 0)'),
      ('no-other-core-touched', 'only_named(old(self._resources.cores), self._resources.cores, val(task.slots)[0].cores)'),
      ('no-other-gpu-touched',  'only_named(old(self._resources.gpus), self._resources.gpus, val(task.slots)[0].gpus)'),
      ('returns-true', 'result'),
    ],
    loops = {
      '1': ['len(self._resources.cores) == len(old(self._resources.cores))',
            'self._resources.gpus == old(self._resources.gpus)',
            'forall(lambda k: implies(0 <= k < i_n, self._resources.cores[resources.cores[k]] == 0))',
            'forall(lambda k: implies(i_n <= k < len(resources.cores), self._resources.cores[resources.cores[k]] == 1))',
            'forall(lambda i: implies(0 <= i < len(self._resources.cores) and self._resources.cores[i] != old(self._resources.cores)[i], '
            'exists(lambda k: 0 <= k < i_n and resources.cores[k] == i)))',
            'forall(lambda i: implies(0 <= i < len(self._resources.cores), self._resources.cores[i] == 0 or self._resources.cores[i] == 1))'],
      '2': ['len(self._resources.gpus) == len(old(self._resources.gpus))',
            'forall(lambda k: implies(0 <= k < i_n, self._resources.gpus[resources.gpus[k]] == 0))',
            'forall(lambda k: implies(i_n <= k < len(resources.gpus), self._resources.gpus[resources.gpus[k]] == 1))',
            'forall(lambda i: implies(0 <= i < len(self._resources.gpus) and self._resources.gpus[i] != old(self._resources.gpus)[i], '
            'exists(lambda k: 0 <= k < i_n and resources.gpus[k] == i)))',
            'forall(lambda i: implies(0 <= i < len(self._resources.gpus), self._resources.gpus[i] == 0 or self._resources.gpus[i] == 1))',
            # cores part is settled
            'occ_ok(self._resources.cores, self._n_cores)',
            'named_cells(old(self._resources.cores), self._resources.cores, resources.cores, 1, 0)',
            'only_named(old(self._resources.cores), self._resources.cores, resources.cores)'],
    },
    serves = ['C20'])

# giving back is the inverse of taking (C20: "gives its cores and GPUs back")
REG.lemma('C20.roundtrip',
    vars  = dict(r0=IntL, r1=IntL, r2=IntL, idx=IntL),
    hyps  = ['named_cells(r0, r1, idx, 0, 1)', 'only_named_w(r0, r1, idx, 0)',   # _alloc
             'named_cells(r1, r2, idx, 1, 0)', 'only_named(r1, r2, idx)'],       # _dealloc
    goals = [('restored', 'len(r2) == len(r0) and forall(lambda i: implies(0 <= i < len(r0), r2[i] == r0[i]))')],
    serves = ['C20'])
# a grant never hands out a cell another running request holds, and leaves the
# cells of other running requests held
REG.lemma('C20.disjoint',
    vars  = dict(r0=IntL, r1=IntL, mine=IntL, other=IntL),
    hyps  = ['named_cells(r0, r0, other, 1, 1)',                                  # held by another request
             'named_cells(r0, r1, mine, 0, 1)', 'only_named_w(r0, r1, mine, 0)'],  # _alloc for me
    goals = [('no-shared-cell', 'forall(lambda k, l: implies(0 <= k < len(mine) and 0 <= l < len(other), mine[k] != other[l]))'),
             ('others-still-held', 'named_cells(r1, r1, other, 1, 1)')],
    serves = ['C20'])
REG.lemma('C20.release-keeps-others',
    vars  = dict(r0=IntL, r1=IntL, mine=IntL, other=IntL),
    hyps  = ['named_cells(r0, r0, other, 1, 1)', 'named_cells(r0, r1, mine, 1, 0)',
             'only_named(r0, r1, mine)',
             'forall(lambda k, l: implies(0 <= k < len(mine) and 0 <= l < len(other), mine[k] != other[l]))'],
    goals = [('others-still-held', 'named_cells(r1, r1, other, 1, 1)')],
    serves = ['C20'])


# ------------------------------------------------------------------------------
# Master._result_cb: exit code -> target state, every result handed on once
#
import z3 as _z3
from pyvc import core as _C
from pyvc.core import Val as _Val, coerce as _coerce, fresh as _fresh

MTask = T.Rec('MTask', uid=T.Str, target_state=OStr, exit_code=T.Opt(T.Int))
REG.optional_keys['MTask'] = {'target_state'}
# a result dict carries 'exit_code' but it may be None; older workers omit it
REG.ambiguous_keys['MTask'] = {'exit_code'}
MTaskL = T.List(MTask)
MAdv = T.Rec('MAdv', uid=T.Str, state=OStr, target_state=OStr)


def _m_advance(ex, node, st):
    things = ex.ev(node.args[0], st)
    state  = ex.ev(node.args[1], st)
    log = ex.get_var(st, 'adv_log')
    lty = log.ty
    n = things.ty.len(things.term)
    i = _z3.Int(_C.fresh_name('i'))
    out = ex.fresh_wf(st, lty, 'adv_log')
    l0 = lty.len(log.term)
    st.assume(lty.len(out.term) == l0 + n)
    st.assume(_z3.ForAll([i], _z3.Implies(_z3.And(0 <= i, i < l0),
              _z3.Select(lty.arr(out.term), i) == _z3.Select(lty.arr(log.term), i))))
    e2 = _z3.Select(things.ty.arr(things.term), i - l0)
    st.assume(_z3.ForAll([i], _z3.Implies(_z3.And(l0 <= i, i < l0 + n),
              _z3.Select(lty.arr(out.term), i) == MAdv.mk(things.ty.elem.get(e2, 'uid'),
                  _coerce(state, OStr).term, things.ty.elem.get(e2, 'target_state'))),
              patterns=[_z3.Select(lty.arr(out.term), i)]))
    st.env['adv_log'] = out
    return _C.NONE
_m_advance.mutates = ('adv_log',)


def _user_result_cb(ex, node, st):
    """the user supplied result callback: may raise anything"""
    for a in node.args: ex.ev(a, st)
    e = st.fork(); e.guards = []
    ex.exits.append(('Exception', e, ex.cur_line))
    return _C.NONE
_user_result_cb.mutates = ()

REG.define('state_of_exit(t)',
    'ite(bool(t.target_state), val(t.target_state), ite(t.exit_code == 0, DONE, FAILED))')

REG.spec('raptor/master.py:Master._result_cb',
    params   = dict(tasks=MTaskL),
    self     = dict(_task_service_data=T.Map(T.Str, T.List(T.Any))),
    ghost    = dict(adv_log=T.List(MAdv)),
    calls    = {'self.result_cb': _user_result_cb},
    effects  = {'self.advance': _m_advance},
    modifies = ['tasks', 'self._task_service_data', 'adv_log'],
    raises   = {},
    no_raise_is_property = True,
    ensures  = [
      ('done-iff-exit-code-zero',
       'forall(lambda i: implies(0 <= i < len(tasks), tasks[i].uid == old(tasks)[i].uid and '
       'tasks[i].target_state == state_of_exit(old(tasks)[i])))'),
      ('every-result-handed-on-exactly-once-even-if-the-callback-raises',
       'len(adv_log) == len(old(adv_log)) + len(tasks) and forall(lambda i: implies(0 <= i < len(tasks), '
       'adv_log[len(old(adv_log)) + i].uid == tasks[i].uid and '
       'adv_log[len(old(adv_log)) + i].state == rps.AGENT_STAGING_OUTPUT_PENDING and '
       'adv_log[len(old(adv_log)) + i].target_state == tasks[i].target_state))'),
    ],
    loops = {'1': ['len(tasks) == len(old(tasks))', 'adv_log == old(adv_log)',
                   'forall(lambda i: implies(i_task <= i < len(tasks), tasks[i] == old(tasks)[i]))',
                   'forall(lambda i: implies(0 <= i < i_task, tasks[i].uid == old(tasks)[i].uid and '
                   'tasks[i].target_state == state_of_exit(old(tasks)[i])))']},
    opts   = dict(merge='scalars'),
    serves = ['C05', 'C20'])


# ------------------------------------------------------------------------------
# DefaultWorker._request_cb / _result_cb: allocate before dispatch, release on
# every outcome, every accepted request is started or answered - exactly one
#
from pyvc.calls import call_contract as _call_contract

WProc  = T.Rec('WProc', pid=T.Int)
RTaskL = T.List(RTask)

def _w_alloc(ex, node, st):
    """self._alloc(task) by its verified contract; ghost: one more grant if it
    returns True"""
    r = _call_contract(ex, st, REG.get('raptor/worker_default.py:DefaultWorker._alloc'), node)
    n = ex.get_var(st, 'n_grant')
    st.env['n_grant'] = _Val(T.Int, n.term + _z3.If(r.term, 1, 0))
    return r
_w_alloc.mutates = ('self._resources', 'task', 'n_grant')

def _w_dealloc(ex, node, st):
    r = _call_contract(ex, st, REG.get('raptor/worker_default.py:DefaultWorker._dealloc'), node)
    n = ex.get_var(st, 'n_release')
    st.env['n_release'] = _Val(T.Int, n.term + 1)
    return r
_w_dealloc.mutates = ('self._resources', 'n_release')

def _w_sleep(ex, node, st):
    """time.sleep between two allocation attempts: the result watcher thread may
    release cells of other requests meanwhile - any occupancy vector of the same
    size (environment step under _rlock)"""
    ty = WRes
    new = ex.fresh_wf(st, ty, 'res_env')
    st.env['self._resources'] = new
    sub = st.fork(); sub.env = dict(st.env)
    for t in _inv[:2]:
        st.assume(ex.spec_bool(t, sub))
    return _C.NONE
_w_sleep.mutates = ('self._resources',)

def _w_mkproc(ex, node, st):
    """mp.Process(target=.., args=..): a process object, or an exception (no process)"""
    e = st.fork(); e.guards = []
    ex.exits.append(('Exception', e, ex.cur_line))
    return _fresh(WProc, 'proc')
_w_mkproc.mutates = ()

def _w_start(ex, node, st):
    """proc.start(): the process runs the request (ghost start_log), or an
    exception and no process (assumed: nothing in between)"""
    e = st.fork(); e.guards = []
    ex.exits.append(('Exception', e, ex.cur_line))
    t = ex.get_var(st, 'task')
    log = ex.get_var(st, 'start_log')
    ty = log.ty
    n = ty.len(log.term)
    st.env['start_log'] = _Val(ty, ty.mk(_z3.Store(ty.arr(log.term), n, t.ty.get(t.term, 'uid')), n + 1))
    return _C.NONE
_w_start.mutates = ('start_log',)

def _w_put(ex, node, st):
    t = _coerce(ex.ev(node.args[0], st), RTask)
    log = ex.get_var(st, 'put_log')
    ty = log.ty
    n = ty.len(log.term)
    st.env['put_log'] = _Val(ty, ty.mk(_z3.Store(ty.arr(log.term), n, t.term), n + 1))
    return _C.NONE
_w_put.mutates = ('put_log',)

def _w_trace(ex, node, st):
    return _Val(T.List(T.Str), _z3.Const(_C.fresh_name('trace'), T.List(T.Str).sort()))
_w_trace.mutates = ()

_w_self  = dict(_self, _uid=T.Str, _task_env=T.Map(T.Str, T.Str), _pool=T.Map(T.Int, WProc))
_w_ghost = dict(n_grant=T.Int, n_release=T.Int, start_log=T.List(T.Str), put_log=RTaskL)
_w_calls = {'self._alloc': _w_alloc, 'self._dealloc': _w_dealloc, 'time.sleep': _w_sleep, 'mp.Process': _w_mkproc,
            'proc.start': _w_start, 'self._res_put.put': _w_put, 'ru.get_exception_trace': _w_trace}
# the demand is within the worker's size (the property's quantifier), so _alloc
# does not assert
_in_size = 'want_gpus(%s) >= 0 and 1 <= want_cores(%s) <= self._n_cores and want_gpus(%s) <= self._n_gpus'

REG.spec('raptor/worker_default.py:DefaultWorker._request_cb#one',
    fragment = 'try:',
    params   = dict(task=RTask),
    self     = _w_self,
    ghost    = _w_ghost,
    locals   = dict(env=T.Map(T.Str, T.Str), proc=WProc),
    calls    = _w_calls,
    requires = _inv + [_in_size % ('task', 'task', 'task')],
    modifies = ['self._resources', 'self._task_env', 'self._pool', 'task', 'n_grant', 'n_release', 'start_log', 'put_log'],
    raises   = {},
    no_raise_is_property = True,
    ensures  = _inv + [
      ('the-request-is-started-or-answered-exactly-one',
       '(len(start_log) - len(old(start_log))) + (len(put_log) - len(old(put_log))) == 1 and '
       'len(start_log) >= len(old(start_log)) and len(put_log) >= len(old(put_log))'),
      ('started-only-after-a-grant-which-it-keeps',
       'implies(len(start_log) > len(old(start_log)), start_log[len(old(start_log))] == old(task).uid and '
       'n_grant == old(n_grant) + 1 and n_release == old(n_release) and is_some(task.slots) and '
       'len(val(task.slots)[0].cores) == want_cores(old(task)) and '
       'named_cells(self._resources.cores, self._resources.cores, val(task.slots)[0].cores, 1, 1) and '
       'named_cells(self._resources.gpus, self._resources.gpus, val(task.slots)[0].gpus, 1, 1))'),
      ('answered-without-a-process-gives-its-grant-back-and-carries-the-error',
       'implies(len(put_log) > len(old(put_log)), put_log[len(old(put_log))].uid == old(task).uid and '
       'put_log[len(old(put_log))].exception is not None and '
       'n_grant == old(n_grant) + 1 and n_release == old(n_release) + 1)'),
      ('earlier-records-kept',
       'forall(lambda k: implies(0 <= k < len(old(put_log)), put_log[k] == old(put_log)[k])) and '
       'forall(lambda k: implies(0 <= k < len(old(start_log)), start_log[k] == old(start_log)[k]))'),
    ],
    loops = {'1': ['task == old(task)', 'n_grant == old(n_grant)', 'n_release == old(n_release)', 'start_log == old(start_log)',
                   'put_log == old(put_log)', 'self._n_cores == old(self._n_cores)'] + _inv[:2]},
    serves = ['C20'])

REG.spec('raptor/worker_default.py:DefaultWorker._request_cb',
    params   = dict(tasks=RTaskL),
    self     = _w_self,
    ghost    = _w_ghost,
    calls    = dict(_w_calls, **{'ru.as_list': lambda ex, node, st: ex.ev(node.args[0], st)}),
    stmt_contracts = {'try:': 'raptor/worker_default.py:DefaultWorker._request_cb#one'},
    requires = _inv + ['forall(lambda i: implies(0 <= i < len(tasks), %s))' % (_in_size % ('tasks[i]', 'tasks[i]', 'tasks[i]'))],
    modifies = ['self._resources', 'self._task_env', 'self._pool', 'tasks', 'n_grant', 'n_release', 'start_log', 'put_log'],
    raises   = {},
    no_raise_is_property = True,
    ensures  = _inv + [
      ('every-request-of-the-bulk-is-started-or-answered-exactly-one',
       '(len(start_log) - len(old(start_log))) + (len(put_log) - len(old(put_log))) == len(tasks)'),
      ('grants-outstanding-equal-requests-started',
       '(n_grant - old(n_grant)) - (n_release - old(n_release)) == len(start_log) - len(old(start_log))'),
      ('answered-requests-carry-the-error',
       'forall(lambda k: implies(len(old(put_log)) <= k < len(put_log), put_log[k].exception is not None))'),
    ],
    loops = {'1': _inv[:2] + [
       '(len(start_log) - len(old(start_log))) + (len(put_log) - len(old(put_log))) == i_task',
       'len(start_log) >= len(old(start_log))', 'len(put_log) >= len(old(put_log))',
       '(n_grant - old(n_grant)) - (n_release - old(n_release)) == len(start_log) - len(old(start_log))',
       'forall(lambda k: implies(len(old(put_log)) <= k < len(put_log), put_log[k].exception is not None))']},
    serves = ['C20'])

WResult = T.Tuple(RTask, OAny, OAny, OAny, OAny, T.List(OAny))
_held_r = [h.replace('task.', 'result[0].') for h in _held]

REG.spec('raptor/worker_default.py:DefaultWorker._result_cb',
    params   = dict(result=WResult),
    self     = _w_self,
    ghost    = _w_ghost,
    locals   = dict(task=RTask),
    calls    = _w_calls,
    # a result comes back for a request that was started: it holds its grant and
    # its process is registered (both established by _request_cb, contract above)
    requires = _inv + _held_r + ['result[0].pid is not None', 'indom(self._pool, val(result[0].pid))', 'len(result[5]) >= 2'],
    modifies = ['self._resources', 'self._pool', 'result', 'n_release', 'put_log'],
    raises   = {},
    no_raise_is_property = True,
    ensures  = _inv + [
      ('the-grant-is-given-back-once', 'n_release == old(n_release) + 1 and n_grant == old(n_grant)'),
      ('the-request-is-answered-once-with-what-the-call-produced',
       'len(put_log) == len(old(put_log)) + 1 and put_log[len(old(put_log))].uid == old(result)[0].uid and '
       'put_log[len(old(put_log))].stdout == old(result)[1] and put_log[len(old(put_log))].stderr == old(result)[2] and '
       'put_log[len(old(put_log))].exit_code == old(result)[3] and put_log[len(old(put_log))].return_value == old(result)[4] and '
       'put_log[len(old(put_log))].exception == old(result)[5][0] and put_log[len(old(put_log))].exception_detail == old(result)[5][1]'),
      ('its-process-entry-is-removed-and-no-other',
       'not indom(self._pool, val(old(result)[0].pid)) and forall(lambda p: implies(p != val(old(result)[0].pid), '
       'indom(self._pool, p) == indom(old(self._pool), p)), Int)'),
      ('cores-given-back', 'named_cells(old(self._resources.cores), self._resources.cores, val(old(result)[0].slots)[0].cores, 1, 0)'),
      ('gpus-given-back',  'named_cells(old(self._resources.gpus), self._resources.gpus, val(old(result)[0].slots)[0].gpus, 1, 0)'),
      ('earlier-answers-kept', 'forall(lambda k: implies(0 <= k < len(old(put_log)), put_log[k] == old(put_log)[k]))'),
    ],
    serves = ['C20'])


# ------------------------------------------------------------------------------
# Master._submit_tasks: routing by task mode
#
from pyvc.frontend import ModuleEnv as _ME
REG.consts.setdefault('TASK_EXECUTABLE', _ME.get('task_description.py').lookup('TASK_EXECUTABLE'))
SDescM = T.Rec('SubDescM', mode=OStr)
REG.optional_keys['SubDescM'] = {'mode'}
SubTask = T.Rec('SubTask', uid=T.Str, description=SDescM, task_sandbox=OStr, task_sandbox_path=OStr)
REG.optional_keys['SubTask'] = {'task_sandbox', 'task_sandbox_path'}
SubTaskL = T.List(SubTask)

def _route_to(logname):
    def h(ex, node, st):
        ts = _coerce(ex.ev(node.args[0], st), SubTaskL)
        log = ex.get_var(st, logname)
        lty = log.ty
        n, l0 = SubTaskL.len(ts.term), lty.len(log.term)
        i = _z3.Int(_C.fresh_name('i'))
        out = ex.fresh_wf(st, lty, logname)
        st.assume(lty.len(out.term) == l0 + n)
        st.assume(_z3.ForAll([i], _z3.Implies(_z3.And(0 <= i, i < l0),
                  _z3.Select(lty.arr(out.term), i) == _z3.Select(lty.arr(log.term), i))))
        st.assume(_z3.ForAll([i], _z3.Implies(_z3.And(l0 <= i, i < l0 + n),
                  _z3.Select(lty.arr(out.term), i) == SubTask.get(_z3.Select(SubTaskL.arr(ts.term), i - l0), 'uid')),
                  patterns=[_z3.Select(lty.arr(out.term), i)]))
        st.env[logname] = out
        return _C.NONE
    h.mutates = (logname,)
    return h

def _sbox_of(ex, node, st):
    t = ex.ev(node.args[0], st)
    return _Val(T.Str, _z3.Function('session!task_sandbox', t.ty.sort(), _C.StrSort)(t.term))
_sbox_of.mutates = ()

def _url_path(ex, node, st):
    a = _coerce(ex.ev(node.args[0], st), T.Str)
    UrlP = T.Rec('MUrlP', path=T.Str)
    return _Val(UrlP, UrlP.mk(_z3.Function('url!path', _C.StrSort, _C.StrSort)(a.term)))
_url_path.mutates = ()

REG.define('is_exec(t)', 't.description.mode is None or val(t.description.mode) == TASK_EXECUTABLE')

REG.spec('raptor/master.py:Master._submit_tasks',
    params   = dict(tasks=SubTaskL),
    self     = dict(_psbox=T.Str),
    ghost    = dict(exec_log=T.List(T.Str), raptor_log=T.List(T.Str), epos=T.Map(T.Int, T.Int), rpos=T.Map(T.Int, T.Int)),
    locals   = dict(raptor_tasks=SubTaskL, executable_tasks=SubTaskL, mode=OStr, sbox=T.Str),
    calls    = {'ru.as_list': lambda ex, node, st: ex.ev(node.args[0], st),
                'self._session._get_task_sandbox': _sbox_of, 'ru.Url': _url_path,
                'self._submit_executable_tasks': _route_to('exec_log'), 'self._submit_raptor_tasks': _route_to('raptor_log')},
    stmt_ghost = {},
    modifies = ['tasks', 'exec_log', 'raptor_log', 'epos', 'rpos'],
    raises   = {},
    ensures  = [
      ('every-request-goes-one-way', '(len(exec_log) - len(old(exec_log))) + (len(raptor_log) - len(old(raptor_log))) == len(tasks)'),
      ('executable-requests-take-the-pilots-execution-path-in-order',
       'forall(lambda k: implies(len(old(exec_log)) <= k < len(exec_log), exists(lambda i: 0 <= i < len(tasks) and '
       'tasks[i].uid == exec_log[k] and is_exec(old(tasks)[i]))))'),
      ('function-like-requests-go-to-the-workers',
       'forall(lambda k: implies(len(old(raptor_log)) <= k < len(raptor_log), exists(lambda i: 0 <= i < len(tasks) and '
       'tasks[i].uid == raptor_log[k] and not is_exec(old(tasks)[i]))))'),
      ('earlier-routes-kept', 'forall(lambda k: implies(0 <= k < len(old(exec_log)), exec_log[k] == old(exec_log)[k])) and '
                              'forall(lambda k: implies(0 <= k < len(old(raptor_log)), raptor_log[k] == old(raptor_log)[k]))'),
    ],
    loops = {'1': ['len(tasks) == len(old(tasks))', 'exec_log == old(exec_log)', 'raptor_log == old(raptor_log)',
                   'len(executable_tasks) + len(raptor_tasks) == i_task',
                   'forall(lambda i: implies(0 <= i < len(tasks), tasks[i].uid == old(tasks)[i].uid and tasks[i].description == old(tasks)[i].description))',
                   'forall(lambda k: implies(0 <= k < len(executable_tasks), exists(lambda i: 0 <= i < i_task and '
                   'tasks[i].uid == executable_tasks[k].uid and is_exec(old(tasks)[i]))))',
                   'forall(lambda k: implies(0 <= k < len(raptor_tasks), exists(lambda i: 0 <= i < i_task and '
                   'tasks[i].uid == raptor_tasks[k].uid and not is_exec(old(tasks)[i]))))']},
    serves = ['C20'])

"""sidecar contracts for the real functions of /repo/src/radical/pilot"""
from pyvc.spec import REG, T
from pyvc.frontend import ModuleEnv

# names usable in every spec expression
REG.consts['rps'] = ModuleEnv.get('states.py')
REG.consts['rpc'] = ModuleEnv.get('constants.py')
for _n in ('NEW', 'DONE', 'FAILED', 'CANCELED', 'FINAL'):
    REG.consts[_n] = REG.consts['rps'].lookup(_n)
for _n in ('FREE', 'BUSY', 'DOWN'):
    REG.consts[_n] = REG.consts['rpc'].lookup(_n)

from . import types, effects, states, wait, client_state, session, descr, raptor, sched_agent, pilot_state, platforms, rm, tmgr_sched, executor, sched_loop, tmgr_backfill, launch, staging, scripts, app_nodes   # noqa

"""C12: client-side task-to-pilot binding (tmgr/scheduler/base.py, round_robin.py)"""
import z3
from pyvc import core as C
from pyvc.spec import REG, T
from pyvc.core import Val, fresh
from .types import OStr, OAny
from .effects import ignore_call, log_call, nondet_bool

TDescC = T.Rec('TDescC', ranks=T.Int, cores_per_rank=T.Int)
TaskC  = T.Rec('TaskC', uid=T.Str, pilot=OStr, client_sandbox=OAny, endpoint_fs=OAny,
               resource_sandbox=OAny, session_sandbox=OAny, pilot_sandbox=OAny,
               task_sandbox=OAny, task_sandbox_path=OAny, description=T.Opt(TDescC), state=OStr)
REG.optional_keys['TaskC'] = set(TaskC.fields) - {'uid'}
PDescC = T.Rec('PDescC', cores=T.Int)
PilotC = T.Rec('PilotC', uid=T.Str, state=OStr, description=T.Opt(PDescC))
REG.optional_keys['PilotC'] = {'state', 'description'}
PEntry = T.Rec('PilotEntry', role=OStr, state=OStr, pilot=T.Opt(PilotC), info=OAny)
TaskCL = T.List(TaskC)
PilotsM = T.Map(T.Str, PEntry)
EarlyM  = T.Map(T.Str, TaskCL)
TasksM  = T.Map(T.Str, T.List(T.Str))
REG.types.update(TaskC=TaskC)
REG.consts['ADDED'] = 'added'
REG.consts['REMOVED'] = 'removed'


def _any_value(ex, node, st):
    for a in node.args:
        ex.ev(a, st)
    return fresh(T.Any, 'sandbox')
_any_value.mutates = ()


def _url(ex, node, st):
    """ru.Url(x): only .path is read (assumed contract: a string)"""
    for a in node.args:
        ex.ev(a, st)
    return fresh(T.Rec('UrlR', path=T.Str), 'url')


REG.modfuncs['ru.Url'] = _url
_sandbox_effects = {('self._session._get_%s' % n): _any_value for n in
                    ('client_sandbox', 'endpoint_fs', 'resource_sandbox',
                     'session_sandbox', 'pilot_sandbox', 'task_sandbox')}

REG.spec('tmgr/scheduler/base.py:TMGRSchedulingComponent._assign_pilot',
    params   = dict(task=TaskC, pilot=PilotC),
    self     = dict(_tasks=TasksM),
    effects  = _sandbox_effects,
    # every call site passes an unbound task or the pilot the task names
    requires = ['not task.pilot or task.pilot == pilot.uid'],
    modifies = ['task', 'self._tasks'],
    raises   = {},
    ensures  = [
      ('bound-to-that-pilot', 'task.pilot == pilot.uid and task.uid == old(task.uid)'),
      ('recorded-once-under-the-pilot',
       'indom(self._tasks, pilot.uid) and '
       'len(at(self._tasks, pilot.uid)) == ite(indom(old(self._tasks), pilot.uid), len(at(old(self._tasks), pilot.uid)), 0) + 1 and '
       'at(self._tasks, pilot.uid)[len(at(self._tasks, pilot.uid)) - 1] == task.uid'),
      ('other-pilots-untouched',
       'forall(lambda p: implies(p != pilot.uid, indom(self._tasks, p) == indom(old(self._tasks), p) and '
       'implies(indom(self._tasks, p), at(self._tasks, p) == at(old(self._tasks), p))), Str)'),
    ],
    serves   = ['C12'])


# ------------------------------------------------------------------------------
# forwarding events: advance(..., TMGR_STAGING_INPUT_PENDING | FAILED)
#
FwdEvt = T.Rec('FwdEvt', uid=T.Str, pilot=OStr, state=OStr)


def _advance(ex, node, st):
    """self.advance(things, state, ...): one event per thing is appended to the
    ghost log fwd_log (uid, pilot the thing is bound to, state)"""
    from pyvc.core import PyTuple, TList, coerce, PyDict
    things = ex.ev(node.args[0], st)
    state  = ex.ev(node.args[1], st) if len(node.args) > 1 else C.NONE
    for k in node.keywords:
        if k.arg == 'state': state = ex.ev(k.value, st)
    log = ex.get_var(st, 'fwd_log')
    lty = log.ty
    if isinstance(things.ty, C.TOpt):
        ex.fail(st, things.ty.is_none(things.term), 'TypeError')
        things = Val(things.ty.elem, things.ty.val(things.term))
    if isinstance(things.ty, TList):
        # a bulk: the log is extended by one event per element
        n   = things.ty.len(things.term)
        out = ex.fresh_wf(st, lty, 'fwd_log')
        i   = z3.Int(C.fresh_name('i'))
        l0  = lty.len(log.term)
        st.assume(lty.len(out.term) == l0 + n)
        st.assume(z3.ForAll([i], z3.Implies(z3.And(0 <= i, i < l0),
                  z3.Select(lty.arr(out.term), i) == z3.Select(lty.arr(log.term), i))))
        e = lambda k: things.ty.elem
        el = lambda k: z3.Select(things.ty.arr(things.term), k)
        st.assume(z3.ForAll([i], z3.Implies(z3.And(l0 <= i, i < l0 + n),
                  z3.Select(lty.arr(out.term), i) == FwdEvt.mk(
                      things.ty.elem.get(el(i - l0), 'uid'),
                      things.ty.elem.get(el(i - l0), 'pilot'),
                      coerce(state, OStr).term)),
                  patterns=[z3.Select(lty.arr(out.term), i)]))
        st.env['fwd_log'] = out
    else:
        ev = FwdEvt.mk(things.ty.get(things.term, 'uid'), things.ty.get(things.term, 'pilot'),
                       coerce(state, OStr).term)
        n = lty.len(log.term)
        st.env['fwd_log'] = Val(lty, lty.mk(z3.Store(lty.arr(log.term), n, ev), n + 1))
    return C.NONE
_advance.mutates = ('fwd_log',)

FWD = 'rps.TMGR_STAGING_INPUT_PENDING'

# every added pilot is listed in _pids and vice versa (RoundRobin)
REG.define('rr_inv(pilots, pids)',
    'forall(lambda i: implies(0 <= i < len(pids), indom(pilots, pids[i]) and at(pilots, pids[i]).role == ADDED and '
    'at(pilots, pids[i]).pilot is not None and val(at(pilots, pids[i]).pilot).uid == pids[i]))')

REG.spec('tmgr/scheduler/round_robin.py:RoundRobin._schedule_tasks',
    params   = dict(tasks=TaskCL),
    self     = dict(_pids=T.List(T.Str), _idx=T.Int, _pilots=PilotsM, _wait_pool=TaskCL, _tasks=TasksM),
    ghost    = dict(fwd_log=T.List(FwdEvt)),
    locals   = dict(tasks_ok=TaskCL, tasks_fail=TaskCL),
    calls    = {'self._assign_pilot': 'tmgr/scheduler/base.py:TMGRSchedulingComponent._assign_pilot'},
    effects  = {'self.advance': _advance},
    requires = ['rr_inv(self._pilots, self._pids)', 'self._idx >= 0',
                'forall(lambda t: implies(0 <= t < len(tasks), not tasks[t].pilot))'],
    modifies = ['self._idx', 'self._wait_pool', 'self._tasks', 'tasks', 'fwd_log'],
    raises   = {},
    ensures  = [
      ('no-eligible-pilot-means-wait',
       'implies(len(self._pids) == 0, len(fwd_log) == len(old(fwd_log)) and len(self._wait_pool) == len(old(self._wait_pool)) + len(tasks) and '
       'forall(lambda t: implies(0 <= t < len(tasks), self._wait_pool[len(old(self._wait_pool)) + t] == old(tasks)[t])))'),
      ('every-task-bound-to-a-currently-added-pilot',
       'implies(len(self._pids) > 0, forall(lambda t: implies(0 <= t < len(tasks), tasks[t].uid == old(tasks)[t].uid and '
       'tasks[t].pilot is not None and exists(lambda i: 0 <= i < len(self._pids) and self._pids[i] == val(tasks[t].pilot)))))'),
      ('forwarded-exactly-once-each',
       'implies(len(self._pids) > 0, len(fwd_log) == len(old(fwd_log)) + len(tasks) and '
       'forall(lambda t: implies(0 <= t < len(tasks), fwd_log[len(old(fwd_log)) + t].uid == tasks[t].uid and '
       'fwd_log[len(old(fwd_log)) + t].pilot == tasks[t].pilot and fwd_log[len(old(fwd_log)) + t].state == %s)))' % FWD),
      ('round-robin-order',
       'implies(len(self._pids) > 0, forall(lambda t: implies(0 <= t < len(tasks) - 1 and val(tasks[t].pilot) != self._pids[len(self._pids) - 1], '
       'exists(lambda i: 0 <= i < len(self._pids) - 1 and self._pids[i] == val(tasks[t].pilot) and self._pids[i + 1] == val(tasks[t + 1].pilot)))))'),
      ('history-kept', 'forall(lambda k: implies(0 <= k < len(old(fwd_log)), fwd_log[k] == old(fwd_log)[k]))'),
      ('same-batch', 'len(tasks) == len(old(tasks)) and implies(len(self._pids) == 0, tasks == old(tasks))'),
      ('wait-pool-untouched-when-pilots-exist', 'implies(len(self._pids) > 0, self._wait_pool == old(self._wait_pool))'),
    ],
    loops = {
      '1': ['len(tasks) == len(old(tasks))', 'self._idx >= 0', 'len(self._pids) > 0',
            'len(tasks_fail) == 0', 'len(tasks_ok) == i_task', 'fwd_log == old(fwd_log)',
            'self._wait_pool == old(self._wait_pool)',
            'forall(lambda t: implies(0 <= t < i_task, tasks_ok[t] == tasks[t] and tasks[t].uid == old(tasks)[t].uid and tasks[t].pilot is not None))',
            'forall(lambda t: implies(i_task <= t < len(tasks), tasks[t] == old(tasks)[t]))',
            # position of the pilot each task went to: consecutive, wrapping
            'implies(i_task > 0, 1 <= self._idx <= len(self._pids) and val(tasks[i_task - 1].pilot) == self._pids[self._idx - 1])',
            'forall(lambda t: implies(0 <= t < i_task, exists(lambda i: 0 <= i < len(self._pids) and self._pids[i] == val(tasks[t].pilot))))',
            'forall(lambda t: implies(0 <= t < i_task - 1 and val(tasks[t].pilot) != self._pids[len(self._pids) - 1], '
            'exists(lambda i: 0 <= i < len(self._pids) - 1 and self._pids[i] == val(tasks[t].pilot) and self._pids[i + 1] == val(tasks[t + 1].pilot))))',
            ],
    },
    opts   = dict(merge='scalars'),
    serves = ['C12'])


# ------------------------------------------------------------------------------
# TMGRSchedulingComponent._update_pilot_states
#
PilotL = T.List(PilotC)
REG.define('pentry_ok(pilots)',
    'forall(lambda p: implies(indom(pilots, p), is_pstate(at(pilots, p).state)), Str)')


def _update_pilots_hook(ex, node, st):
    for a in node.args: ex.ev(a, st)
    return C.NONE
_update_pilots_hook.mutates = ()

REG.spec('tmgr/scheduler/base.py:TMGRSchedulingComponent._update_pilot_states',
    params   = dict(pilots=PilotL),
    self     = dict(_pilots=PilotsM),
    locals   = dict(to_update=T.List(T.Str)),
    calls    = {'rps._pilot_state_progress': 'states.py:_pilot_state_progress'},
    effects  = {'self.update_pilots': _update_pilots_hook},
    requires = ['pentry_ok(self._pilots)',
                'forall(lambda i: implies(0 <= i < len(pilots), is_pstate(pilots[i].state)))'],
    modifies = ['self._pilots'],
    raises   = {'ValueError': 'True'},
    raises_weak = ['ValueError'],
    frame_on_raise = False,
    ensures  = [
      ('states-known', 'pentry_ok(self._pilots)'),
      ('known-pilots-stay-known', 'forall(lambda p: implies(indom(old(self._pilots), p), indom(self._pilots, p)), Str)'),
      ('roles-and-bindings-untouched',
       'forall(lambda p: implies(indom(old(self._pilots), p), at(self._pilots, p).role == at(old(self._pilots), p).role and '
       'at(self._pilots, p).pilot == at(old(self._pilots), p).pilot), Str)'),
      ('new-entries-have-no-role',
       'forall(lambda p: implies(indom(self._pilots, p) and not indom(old(self._pilots), p), at(self._pilots, p).role is None and at(self._pilots, p).pilot is None), Str)'),
      ('pilot-states-never-backward',
       'forall(lambda p: implies(indom(old(self._pilots), p), pv(at(self._pilots, p).state) >= pv(at(old(self._pilots), p).state)), Str)'),
    ],
    loops = {'1': ['pentry_ok(self._pilots)',
                   'forall(lambda p: implies(indom(old(self._pilots), p), indom(self._pilots, p)), Str)',
                   'forall(lambda p: implies(indom(old(self._pilots), p), at(self._pilots, p).role == at(old(self._pilots), p).role and '
                   'at(self._pilots, p).pilot == at(old(self._pilots), p).pilot), Str)',
                   'forall(lambda p: implies(indom(self._pilots, p) and not indom(old(self._pilots), p), at(self._pilots, p).role is None and at(self._pilots, p).pilot is None), Str)',
                   'forall(lambda p: implies(indom(old(self._pilots), p), pv(at(self._pilots, p).state) >= pv(at(old(self._pilots), p).state)), Str)']},
    opts   = dict(merge='scalars'),
    serves = ['C12', 'C14'])


# ------------------------------------------------------------------------------
# RoundRobin: pilot bookkeeping
#
_rr_self = dict(_pids=T.List(T.Str), _idx=T.Int, _pilots=PilotsM, _wait_pool=TaskCL, _tasks=TasksM)
REG.define('early_inv(early)',
    'forall(lambda p: implies(indom(early, p), forall(lambda t: implies(0 <= t < len(at(early, p)), at(early, p)[t].pilot == p))), Str)')
REG.define('no_dups(xs)', 'forall(lambda i, j: implies(0 <= i < j < len(xs), xs[i] != xs[j]))')
REG.define('waiting_unbound(pool)', 'forall(lambda t: implies(0 <= t < len(pool), not pool[t].pilot))')

REG.spec('tmgr/scheduler/round_robin.py:RoundRobin.add_pilots',
    params   = dict(pids=T.List(T.Str)),
    self     = _rr_self,
    ghost    = dict(fwd_log=T.List(FwdEvt)),
    locals   = dict(tasks=TaskCL),
    calls    = {'self._schedule_tasks': 'tmgr/scheduler/round_robin.py:RoundRobin._schedule_tasks'},
    requires = ['rr_inv(self._pilots, self._pids)', 'self._idx >= 0', 'waiting_unbound(self._wait_pool)',
                # the base class has marked them ADDED before (control_cb)
                'forall(lambda i: implies(0 <= i < len(pids), indom(self._pilots, pids[i]) and at(self._pilots, pids[i]).role == ADDED and '
                'at(self._pilots, pids[i]).pilot is not None and val(at(self._pilots, pids[i]).pilot).uid == pids[i]))'],
    modifies = ['self._pids', 'self._idx', 'self._wait_pool', 'self._tasks', 'fwd_log'],
    raises   = {},
    ensures  = [
      ('added-pilots-are-eligible', 'rr_inv(self._pilots, self._pids)'),
      ('pilot-list-extended', 'len(self._pids) == len(old(self._pids)) + len(pids) and '
       'forall(lambda i: implies(0 <= i < len(old(self._pids)), self._pids[i] == old(self._pids)[i])) and '
       'forall(lambda i: implies(0 <= i < len(pids), self._pids[len(old(self._pids)) + i] == pids[i]))'),
      ('waiting-tasks-start-once-a-pilot-exists',
       'implies(len(self._pids) > 0, len(self._wait_pool) == 0 and len(fwd_log) == len(old(fwd_log)) + len(old(self._wait_pool)))'),
      ('still-waiting-without-pilots', 'implies(len(self._pids) == 0, self._wait_pool == old(self._wait_pool) and fwd_log == old(fwd_log))'),
      ('waiting-unbound', 'waiting_unbound(self._wait_pool)'),
    ],
    opts     = dict(merge='scalars'),
    serves   = ['C12'])

REG.spec('tmgr/scheduler/round_robin.py:RoundRobin.remove_pilots',
    params   = dict(pids=T.List(T.Str)),
    self     = dict(_pids=T.List(T.Str)),
    requires = ['no_dups(self._pids)'],
    modifies = ['self._pids'],
    raises   = {'ValueError': 'True'},
    raises_weak = ['ValueError'],
    frame_on_raise = False,
    ensures  = [
      ('removed-pilots-are-no-longer-eligible',
       'forall(lambda k, i: implies(0 <= k < len(pids) and 0 <= i < len(self._pids), self._pids[i] != pids[k]))'),
      ('others-stay-eligible',
       'forall(lambda i: implies(0 <= i < len(old(self._pids)) and not in_list(pids, old(self._pids)[i]), in_list(self._pids, old(self._pids)[i])))'),
      ('only-known-pilots-remain',
       'forall(lambda i: implies(0 <= i < len(self._pids), in_list(old(self._pids), self._pids[i])))'),
      ('no-dups', 'no_dups(self._pids)'),
    ],
    loops    = {'1': ['no_dups(self._pids)',
                      'forall(lambda k, i: implies(0 <= k < i_pid and 0 <= i < len(self._pids), self._pids[i] != pids[k]))',
                      'forall(lambda i: implies(0 <= i < len(old(self._pids)) and not exists(lambda k: 0 <= k < i_pid and pids[k] == old(self._pids)[i]), in_list(self._pids, old(self._pids)[i])))',
                      'forall(lambda i: implies(0 <= i < len(self._pids), in_list(old(self._pids), self._pids[i])))']},
    serves   = ['C12'])


REG.spec('tmgr/scheduler/round_robin.py:RoundRobin._work',
    params   = dict(tasks=TaskCL),
    self     = _rr_self,
    ghost    = dict(fwd_log=T.List(FwdEvt)),
    locals   = dict(unscheduled=TaskCL, scheduled=TaskCL, failed=TaskCL),
    calls    = {'self._schedule_tasks': 'tmgr/scheduler/round_robin.py:RoundRobin._schedule_tasks',
                'self._assign_pilot': 'tmgr/scheduler/base.py:TMGRSchedulingComponent._assign_pilot'},
    effects  = {'self.advance': _advance},
    requires = ['rr_inv(self._pilots, self._pids)', 'self._idx >= 0',
                # TMGRSchedulingComponent.work hands over unbound tasks only
                'forall(lambda t: implies(0 <= t < len(tasks), not tasks[t].pilot))'],
    modifies = ['self._idx', 'self._wait_pool', 'self._tasks', 'tasks', 'fwd_log'],
    raises   = {},
    ensures  = [
      ('wait-without-pilots',
       'implies(len(self._pids) == 0, len(fwd_log) == len(old(fwd_log)) and len(self._wait_pool) == len(old(self._wait_pool)) + len(tasks))'),
      ('all-forwarded-once-with-pilots',
       'implies(len(self._pids) > 0, len(fwd_log) == len(old(fwd_log)) + len(tasks) and self._wait_pool == old(self._wait_pool))'),
    ],
    loops    = {'1': ['len(failed) == 0', 'len(scheduled) == 0', 'len(unscheduled) == i_task',
                      'tasks == old(tasks)', 'fwd_log == old(fwd_log)', 'self._tasks == old(self._tasks)',
                      'forall(lambda t: implies(0 <= t < i_task, unscheduled[t] == tasks[t]))']},
    opts     = dict(merge='scalars'),
    serves   = ['C12'])


# TMGRSchedulingComponent.work: named tasks go to the named pilot or wait for it
REG.spec('tmgr/scheduler/base.py:TMGRSchedulingComponent.work',
    params   = dict(tasks=TaskCL),
    self     = dict(_pilots=PilotsM, _early=EarlyM, _tasks=TasksM, _pids=T.List(T.Str), _idx=T.Int, _wait_pool=TaskCL),
    ghost    = dict(fwd_log=T.List(FwdEvt)),
    locals   = dict(to_schedule=TaskCL),
    calls    = {'self._work': 'tmgr/scheduler/round_robin.py:RoundRobin._work',
                'self._assign_pilot': 'tmgr/scheduler/base.py:TMGRSchedulingComponent._assign_pilot'},
    effects  = {'self.advance': _advance},
    requires = ['rr_inv(self._pilots, self._pids)', 'self._idx >= 0', 'early_inv(self._early)',
                'forall(lambda p: implies(indom(self._pilots, p) and at(self._pilots, p).pilot is not None, val(at(self._pilots, p).pilot).uid == p), Str)'],
    modifies = ['self._early', 'self._tasks', 'self._idx', 'self._wait_pool', 'tasks', 'fwd_log'],
    raises   = {},
    ensures  = [
      ('named-tasks-go-to-the-named-pilot-or-wait-for-it',
       'forall(lambda t: implies(0 <= t < len(tasks) and bool(old(tasks)[t].pilot), '
       'tasks[t].pilot == old(tasks)[t].pilot and tasks[t].uid == old(tasks)[t].uid))'),
      ('early-lists-hold-tasks-naming-that-pilot', 'early_inv(self._early)'),
      ('early-list-only-grows',
       'forall(lambda p: implies(indom(old(self._early), p), indom(self._early, p) and len(at(self._early, p)) >= len(at(old(self._early), p))), Str)'),
    ],
    loops    = {'1': ['len(tasks) == len(old(tasks))',
                      'forall(lambda t: implies(i_task <= t < len(tasks), tasks[t] == old(tasks)[t]))',
                      'forall(lambda t: implies(0 <= t < i_task and bool(old(tasks)[t].pilot), tasks[t].pilot == old(tasks)[t].pilot and tasks[t].uid == old(tasks)[t].uid))',
                      'forall(lambda t: implies(0 <= t < len(to_schedule), not to_schedule[t].pilot))',
                      'forall(lambda p: implies(indom(old(self._early), p), indom(self._early, p) and len(at(self._early, p)) >= len(at(old(self._early), p))), Str)',
                      'early_inv(self._early)',
                      'self._pids == old(self._pids)', 'self._idx == old(self._idx)', 'self._wait_pool == old(self._wait_pool)']},
    opts     = dict(merge='scalars'),
    serves   = ['C12'])


# ------------------------------------------------------------------------------
# TMGRSchedulingComponent.control_cb: add / remove pilots
#
CtrlArg = T.Rec('CtrlArg', tmgr=OStr, pilots=T.Opt(PilotL), pids=T.Opt(T.List(T.Str)), uids=T.Opt(T.List(T.Str)))
REG.optional_keys['CtrlArg'] = {'pilots', 'pids', 'uids'}
CtrlMsg = T.Rec('CtrlMsg', cmd=OStr, arg=T.Opt(CtrlArg))
REG.optional_keys['CtrlMsg'] = {'cmd', 'arg'}

REG.spec('tmgr/scheduler/base.py:TMGRSchedulingComponent.control_cb',
    params   = dict(topic=T.Str, msg=CtrlMsg),
    self     = dict(_pilots=PilotsM, _early=EarlyM, _tasks=TasksM, _tmgr=T.Str,
                    _pids=T.List(T.Str), _idx=T.Int, _wait_pool=TaskCL),
    ghost    = dict(fwd_log=T.List(FwdEvt)),
    returns  = T.Opt(T.Bool),
    locals   = dict(to_cancel=T.Map(T.Str, T.List(T.Str)), early_tasks=T.Opt(TaskCL)),
    calls    = {'self._update_pilot_states': 'tmgr/scheduler/base.py:TMGRSchedulingComponent._update_pilot_states',
                'self._assign_pilot': 'tmgr/scheduler/base.py:TMGRSchedulingComponent._assign_pilot',
                'self.add_pilots': 'tmgr/scheduler/round_robin.py:RoundRobin.add_pilots',
                'self.remove_pilots': 'tmgr/scheduler/round_robin.py:RoundRobin.remove_pilots'},
    effects  = {'self.advance': _advance},
    requires = ['rr_inv(self._pilots, self._pids)', 'no_dups(self._pids)', 'self._idx >= 0',
                'waiting_unbound(self._wait_pool)', 'pentry_ok(self._pilots)', 'early_inv(self._early)',
                'implies(msg.arg is not None and val(msg.arg).pilots is not None, '
                'forall(lambda i: implies(0 <= i < len(val(val(msg.arg).pilots)), is_pstate(val(val(msg.arg).pilots)[i].state))) and '
                'forall(lambda i, j: implies(0 <= i < j < len(val(val(msg.arg).pilots)), val(val(msg.arg).pilots)[i].uid != val(val(msg.arg).pilots)[j].uid)))',
                # pilots are only listed as eligible while their role is ADDED
                'forall(lambda p: implies(indom(self._pilots, p) and at(self._pilots, p).role == ADDED, in_list(self._pids, p)), Str)'],
    modifies = ['self._pilots', 'self._early', 'self._tasks', 'self._pids', 'self._idx', 'self._wait_pool', 'fwd_log'],
    raises   = {'ValueError': 'True', 'KeyError': 'True', 'TypeError': 'True'},
    raises_weak = ['ValueError', 'KeyError', 'TypeError'],
    frame_on_raise = False,
    ensures  = [
      ('other-commands-change-nothing',
       'implies(msg.cmd not in ["add_pilots", "remove_pilots", "cancel_tasks"] or '
       '(bool(val(msg.arg).tmgr) and val(msg.arg).tmgr != self._tmgr), '
       'self._pilots == old(self._pilots) and self._pids == old(self._pids) and fwd_log == old(fwd_log))'),
      ('added-pilots-have-role-added',
       'implies(msg.cmd == "add_pilots" and not (bool(val(msg.arg).tmgr) and val(msg.arg).tmgr != self._tmgr), '
       'forall(lambda i: implies(0 <= i < len(val(val(msg.arg).pilots)), '
       'indom(self._pilots, val(val(msg.arg).pilots)[i].uid) and at(self._pilots, val(val(msg.arg).pilots)[i].uid).role == ADDED)))'),
      # C12: tasks that waited for a named pilot are forwarded when it is added
      # and are not kept for a second forwarding
      ('early-bound-tasks-are-not-kept-after-forwarding',
       'implies(msg.cmd == "add_pilots" and not (bool(val(msg.arg).tmgr) and val(msg.arg).tmgr != self._tmgr), '
       'forall(lambda i: implies(0 <= i < len(val(val(msg.arg).pilots)), '
       'not indom(self._early, val(val(msg.arg).pilots)[i].uid) or len(at(self._early, val(val(msg.arg).pilots)[i].uid)) == 0)))'),
      ('removed-pilots-lose-the-role-and-eligibility',
       'implies(msg.cmd == "remove_pilots" and not (bool(val(msg.arg).tmgr) and val(msg.arg).tmgr != self._tmgr), '
       'forall(lambda k: implies(0 <= k < len(val(val(msg.arg).pids)), '
       'at(self._pilots, val(val(msg.arg).pids)[k]).role == REMOVED and not in_list(self._pids, val(val(msg.arg).pids)[k]))))'),
    ],
    loops = {
      '1': ['pentry_ok(self._pilots)', 'rr_inv(self._pilots, self._pids)',
            'self._early == old(self._early)', 'fwd_log == old(fwd_log)',
            'forall(lambda i: implies(0 <= i < i_pilot, indom(self._pilots, pilots[i].uid) and at(self._pilots, pilots[i].uid).role == ADDED and '
            'at(self._pilots, pilots[i].uid).pilot is not None and val(at(self._pilots, pilots[i].uid).pilot).uid == pilots[i].uid))',
            'forall(lambda p: implies(indom(self._pilots, p) and at(self._pilots, p).role == ADDED, '
            'in_list(self._pids, p) or exists(lambda i: 0 <= i < i_pilot and pilots[i].uid == p)), Str)',
            'forall(lambda i: implies(0 <= i < i_pilot, not in_list(self._pids, pilots[i].uid)))'],
      '2': ['pentry_ok(self._pilots)', 'rr_inv(self._pilots, self._pids)', 'early_inv(self._early)',
            'forall(lambda i: implies(0 <= i < len(pilots), indom(self._pilots, pilots[i].uid) and at(self._pilots, pilots[i].uid).role == ADDED and '
            'at(self._pilots, pilots[i].uid).pilot is not None and val(at(self._pilots, pilots[i].uid).pilot).uid == pilots[i].uid))',
            'forall(lambda i: implies(0 <= i < i_pilot, not indom(self._early, pilots[i].uid) or len(at(self._early, pilots[i].uid)) == 0))',
            'forall(lambda i: implies(0 <= i < len(pilots), not in_list(self._pids, pilots[i].uid)))'],
      '2.1': ['pid == pilot.uid', 'is_some(early_tasks)',
              'forall(lambda t: implies(0 <= t < len(val(early_tasks)), val(early_tasks)[t].pilot == pid))'],
      '3': ['fwd_log == old(fwd_log)', 'self._pids == old(self._pids)',
            'forall(lambda k: implies(0 <= k < i_pid, indom(self._pilots, pids[k]) and at(self._pilots, pids[k]).role == REMOVED))',
            'forall(lambda p: implies(indom(self._pilots, p) and not exists(lambda k: 0 <= k < i_pid and pids[k] == p), '
            'at(self._pilots, p) == at(old(self._pilots), p)), Str)',
            'forall(lambda p: indom(self._pilots, p) == indom(old(self._pilots), p), Str)'],
    },
    opts     = dict(merge='scalars'),
    serves   = ['C12'])

"""C12: client-side task-to-pilot binding (tmgr/scheduler/base.py, round_robin.py)"""
import z3
from pyvc import core as C
from pyvc.spec import REG, T
from pyvc.core import Val, fresh
from .types import OStr, OAny
from .effects import ignore_call, log_call, nondet_bool

TaskC  = T.Rec('TaskC', uid=T.Str, pilot=OStr, client_sandbox=OAny, endpoint_fs=OAny,
               resource_sandbox=OAny, session_sandbox=OAny, pilot_sandbox=OAny,
               task_sandbox=OAny, task_sandbox_path=OAny)
REG.optional_keys['TaskC'] = set(TaskC.fields) - {'uid'}
PilotC = T.Rec('PilotC', uid=T.Str, state=OStr)
PEntry = T.Rec('PilotEntry', role=OStr, state=OStr, pilot=T.Opt(PilotC), info=OAny)
TaskCL = T.List(TaskC)
PilotsM = T.Map(T.Str, PEntry)
EarlyM  = T.Map(T.Str, TaskCL)
TasksM  = T.Map(T.Str, T.List(T.Str))
REG.types.update(TaskC=TaskC)
REG.consts['ADDED'] = 'added'
REG.consts['REMOVED'] = 'removed'


def _any_value(ex, node, st):
    for a in node.args:
        ex.ev(a, st)
    return fresh(T.Any, 'sandbox')
_any_value.mutates = ()


def _url(ex, node, st):
    """ru.Url(x): only .path is read (assumed contract: a string)"""
    for a in node.args:
        ex.ev(a, st)
    return fresh(T.Rec('UrlR', path=T.Str), 'url')


REG.modfuncs['ru.Url'] = _url
_sandbox_effects = {('self._session._get_%s' % n): _any_value for n in
                    ('client_sandbox', 'endpoint_fs', 'resource_sandbox',
                     'session_sandbox', 'pilot_sandbox', 'task_sandbox')}

REG.spec('tmgr/scheduler/base.py:TMGRSchedulingComponent._assign_pilot',
    params   = dict(task=TaskC, pilot=PilotC),
    self     = dict(_tasks=TasksM),
    effects  = _sandbox_effects,
    modifies = ['task', 'self._tasks'],
    raises   = {},
    ensures  = [
      ('bound-to-that-pilot', 'task.pilot == pilot.uid and task.uid == old(task.uid)'),
      ('recorded-once-under-the-pilot',
       'indom(self._tasks, pilot.uid) and '
       'len(at(self._tasks, pilot.uid)) == ite(indom(old(self._tasks), pilot.uid), len(at(old(self._tasks), pilot.uid)), 0) + 1 and '
       'at(self._tasks, pilot.uid)[len(at(self._tasks, pilot.uid)) - 1] == task.uid'),
      ('other-pilots-untouched',
       'forall(lambda p: implies(p != pilot.uid, indom(self._tasks, p) == indom(old(self._tasks), p) and '
       'implies(indom(self._tasks, p), at(self._tasks, p) == at(old(self._tasks), p))), Str)'),
    ],
    serves   = ['C12'])


# ------------------------------------------------------------------------------
# forwarding events: advance(..., TMGR_STAGING_INPUT_PENDING | FAILED)
#
FwdEvt = T.Rec('FwdEvt', uid=T.Str, pilot=OStr, state=OStr)


def _advance(ex, node, st):
    """self.advance(things, state, ...): one event per thing is appended to the
    ghost log fwd_log (uid, pilot the thing is bound to, state)"""
    from pyvc.core import PyTuple, TList, coerce, PyDict
    things = ex.ev(node.args[0], st)
    state  = ex.ev(node.args[1], st) if len(node.args) > 1 else C.NONE
    for k in node.keywords:
        if k.arg == 'state': state = ex.ev(k.value, st)
    log = ex.get_var(st, 'fwd_log')
    lty = log.ty
    if isinstance(things.ty, TList):
        # a bulk: the log is extended by one event per element
        n   = things.ty.len(things.term)
        out = ex.fresh_wf(st, lty, 'fwd_log')
        i   = z3.Int(C.fresh_name('i'))
        l0  = lty.len(log.term)
        st.assume(lty.len(out.term) == l0 + n)
        st.assume(z3.ForAll([i], z3.Implies(z3.And(0 <= i, i < l0),
                  z3.Select(lty.arr(out.term), i) == z3.Select(lty.arr(log.term), i))))
        e = lambda k: things.ty.elem
        el = lambda k: z3.Select(things.ty.arr(things.term), k)
        st.assume(z3.ForAll([i], z3.Implies(z3.And(l0 <= i, i < l0 + n),
                  z3.Select(lty.arr(out.term), i) == FwdEvt.mk(
                      things.ty.elem.get(el(i - l0), 'uid'),
                      things.ty.elem.get(el(i - l0), 'pilot'),
                      coerce(state, OStr).term)),
                  patterns=[z3.Select(lty.arr(out.term), i)]))
        st.env['fwd_log'] = out
    else:
        ev = FwdEvt.mk(things.ty.get(things.term, 'uid'), things.ty.get(things.term, 'pilot'),
                       coerce(state, OStr).term)
        n = lty.len(log.term)
        st.env['fwd_log'] = Val(lty, lty.mk(z3.Store(lty.arr(log.term), n, ev), n + 1))
    return C.NONE
_advance.mutates = ('fwd_log',)

FWD = 'rps.TMGR_STAGING_INPUT_PENDING'

# every added pilot is listed in _pids and vice versa (RoundRobin)
REG.define('rr_inv(pilots, pids)',
    'forall(lambda i: implies(0 <= i < len(pids), indom(pilots, pids[i]) and at(pilots, pids[i]).role == ADDED and '
    'at(pilots, pids[i]).pilot is not None and val(at(pilots, pids[i]).pilot).uid == pids[i]))')

REG.spec('tmgr/scheduler/round_robin.py:RoundRobin._schedule_tasks',
    params   = dict(tasks=TaskCL),
    self     = dict(_pids=T.List(T.Str), _idx=T.Int, _pilots=PilotsM, _wait_pool=TaskCL, _tasks=TasksM),
    ghost    = dict(fwd_log=T.List(FwdEvt)),
    locals   = dict(tasks_ok=TaskCL, tasks_fail=TaskCL),
    calls    = {'self._assign_pilot': 'tmgr/scheduler/base.py:TMGRSchedulingComponent._assign_pilot'},
    effects  = {'self.advance': _advance},
    requires = ['rr_inv(self._pilots, self._pids)', 'self._idx >= 0',
                'forall(lambda t: implies(0 <= t < len(tasks), tasks[t].pilot is None))'],
    modifies = ['self._idx', 'self._wait_pool', 'self._tasks', 'tasks', 'fwd_log'],
    raises   = {},
    ensures  = [
      ('no-eligible-pilot-means-wait',
       'implies(len(self._pids) == 0, len(fwd_log) == len(old(fwd_log)) and len(self._wait_pool) == len(old(self._wait_pool)) + len(tasks) and '
       'forall(lambda t: implies(0 <= t < len(tasks), self._wait_pool[len(old(self._wait_pool)) + t] == old(tasks)[t])))'),
      ('every-task-bound-to-a-currently-added-pilot',
       'implies(len(self._pids) > 0, forall(lambda t: implies(0 <= t < len(tasks), tasks[t].uid == old(tasks)[t].uid and '
       'tasks[t].pilot is not None and exists(lambda i: 0 <= i < len(self._pids) and self._pids[i] == val(tasks[t].pilot)))))'),
      ('forwarded-exactly-once-each',
       'implies(len(self._pids) > 0, len(fwd_log) == len(old(fwd_log)) + len(tasks) and '
       'forall(lambda t: implies(0 <= t < len(tasks), fwd_log[len(old(fwd_log)) + t].uid == tasks[t].uid and '
       'fwd_log[len(old(fwd_log)) + t].pilot == tasks[t].pilot and fwd_log[len(old(fwd_log)) + t].state == %s)))' % FWD),
      ('round-robin-order',
       'implies(len(self._pids) > 0, forall(lambda t: implies(0 <= t < len(tasks) - 1 and val(tasks[t].pilot) != self._pids[len(self._pids) - 1], '
       'exists(lambda i: 0 <= i < len(self._pids) - 1 and self._pids[i] == val(tasks[t].pilot) and self._pids[i + 1] == val(tasks[t + 1].pilot)))))'),
      ('history-kept', 'forall(lambda k: implies(0 <= k < len(old(fwd_log)), fwd_log[k] == old(fwd_log)[k]))'),
    ],
    loops = {
      '1': ['len(tasks) == len(old(tasks))', 'self._idx >= 0', 'len(self._pids) > 0',
            'len(tasks_fail) == 0', 'len(tasks_ok) == i_task', 'fwd_log == old(fwd_log)',
            'self._wait_pool == old(self._wait_pool)',
            'forall(lambda t: implies(0 <= t < i_task, tasks_ok[t] == tasks[t] and tasks[t].uid == old(tasks)[t].uid and tasks[t].pilot is not None))',
            'forall(lambda t: implies(i_task <= t < len(tasks), tasks[t] == old(tasks)[t]))',
            # position of the pilot each task went to: consecutive, wrapping
            'implies(i_task > 0, 1 <= self._idx <= len(self._pids) and val(tasks[i_task - 1].pilot) == self._pids[self._idx - 1])',
            'forall(lambda t: implies(0 <= t < i_task, exists(lambda i: 0 <= i < len(self._pids) and self._pids[i] == val(tasks[t].pilot))))',
            'forall(lambda t: implies(0 <= t < i_task - 1 and val(tasks[t].pilot) != self._pids[len(self._pids) - 1], '
            'exists(lambda i: 0 <= i < len(self._pids) - 1 and self._pids[i] == val(tasks[t].pilot) and self._pids[i + 1] == val(tasks[t + 1].pilot))))',
            ],
    },
    opts   = dict(merge='scalars'),
    serves = ['C12'])
